#!/bin/bash
# applies each kept seeded change (/verif/seeded/*/patch.diff) to its own scratch worktree and runs its property's check;
# prints those NOT reported (expected: only those whose meta.json records check_exit 0 with a reason). usage: scan_seeded.sh [jobs] [id-regex]
J=${1:-4}; RE=${2:-.}
one() {
  d=$1; id=$(basename $d)
  prop=$(python3 -c "import json;print(json.load(open('$d/meta.json'))['property'])")
  WT=$(mktemp -d /tmp/ss.XXXXXX)/wt
  git -C /repo worktree add -q --detach $WT HEAD 2>/dev/null
  if (cd $WT && git apply $d/patch.diff 2>/dev/null); then
    out=$(/verif/bin/lhcheck -repo $WT -prop $prop -out /tmp/ev_ss_$id 2>&1); code=$?
    rules=$(echo "$out" | grep "^  rule" | sed 's/^  rule \([^:]*\):.*/\1/' | sort -u | tr '\n' ',')
    if [ $code -ne 1 ]; then echo "$id NOT REPORTED exit=$code $(echo "$out" | grep -E 'BROKEN|UNDECIDED' | head -1 | cut -c1-160)"; else echo "$id ok [$rules]"; fi
  else
    echo "$id APPLY-FAILED (tree moved on)"
  fi
  git -C /repo worktree remove --force $WT 2>/dev/null; rm -rf $(dirname $WT) /tmp/ev_ss_$id
}
export -f one
ls -d /verif/seeded/*/ | grep -E "$RE" | xargs -P $J -I{} bash -c 'one {}' | sort > /tmp/scan_seeded.out
grep -v " ok " /tmp/scan_seeded.out
echo "seeded changes scanned: $(wc -l < /tmp/scan_seeded.out), not reported: $(grep -c 'NOT REPORTED' /tmp/scan_seeded.out), apply failed: $(grep -c APPLY-FAILED /tmp/scan_seeded.out)"
