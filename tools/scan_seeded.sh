#!/bin/bash
# applies each kept seeded change (/verif/seeded/*/patch.diff) to a scratch worktree and runs its property's check; prints those NOT reported
WT=/tmp/wt/sscan
git -C /repo worktree remove --force $WT 2>/dev/null
git -C /repo worktree add -q --detach $WT HEAD
n=0; miss=0
for d in /verif/seeded/*/; do
  id=$(basename $d); prop=$(python3 -c "import json;print(json.load(open('$d/meta.json'))['property'])")
  (cd $WT && git checkout -q . && git clean -fdq && git apply $d/patch.diff 2>/dev/null) || { echo "$id APPLY-FAILED (tree moved on)"; continue; }
  out=$(/verif/bin/lhcheck -repo $WT -prop $prop -out /tmp/ev_sscan 2>&1); code=$?
  n=$((n+1))
  if [ $code -ne 1 ]; then miss=$((miss+1)); echo "$id NOT REPORTED exit=$code"; fi
done
echo "seeded changes scanned: $n, not reported: $miss"
(cd $WT && git checkout -q . && git clean -fdq); git -C /repo worktree remove --force $WT
