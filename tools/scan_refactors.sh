#!/bin/bash
# applies each behaviour-preserving refactoring kept under /verif/refactors/*/patch.diff to its own scratch worktree and runs ALL rules:
# every one must stay silent (exit 0). usage: scan_refactors.sh [jobs] [id-regex]
J=${1:-4}; RE=${2:-.}
one() {
  d=$1; id=$(basename $d)
  WT=$(mktemp -d /tmp/sr.XXXXXX)/wt
  git -C /repo worktree add -q --detach $WT HEAD 2>/dev/null
  if (cd $WT && git apply $d/patch.diff 2>/dev/null); then
    out=$(/verif/bin/lhcheck -repo $WT -prop all -out /tmp/ev_sr_$id 2>&1); code=$?
    rules=$(echo "$out" | grep "^  rule" | sed 's/^  rule \([^:]*\):.*/\1/' | sort -u | tr '\n' ',')
    echo "$id exit=$code rules=[$rules] $(echo "$out" | grep -E 'BROKEN|UNDECIDED' | head -2 | cut -c1-200 | tr '\n' ' ')"
  else
    echo "$id APPLY-FAILED (tree moved on)"
  fi
  git -C /repo worktree remove --force $WT 2>/dev/null; rm -rf $(dirname $WT) /tmp/ev_sr_$id
}
export -f one
ls -d /verif/refactors/*/ | grep -E "$RE" | xargs -P $J -I{} bash -c 'one {}' | sort -V > /tmp/scan_refactors.out
grep -v "exit=0" /tmp/scan_refactors.out
echo "refactorings scanned: $(wc -l < /tmp/scan_refactors.out), alarms: $(grep -vc 'exit=0' /tmp/scan_refactors.out)"
