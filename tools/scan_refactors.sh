#!/bin/bash
# applies each behaviour-preserving refactoring to a scratch worktree and runs all checks: every check must stay silent
ROOT=${1:-/tmp/mutants}
WT=/tmp/wt/rscan
git -C /repo worktree remove --force $WT 2>/dev/null
git -C /repo worktree add -q --detach $WT HEAD
for d in $(ls -d $ROOT/ref_${RB:-r}*/R-* 2>/dev/null | sort); do
  [ -f $d/patch.diff ] || continue
  id=$(basename $(dirname $d))/$(basename $d)
  (cd $WT && git checkout -q . && git clean -fdq && git apply $d/patch.diff) || { echo "$id APPLY-FAILED"; continue; }
  out=$(/verif/bin/lhcheck -repo $WT -prop all -out /tmp/ev_rscan 2>&1); code=$?
  rules=$(echo "$out" | grep "^  rule" | sed 's/^  rule \([^:]*\):.*/\1/' | sort -u | tr '\n' ',')
  echo "$id exit=$code rules=[$rules] $(echo "$out" | grep -E 'BROKEN|UNDECIDED' | head -3 | cut -c1-200 | tr '\n' ' ')"
done
(cd $WT && git checkout -q . && git clean -fdq)
git -C /repo worktree remove --force $WT
