#!/bin/bash
# usage: scan_mutants.sh <mutants-root> [prop-filter]   -- applies each patch to a scratch worktree and runs the property's check
ROOT=${1:-/tmp/mutants}; FILTER=${2:-}
WT=/tmp/wt/scan
git -C /repo worktree remove --force $WT 2>/dev/null
git -C /repo worktree add -q --detach $WT HEAD
for d in $(ls -d $ROOT/out_${ROUND:-a}*/C*-* 2>/dev/null | sort -t/ -k5); do
  [ -f $d/patch.diff ] || continue
  id=$(basename $d); prop=${id%%-*}
  [ -n "$FILTER" ] && [[ ! $id =~ $FILTER ]] && continue
  (cd $WT && git checkout -q . && git clean -fdq && git apply $d/patch.diff) || { echo "$id APPLY-FAILED"; continue; }
  out=$(/verif/bin/lhcheck -repo $WT -prop $prop -out /tmp/ev_scan 2>&1)
  code=$?
  rules=$(echo "$out" | grep "^  rule" | sed 's/^  rule \([^:]*\):.*/\1/' | sort -u | tr '\n' ',')
  allout=$(/verif/bin/lhcheck -repo $WT -prop all -out /tmp/ev_scan 2>&1); acode=$?
  arules=$(echo "$allout" | grep "^  rule" | sed 's/^  rule \([^:]*\):.*/\1/' | sort -u | tr '\n' ',')
  echo "$id exit=$code rules=[$rules] | all: exit=$acode rules=[$arules] $(echo "$out$allout" | grep -E 'BROKEN|UNDECIDED' | head -2 | cut -c1-150)"
done
(cd $WT && git checkout -q . && git clean -fdq)
git -C /repo worktree remove --force $WT
