#!/usr/bin/env python3
import json,jsonschema,glob,sys
jsonschema.validate(json.load(open('/verif/MANIFEST.json')), json.load(open('/root/.vp/MANIFEST.schema.json')))
print('manifest valid')
s=json.load(open('/root/.vp/EVIDENCE.schema.json'))
m=json.load(open('/verif/MANIFEST.json'))
for c in m['checks']:
    try:
        jsonschema.validate(json.load(open(c['evidence_file'])), s); print(c['property_id'],'evidence valid')
    except Exception as e:
        print(c['property_id'],'EVIDENCE PROBLEM',str(e)[:200])
