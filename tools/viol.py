#!/usr/bin/env python3
"""debug helper: print violation reports compactly. usage: inspect.py <dir> <rule-regex> [fact-keyword]"""
import json,glob,re,sys
d=sys.argv[1]; rx=re.compile(sys.argv[2]); kw=sys.argv[3] if len(sys.argv)>3 else None
def ab(s):
    for a,b in [('@RawMessageFilter.futureCache[@State.height][*]','CM'),('SignedHeader(CM.content)','CH'),('SignedHeader(Message(CM.content))','CPH'),('ToConsensusMessage(<rawMessage>)','M'),('SignedHeader(M.content)','H'),('SignedHeader(Message(M.content))','PH'),('@TermInCommittee.committeeMembers','CMT'),('ViewChangeConfirmationsIterator(H)','VCI')]:
        s=s.replace(a,b)
    return s
for f in sorted(glob.glob(d+'/*.json')):
    r=json.load(open(f))
    if not rx.search(r['rule']): continue
    for i in r['instances'][:1]:
        print(r['rule'], r['key'], i['site'])
        print('  missing:', ab(i.get('missing',''))[:600])
        print('  path:', ' > '.join(x.split(').')[-1].split('@')[0] for x in i.get('path','').split(' -> ')))
        for h in i.get('held',[]):
            if kw is None or kw in h: print('      ', ab(h)[:260])
