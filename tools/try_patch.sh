#!/bin/bash
# usage: try_patch.sh <patch.diff> [prop]  -> applies to scratch worktree /tmp/wt/try, runs lhcheck, leaves reports in /tmp/ev_try/violations
WT=/tmp/wt/try
git -C /repo worktree remove --force $WT 2>/dev/null
git -C /repo worktree add -q --detach $WT HEAD
(cd $WT && git apply $1) || { echo APPLY-FAILED; exit 3; }
rm -rf /tmp/ev_try; mkdir -p /tmp/ev_try
${LHBIN:-/verif/bin/lhcheck} -repo $WT -prop ${2:-all} -out /tmp/ev_try 2>&1 | grep -vE "^(ok|  held)" | cut -c1-400 | head -${LINES_MAX:-60}
