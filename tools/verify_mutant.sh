#!/bin/bash
# usage: verify_mutant.sh <mutant-dir>   (dir holds patch.diff, meta.json {demo_path, demo_cmd}, demo/<files>)
# Confirms in a scratch worktree of /repo HEAD: patch applies, builds, the whole suite passes with it,
# the demonstration fails with it and passes without it. Prints "<id> VERIFIED" or "<id> REJECTED <why>".
export GOFLAGS=-mod=mod GOPROXY=off GOSUMDB=off GOTOOLCHAIN=local
D=$(readlink -f $1); id=$(basename $D)
WT=$(mktemp -d /tmp/vm.XXXXXX)/wt
cleanup(){ git -C /repo worktree remove --force $WT 2>/dev/null; rm -rf $(dirname $WT); }
trap cleanup EXIT
git -C /repo worktree add -q --detach $WT HEAD || { echo "$id REJECTED worktree"; exit 2; }
cd $WT
git apply $D/patch.diff || { echo "$id REJECTED patch does not apply"; exit 1; }
go build ./... >/tmp/vm_$id.build 2>&1 || { echo "$id REJECTED build fails"; exit 1; }
go vet ./... >/dev/null 2>&1  # informational only
if ! go test -vet=off -count=1 -timeout 25m ./... >/tmp/vm_$id.suite 2>&1; then
  # one retry: the suite has wall-clock tests
  if ! go test -vet=off -count=1 -timeout 25m ./... >/tmp/vm_$id.suite 2>&1; then
    echo "$id REJECTED suite fails with the patch: $(grep -E '^(--- FAIL|FAIL)' /tmp/vm_$id.suite | head -3 | tr '\n' ' ')"; exit 1; fi
fi
demo_path=$(python3 -c "import json;print(json.load(open('$D/meta.json')).get('demo_path',''))")
demo_cmd=$(python3 -c "import json;print(json.load(open('$D/meta.json')).get('demo_cmd',''))")
mkdir -p $WT/$(dirname $demo_path)
cp $D/demo/$(basename $demo_path) $WT/$demo_path || { echo "$id REJECTED demo file missing"; exit 1; }
fails=0
for i in 1 2 3; do ( cd $WT && timeout 600 bash -c "$demo_cmd" ) >/tmp/vm_$id.demo_with 2>&1 || fails=$((fails+1)); done
[ $fails -ge 1 ] || { echo "$id REJECTED demo passes with the patch"; exit 1; }
git apply -R $D/patch.diff || { echo "$id REJECTED cannot revert"; exit 1; }
for i in 1 2 3; do
  ( cd $WT && timeout 600 bash -c "$demo_cmd" ) >/tmp/vm_$id.demo_without 2>&1 || { echo "$id REJECTED demo fails without the patch (run $i): $(grep -E 'FAIL|panic' /tmp/vm_$id.demo_without | head -2 | tr '\n' ' ')"; exit 1; }
done
echo "$id VERIFIED demo_fail_runs=$fails/3"
rm -f /tmp/vm_$id.*
