#!/usr/bin/env python3
"""Copies verified mutants into /verif/seeded/<id>/ and records which rules of which check detect them.
usage: import_seeded.py <verify.log> <mutant dirs...>"""
import json,os,sys,shutil,subprocess,re
log=sys.argv[1]
verified={l.split()[0] for l in open(log) if 'VERIFIED' in l}
WT='/tmp/wt/seedscan'
subprocess.run(['git','-C','/repo','worktree','remove','--force',WT],stderr=subprocess.DEVNULL)
subprocess.check_call(['git','-C','/repo','worktree','add','-q','--detach',WT,'HEAD'])
suffix=sys.argv[2]
for d in sorted(sys.argv[3:]):
    mid=os.path.basename(d)
    if mid not in verified:
        print(mid,'not verified, skipped'); continue
    meta=json.load(open(d+'/meta.json'))
    prop=meta['property']
    out='/verif/seeded/%s%s'%(mid,suffix)
    os.makedirs(out,exist_ok=True)
    shutil.copy(d+'/patch.diff',out+'/patch.diff')
    if os.path.isdir(out+'/demo'): shutil.rmtree(out+'/demo')
    shutil.copytree(d+'/demo',out+'/demo')
    subprocess.check_call('cd %s && git checkout -q . && git clean -fdq && git apply %s/patch.diff'%(WT,d),shell=True)
    r=subprocess.run(['/verif/bin/lhcheck','-repo',WT,'-prop',prop,'-out','/tmp/ev_seed'],capture_output=True,text=True)
    rules=sorted(set(re.findall(r'^  rule ([^:]+):',r.stdout,re.M)))
    meta2={
      "property":prop,"summary":meta.get('summary'),"why_breaks":meta.get('why_breaks'),"needs":meta.get('needs'),
      "demo_path":meta.get('demo_path'),"demo_cmd":meta.get('demo_cmd'),
      "verified":"patch applied to a scratch worktree of /repo HEAD: go build ./... ok; full suite (go test -vet=off -count=1 ./...) passes with the patch; demo fails with the patch and passes after git apply -R",
      "ran":["/tmp/verify_mutants.sh (apply, build, suite, demo with/without)","bin/lhcheck -repo <scratch> -prop %s"%prop],
      "check_exit":r.returncode,"detected_by_rules":rules,
      "source":"independent sub-agent given only the property text and a scratch worktree"}
    json.dump(meta2,open(out+'/meta.json','w'),indent=1)
    print(mid,prop,'exit',r.returncode,rules)
subprocess.run('cd %s && git checkout -q . && git clean -fdq'%WT,shell=True)
subprocess.run(['git','-C','/repo','worktree','remove','--force',WT])
