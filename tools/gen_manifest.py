#!/usr/bin/env python3
"""Generates /verif/MANIFEST.json from the claims table below (kept in one place so that the file stays valid)."""
import json
ENV = "GOFLAGS=-mod=vendor GOPROXY=off GOSUMDB=off GOTOOLCHAIN=local GOWORK=off"
claims = json.load(open('/verif/tools/claims.json'))
checks = []
for c in claims['claimed']:
    pid = c['id']
    checks.append({
        "property_id": pid,
        "quick_cmd": "bin/lhcheck -prop %s -tier quick" % pid,
        "thorough_cmd": "bin/lhcheck -prop %s -tier thorough" % pid,
        "evidence_file": "/verif/evidence/%s.json" % pid,
        "replay_cmd_template": "bin/lhcheck -prop %s -explain {path}" % pid,
        "engine": "lhcheck",
        "level_claimed": {"category": c.get('level', 'other'), "text": c['text'], "design_ref": "DESIGN.md §4 " + pid},
        "level_note": c['note'],
        "technique": c['technique'],
    })
m = {
    "version": 1,
    "setup_cmd": "mkdir -p /verif/bin /verif/evidence && cd /verif/analyzer && %s go build -o /verif/bin/lhcheck ." % ENV,
    "hooks": {
        "guard": "verif",
        "enable": "none needed: the checks are static analyses of the unmodified source of /repo (no hook commits exist)",
        "baseline_off_cmd": "cd /repo && GOFLAGS=-mod=mod GOPROXY=off GOSUMDB=off go test -vet=off -count=1 -timeout 25m ./...",
        "source_commits": [],
        "add_only": True,
    },
    "engines": [{
        "name": "lhcheck",
        "path": "/verif/analyzer",
        "serves_properties": [c['id'] for c in claims['claimed']],
        "kind_free_text": "repository-specific static analyser over go/packages + go/ssa + VTA call graph: must-fact dataflow with bounded virtual inlining, validator summaries, loop generalisation, case splits; arithmetic normal forms; who-may-call/write; channel, lock and recover-boundary shape rules; writer/reader table agreement",
    }],
    "checks": checks,
    "notes": claims.get('notes', ''),
    "not_applicable": claims['not_applicable'],
}
json.dump(m, open('/verif/MANIFEST.json', 'w'), indent=1)
print("claimed", len(checks), "not_applicable", len(claims['not_applicable']))
