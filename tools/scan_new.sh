#!/bin/bash
# usage: scan_new.sh <mutant-dir>...   for each: verify (suite passes, demo fails/passes) unless a .verified marker exists, then run the
# property's check and the whole rule set on a scratch worktree with the patch applied. Prints one line per mutant.
export GOFLAGS=-mod=mod GOPROXY=off GOSUMDB=off GOTOOLCHAIN=local
for D in "$@"; do
  D=$(readlink -f $D); id=$(basename $D)
  [ -f $D/patch.diff ] || { echo "$id NO-PATCH"; continue; }
  if [ ! -f $D/.verified ]; then
    v=$(/verif/tools/verify_mutant.sh $D 2>&1 | tail -1)
    case "$v" in *VERIFIED*) echo "$v" > $D/.verified;; *) echo "$v"; continue;; esac
  fi
  prop=$(python3 -c "import json;print(json.load(open('$D/meta.json'))['property'])")
  WT=$(mktemp -d /tmp/sn.XXXXXX)/wt
  git -C /repo worktree add -q --detach $WT HEAD
  (cd $WT && git apply $D/patch.diff)
  out=$(/verif/bin/lhcheck -repo $WT -prop $prop -out /tmp/ev_sn_$id 2>&1); code=$?
  rules=$(echo "$out" | grep "^  rule" | sed 's/^  rule \([^:]*\):.*/\1/' | sort -u | tr '\n' ',')
  arules=""; acode=""
  if [ $code -ne 1 ]; then
    allout=$(/verif/bin/lhcheck -repo $WT -prop all -out /tmp/ev_sn_$id 2>&1); acode=$?
    arules=$(echo "$allout" | grep "^  rule" | sed 's/^  rule \([^:]*\):.*/\1/' | sort -u | tr '\n' ',')
  fi
  echo "$id prop=$prop exit=$code rules=[$rules] all: exit=$acode rules=[$arules] $(echo "$out" | grep -E 'BROKEN|UNDECIDED' | head -2 | cut -c1-200)"
  echo "$code $rules" > $D/.detected
  git -C /repo worktree remove --force $WT; rm -rf $(dirname $WT) /tmp/ev_sn_$id
done
