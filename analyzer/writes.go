package main

import (
	"go/types"
	"sort"
	"strings"

	"golang.org/x/tools/go/ssa"
)

// Locations (DESIGN §2.9): "T.f" for fields of singleton structs, "log:<name>" for the Storage SPI logs,
// "mem:<make-term>" for function-local maps.

var storageWrites = map[string][]string{
	"StorePreprepare":      {"log:preprepare"},
	"StorePrepare":         {"log:prepare"},
	"StoreCommit":          {"log:commit"},
	"StoreViewChange":      {"log:viewchange"},
	"ClearBlockHeightLogs": {"log:preprepare", "log:prepare", "log:commit", "log:viewchange"},
}

var storageReads = map[string][]string{
	"GetPreprepareMessage":       {"log:preprepare"},
	"GetPreprepareBlock":         {"log:preprepare"},
	"GetLatestPreprepare":        {"log:preprepare"},
	"GetPreprepareFromView":      {"log:preprepare"},
	"GetPrepareMessages":         {"log:prepare"},
	"GetPrepareSendersIds":       {"log:prepare"},
	"GetPrepareMessagesFromView": {"log:prepare"},
	"GetCommitMessages":          {"log:commit"},
	"GetCommitSendersIds":        {"log:commit"},
	"GetCommitMessagesFromView":  {"log:commit"},
	"GetViewChangeMessages":      {"log:viewchange"},
	"GetAllMessagesFromView":     {"log:preprepare", "log:prepare", "log:commit", "log:viewchange"},
}

// fieldLoc: location name for a field address whose base is a singleton struct.
func (a *Analyzer) fieldLoc(fa *ssa.FieldAddr) string {
	pt, ok := fa.X.Type().Underlying().(*types.Pointer)
	if !ok {
		return ""
	}
	ts := typeShort(pt.Elem())
	if !a.singletons[ts] {
		// state.State embeds fields; HeightView etc. are values
		return ""
	}
	return ts + "." + fieldName(fa.X.Type(), fa.Field)
}

// addrLoc resolves the written location of a store/map-update address.
func (a *Analyzer) addrLoc(v ssa.Value) string {
	for {
		switch x := v.(type) {
		case *ssa.FieldAddr:
			if l := a.fieldLoc(x); l != "" {
				return l
			}
			v = x.X
		case *ssa.IndexAddr:
			v = x.X
		case *ssa.UnOp:
			v = x.X // load of a field holding a map/slice/pointer
		case *ssa.Slice:
			v = x.X
		default:
			return ""
		}
	}
}

func (a *Analyzer) instrOwnWrites(in ssa.Instruction, out map[string]bool) {
	switch x := in.(type) {
	case *ssa.Store:
		if l := a.addrLoc(x.Addr); l != "" {
			out[l] = true
		}
	case *ssa.MapUpdate:
		if l := a.addrLoc(x.Map); l != "" {
			out[l] = true
		}
	case ssa.CallInstruction:
		c := x.Common()
		if b, ok := c.Value.(*ssa.Builtin); ok {
			if b.Name() == "delete" || b.Name() == "copy" {
				if l := a.addrLoc(c.Args[0]); l != "" {
					out[l] = true
				}
			}
			return
		}
		if c.IsInvoke() {
			recvT := typeShort(c.Value.Type())
			if recvT == "interfaces.Storage" {
				for _, l := range storageWrites[c.Method.Name()] {
					out[l] = true
				}
			}
		}
	}
}

func (a *Analyzer) computeWrites() {
	a.ownWrites = map[*ssa.Function]map[string]bool{}
	for _, f := range a.P.Funcs {
		w := map[string]bool{}
		for _, b := range f.Blocks {
			for _, in := range b.Instrs {
				a.instrOwnWrites(in, w)
			}
		}
		// InMemoryStorage methods implement the SPI logs
		if f.Signature.Recv() != nil && typeShort(f.Signature.Recv().Type()) == "storage.InMemoryStorage" {
			for _, l := range storageWrites[f.Name()] {
				w[l] = true
			}
		}
		a.ownWrites[f] = w
	}
	// transitive closure over static callees and VTA-resolved dynamic callees; logging calls are skipped
	a.writes = map[*ssa.Function]map[string]bool{}
	for _, f := range a.P.Funcs {
		w := map[string]bool{}
		for k := range a.ownWrites[f] {
			w[k] = true
		}
		a.writes[f] = w
	}
	// write-backs: a helper that stores its parameter into a location, called with the value just read from that very
	// location (`s.store(s.height, v)`), does not change the location: for that caller the helper does not write it
	excl := map[[2]*ssa.Function]map[string]bool{}
	for _, f := range a.P.Funcs {
		for _, g := range a.calleesOf(f) {
			if e := a.writeBacks(f, g); len(e) > 0 {
				excl[[2]*ssa.Function{f, g}] = e
			}
		}
	}
	for changed := true; changed; {
		changed = false
		for _, f := range a.P.Funcs {
			w := a.writes[f]
			for _, g := range a.calleesOf(f) {
				ex := excl[[2]*ssa.Function{f, g}]
				for k := range a.writes[g] {
					if !w[k] && !ex[k] {
						w[k] = true
						changed = true
					}
				}
			}
		}
	}
}

// writeBacks: the locations that g writes only by storing one of its parameters, where every call of g in f passes for
// that parameter the value loaded from the same location earlier in the same block with no store to it in between.
func (a *Analyzer) writeBacks(f, g *ssa.Function) map[string]bool {
	if len(g.Blocks) != 1 || len(a.ownWrites[g]) == 0 {
		return nil
	}
	// location -> parameter index, for straight-line helpers whose callees write nothing
	for _, h := range a.calleesOf(g) {
		if len(a.ownWrites[h]) > 0 {
			return nil
		}
	}
	paramOf := map[string]int{}
	for _, in := range g.Blocks[0].Instrs {
		st, ok := in.(*ssa.Store)
		if !ok {
			continue
		}
		loc := a.addrLoc(st.Addr)
		if loc == "" {
			continue
		}
		idx := -1
		for i, p := range g.Params {
			if st.Val == ssa.Value(p) {
				idx = i
			}
		}
		if prev, seen := paramOf[loc]; seen && prev != idx {
			idx = -1
		}
		paramOf[loc] = idx
	}
	out := map[string]bool{}
	for loc, idx := range paramOf {
		if idx < 0 {
			continue
		}
		all, any := true, false
		for _, b := range f.Blocks {
			for ci, in := range b.Instrs {
				call, ok := in.(ssa.CallInstruction)
				if !ok || call.Common().StaticCallee() != g {
					continue
				}
				any = true
				good := false
				if idx < len(call.Common().Args) {
					if ld, isLd := call.Common().Args[idx].(*ssa.UnOp); isLd && ld.Block() == b && a.addrLoc(ld.X) == loc {
						good = true
						past := false
						for _, mid := range b.Instrs[:ci] {
							if mid == ssa.Instruction(ld) {
								past = true
								continue
							}
							if !past {
								continue
							}
							w := map[string]bool{}
							a.instrOwnWrites(mid, w)
							if w[loc] {
								good = false
							}
							if mc, isCall := mid.(ssa.CallInstruction); isCall {
								if sc := mc.Common().StaticCallee(); sc != nil && a.writes[sc][loc] {
									good = false
								}
							}
						}
					}
				}
				if !good {
					all = false
				}
			}
		}
		if any && all {
			out[loc] = true
		}
	}
	return out
}

// calleesOf: library functions a function may call (static + VTA), ignoring logging calls.
func (a *Analyzer) calleesOf(f *ssa.Function) []*ssa.Function {
	if r, ok := a.calleeCache[f]; ok {
		return r
	}
	seen := map[*ssa.Function]bool{}
	var res []*ssa.Function
	add := func(g *ssa.Function) {
		if g != nil && g.Blocks != nil && !seen[g] && inLibraryScope(funcPkgPath(g)) {
			seen[g] = true
			res = append(res, g)
		}
	}
	var node = a.P.VTA().Nodes[f]
	for _, b := range f.Blocks {
		for _, in := range b.Instrs {
			ci, ok := in.(ssa.CallInstruction)
			if !ok {
				continue
			}
			c := ci.Common()
			if isLoggingCall(c) {
				continue
			}
			if g := c.StaticCallee(); g != nil {
				add(g)
				continue
			}
			if node != nil {
				for _, e := range node.Out {
					if e.Site == ci {
						add(e.Callee.Func)
					}
				}
			}
		}
	}
	if a.calleeCache == nil {
		a.calleeCache = map[*ssa.Function][]*ssa.Function{}
	}
	a.calleeCache[f] = res
	return res
}

// callWrites: locations a call instruction may write (CHA closure + SPI table).
func (a *Analyzer) callWrites(in ssa.CallInstruction) map[string]bool {
	out := map[string]bool{}
	a.instrOwnWrites(in, out)
	c := in.Common()
	if _, ok := c.Value.(*ssa.Builtin); ok {
		return out
	}
	if f := c.StaticCallee(); f != nil {
		for k := range a.writes[f] {
			out[k] = true
		}
		return out
	}
	n := a.P.VTA().Nodes[in.Parent()]
	if n != nil {
		for _, e := range n.Out {
			if e.Site == in {
				for k := range a.writes[e.Callee.Func] {
					out[k] = true
				}
			}
		}
	}
	return out
}

// termReads: locations whose mutation invalidates the term.
// walkLive visits the sub-terms that are (re-)evaluated now: frozen pre(...) sub-terms are values and are skipped.
func walkLive(t *Term, f func(*Term)) {
	if t.Op == "pre" {
		return
	}
	f(t)
	for _, a := range t.Args {
		walkLive(a, f)
	}
}

// ctxLiveLoc: pseudo location read by `ctx.Err()` and written by every blocking call that is handed a context (the
// consumer's SPI, consumer callbacks): the context may have been cancelled while the call ran, so "ctx.Err() == nil"
// established before such a call says nothing after it.
const ctxLiveLoc = "ctx:live"

func (a *Analyzer) termReads(t *Term, out map[string]bool) {
	walkLive(t, func(s *Term) {
		switch s.Op {
		case "field":
			if len(s.Args) == 1 && s.Args[0].Op == "this" {
				out[s.Args[0].Name+"."+s.Name] = true
			}
		case "lookup", "haskey":
			if len(s.Args) > 0 && s.Args[0].Op == "make" {
				out["mem:"+s.Args[0].Key()] = true
			}
		case "call":
			if s.Name == "context.Err" || s.Name == "context.Done" {
				// whether a context is still live is not a stable fact: see ctxLiveLoc
				out[ctxLiveLoc] = true
			}
			if i := strings.LastIndex(s.Name, "."); i >= 0 && strings.HasPrefix(s.Name, "interfaces.") {
				for _, l := range storageReads[s.Name[i+1:]] {
					out[l] = true
				}
			}
			// a pure (effect-free) function of the state is re-evaluable: its value depends on what it reads.
			// The result of an effectful call is a value fixed when the call ran (facts about it are dropped when
			// the same call is executed again, see Flow.transfer).
			for _, f := range a.funcsByShort()[s.Name] {
				if !a.effectFree[f] {
					continue
				}
				for l := range a.readsOf(f) {
					out[l] = true
				}
			}
		}
	})
}

func (a *Analyzer) funcsByShort() map[string][]*ssa.Function {
	if a.shortIndex == nil {
		a.shortIndex = map[string][]*ssa.Function{}
		for _, f := range a.P.Funcs {
			a.shortIndex[shortName(f)] = append(a.shortIndex[shortName(f)], f)
		}
	}
	return a.shortIndex
}

// readsOf: transitive may-read set of a library function (singleton fields, State, storage logs).
func (a *Analyzer) readsOf(f *ssa.Function) map[string]bool {
	if a.readsCache == nil {
		a.readsCache = map[*ssa.Function]map[string]bool{}
	}
	if r, ok := a.readsCache[f]; ok {
		return r
	}
	r := map[string]bool{}
	a.readsCache[f] = r
	seen := map[*ssa.Function]bool{}
	var visit func(g *ssa.Function)
	visit = func(g *ssa.Function) {
		if seen[g] || g.Blocks == nil {
			return
		}
		seen[g] = true
		for _, b := range g.Blocks {
			for _, in := range b.Instrs {
				switch x := in.(type) {
				case *ssa.UnOp:
					if fa, ok := x.X.(*ssa.FieldAddr); ok {
						if l := a.fieldLoc(fa); l != "" {
							r[l] = true
						}
					}
				case ssa.CallInstruction:
					c := x.Common()
					if c.IsInvoke() && typeShort(c.Value.Type()) == "interfaces.Storage" {
						for _, l := range storageReads[c.Method.Name()] {
							r[l] = true
						}
					}
				}
			}
		}
		for _, h := range a.calleesOf(g) {
			visit(h)
		}
	}
	visit(f)
	return r
}

func (a *Analyzer) atomReads(at *Atom) map[string]bool {
	// memoised per analyser (one analyser per goroutine); callers only read the result
	if a.atomReadsMemo == nil {
		a.atomReadsMemo = map[string]map[string]bool{}
	}
	k := at.Key()
	if r, ok := a.atomReadsMemo[k]; ok {
		return r
	}
	r := a.atomReadsUncached(at)
	a.atomReadsMemo[k] = r
	return r
}

func (a *Analyzer) atomReadsUncached(at *Atom) map[string]bool {
	out := map[string]bool{}
	if at.Pred == "fresh" && len(at.Args) == 2 {
		// a statement about the moment of insertion: later updates of the set do not invalidate it
		a.termReads(at.Args[1], out)
		return out
	}
	for _, t := range at.Args {
		a.termReads(t, out)
	}
	return out
}

func sortedSet(m map[string]bool) []string {
	r := make([]string, 0, len(m))
	for k := range m {
		r = append(r, k)
	}
	sort.Strings(r)
	return r
}
