package main

import (
	"fmt"
	"os"
	"go/constant"
	"go/token"
	"go/types"
	"strings"
	"sync"

	"golang.org/x/tools/go/ssa"
)

// Analyzer holds program-wide tables shared by all engines.
type Analyzer struct {
	P          *Prog
	singletons map[string]bool // type name (pkg.Type) -> treated as one live instance
	effectFree map[*ssa.Function]bool
	lwCache    map[*ssa.Function]map[*ssa.BasicBlock]map[string]bool
	noSnapshot bool
	inlinable  map[*ssa.Function]int // 0 unknown, 1 yes, 2 no
	loops      map[*ssa.Function]*LoopInfo
	implCache  map[string][]*ssa.Function
	writes     map[*ssa.Function]map[string]bool // transitive may-write locations
	ownWrites  map[*ssa.Function]map[string]bool
	summaries  map[string]*summary
	ctxSummaries map[string]*summary
	ctxDepth   int
	calleeCache map[*ssa.Function][]*ssa.Function
	shortIndex  map[string][]*ssa.Function
	readsCache  map[*ssa.Function]map[string]bool
	atomReadsMemo map[string]map[string]bool
	quorumReach map[*ssa.Function]int
	globalTables map[*ssa.Global]*Term
	anchors     *K
	valsum     map[*ssa.Function]*Term
	valsumBusy map[*ssa.Function]bool
}

func NewAnalyzer(p *Prog) *Analyzer {
	a := &Analyzer{P: p, singletons: map[string]bool{}, inlinable: map[*ssa.Function]int{}, loops: map[*ssa.Function]*LoopInfo{},
		implCache: map[string][]*ssa.Function{}, summaries: map[string]*summary{}}
	dynResolver = a.resolveDyn
	for _, s := range []string{
		"termincommittee.TermInCommittee", "leanhelix.WorkerLoop", "leanhelix.MainLoop", "rawmessagesfilter.RawMessageFilter",
		"state.State", "state.ViewContexts", "Electiontrigger.TimerBasedElectionTrigger", "messagesfactory.MessageFactory",
		"leanhelixterm.LeanHelixTerm", "leanhelixterm.ConsensusMessagesFilter", "storage.InMemoryStorage", "interfaces.Config",
		"interfaces.KeyManager", "interfaces.Storage", "interfaces.BlockUtils", "interfaces.Membership", "interfaces.Communication",
		"interfaces.ElectionScheduler", "rawmessagesfilter.ConsensusMessagesHandler", "leanhelixterm.TermMessagesHandler",
		"logger.LHLogger", "interfaces.Logger", "logger.lhLogger",
	} {
		a.singletons[s] = true
	}
	a.computeEffects()
	a.computeWrites()
	return a
}

func (a *Analyzer) Loops(fn *ssa.Function) *LoopInfo {
	li := a.loops[fn]
	if li == nil {
		li = analyzeLoops(fn)
		a.loops[fn] = li
	}
	return li
}

func typeShort(t types.Type) string {
	for {
		switch x := t.(type) {
		case *types.Pointer:
			t = x.Elem()
			continue
		case *types.Named:
			if x.Obj().Pkg() == nil {
				return x.Obj().Name()
			}
			return x.Obj().Pkg().Name() + "." + x.Obj().Name()
		case *types.Alias:
			t = types.Unalias(x)
			continue
		}
		return t.String()
	}
}

func (a *Analyzer) singletonOf(t types.Type) string {
	s := typeShort(t)
	if a.singletons[s] {
		return s
	}
	return ""
}

// shortName: pkgname.Name (receiver type dropped so that sibling reader types unify)
func shortName(fn *ssa.Function) string {
	name := fn.Name()
	if fn.Parent() != nil {
		// anonymous: parentshort$n
		return shortName(fn.Parent()) + name[strings.LastIndex(name, "$"):]
	}
	pkg := ""
	if fn.Pkg != nil {
		pkg = fn.Pkg.Pkg.Name()
	} else if fn.Object() != nil && fn.Object().Pkg() != nil {
		pkg = fn.Object().Pkg().Name()
	}
	return pkg + "." + name
}

func methodShort(m *types.Func) string {
	if m.Pkg() == nil {
		return "builtin." + m.Name() // error.Error
	}
	return m.Pkg().Name() + "." + m.Name()
}

func isSpecTypesPkg(path string) bool {
	return strings.HasPrefix(path, modPath+"/spec/types/")
}

// resolveDyn: see dynResolver. Context-free: only functions whose value can be stated over their arguments (value
// summaries, intrinsics, bound-method wrappers around those) are resolved; anything else stays a dynamic call.
func (a *Analyzer) resolveDyn(na []*Term) *Term {
	fv, args := na[0], na[1:]
	mk := ""
	for _, x := range na {
		mk += x.Key() + "|"
	}
	if v, ok := dynMemo.Load(mk); ok {
		if v == nil {
			return nil
		}
		return v.(*Term)
	}
	t := a.resolveDyn1(fv, args)
	if t == nil {
		dynMemo.Store(mk, nil)
	} else {
		dynMemo.Store(mk, t)
	}
	return t
}

var dynMemo sync.Map

func (a *Analyzer) resolveDyn1(fv *Term, args []*Term) *Term {
	f := a.P.FuncByID[fv.Name]
	if f == nil {
		if sf, ok := syntheticFns.Load(fv.Name); ok {
			f = sf.(*ssa.Function)
		}
	}
	if f == nil {
		return nil
	}
	c := a.NewFCtx(f, nil, 1)
	t := c.staticCall(f, args, fv.Args)
	if os.Getenv("LH_DEBUG_DYN") != "" {
		fmt.Fprintf(os.Stderr, "resolveDyn %s (%d bindings) -> %s\n", fv.Name, len(fv.Args), PP(t))
	}
	if t == nil || t.Contains(func(x *Term) bool { return x.Op == "phi" || x.Op == "unk" }) {
		return nil
	}
	return t
}

// syntheticFns: compiler-made wrappers (bound methods `x.M` used as values) met while building closure terms.
var syntheticFns sync.Map

var keepNamed = map[string]bool{
	"quorum.IsQuorum": true, "quorum.HasHonest": true, "quorum.CalcQuorumWeight": true, "quorum.CalcByzMaxWeight": true,
	"quorum.GetWeights": true, "state.OlderThan": true,
	"randomseed.CalculateRandomSeed": true, "randomseed.RandomSeedToBytes": true,
	"Electiontrigger.CalcTimeout": true,
}

// spiPure: interface methods that are observationally pure (DESIGN §7 trusted base)
func spiMethodPure(m *types.Func) (pure bool, known bool) {
	recv := m.Type().(*types.Signature).Recv()
	if recv == nil {
		return false, false
	}
	tn := typeShort(recv.Type())
	name := m.Name()
	switch tn {
	case "interfaces.KeyManager":
		return strings.HasPrefix(name, "Verify") || name == "AggregateRandomSeed", true
	case "interfaces.Storage":
		return strings.HasPrefix(name, "Get"), true
	case "interfaces.BlockUtils":
		return name == "ValidateBlockCommitment", true
	case "interfaces.Membership":
		return name == "MyMemberId", true
	case "interfaces.Communication":
		return false, true
	case "interfaces.ElectionScheduler":
		return name == "CalcTimeout" || name == "ElectionChannel", true
	case "interfaces.Block":
		return true, true
	case "interfaces.ConsensusMessage", "interfaces.Serializable", "interfaces.ConsensusRawMessageConverter":
		return true, true
	case "context.Context":
		return true, true
	case "error", "fmt.Stringer":
		return true, true
	case "rawmessagesfilter.ConsensusMessagesHandler", "leanhelixterm.TermMessagesHandler":
		return false, true
	}
	return false, false
}

func isLoggerType(t types.Type) bool {
	s := typeShort(t)
	return s == "logger.LHLogger" || s == "interfaces.Logger" || s == "logger.lhLogger" || s == "log.Logger" || s == "logger.LoggerWrapper" || strings.HasPrefix(s, "logger.")
}

func isLoggingCall(c *ssa.CallCommon) bool {
	if c.IsInvoke() {
		return isLoggerType(c.Value.Type())
	}
	if f := c.StaticCallee(); f != nil {
		if sig := f.Signature; sig.Recv() != nil && isLoggerType(sig.Recv().Type()) {
			return true
		}
		if f.Pkg != nil {
			pp := f.Pkg.Pkg.Path()
			if pp == modPath+"/services/logger" || strings.HasPrefix(pp, "github.com/orbs-network/scribe/log") {
				return true
			}
		}
	}
	return false
}

var pureExternal = map[string]bool{
	"fmt": true, "errors": true, "github.com/pkg/errors": true, "strings": true, "strconv": true, "crypto/sha256": true,
	"encoding/binary": true, "math": true, "encoding/hex": true, "bytes": true, "runtime": true, "runtime/debug": true,
	"github.com/orbs-network/membuffers/go": true, "math/bits": true,
}

func externalPure(fn *ssa.Function) bool {
	pp := funcPkgPath(fn)
	if pureExternal[pp] {
		return true
	}
	if pp == "time" {
		switch fn.Name() {
		case "Now", "Sub", "Since", "Duration", "String":
			return true
		}
	}
	if pp == "context" {
		switch fn.Name() {
		case "Background", "TODO":
			return true
		}
	}
	return false
}

// freshAddr: is the address derived from an allocation local to fn?
func freshAddr(v ssa.Value) bool {
	for {
		switch x := v.(type) {
		case *ssa.Alloc, *ssa.MakeSlice, *ssa.MakeMap:
			return true
		case *ssa.FieldAddr:
			v = x.X
		case *ssa.IndexAddr:
			v = x.X
		case *ssa.Slice:
			v = x.X
		case *ssa.Phi:
			// append-phi of fresh slices
			for _, e := range x.Edges {
				if e == x {
					continue
				}
				if c, ok := e.(*ssa.Call); ok && isBuiltin(c, "append") {
					continue
				}
				if !freshAddrShallow(e) {
					return false
				}
			}
			return true
		case *ssa.Call:
			if isBuiltin(x, "append") {
				v = x.Call.Args[0]
				continue
			}
			return false
		default:
			return false
		}
	}
}

func freshAddrShallow(v ssa.Value) bool {
	switch x := v.(type) {
	case *ssa.Alloc, *ssa.MakeSlice, *ssa.MakeMap:
		return true
	case *ssa.Const:
		return x.IsNil()
	case *ssa.Slice:
		return freshAddrShallow(x.X)
	}
	return false
}

// isMutexOp: a static call of sync.(*Mutex|*RWMutex).{Lock,Unlock,RLock,RUnlock}.
func isMutexOp(c *ssa.CallCommon) bool {
	f := c.StaticCallee()
	if f == nil || funcPkgPath(f) != "sync" {
		return false
	}
	switch f.Name() {
	case "Lock", "Unlock", "RLock", "RUnlock":
		return true
	}
	return false
}

func onlyMutexDefers(f *ssa.Function) bool {
	if f == nil {
		return false
	}
	for _, b := range f.Blocks {
		for _, in := range b.Instrs {
			if d, ok := in.(*ssa.Defer); ok && !isMutexOp(&d.Call) {
				return false
			}
		}
	}
	return true
}

func (a *Analyzer) instrEffectFree(in ssa.Instruction, assume map[*ssa.Function]bool) bool {
	switch x := in.(type) {
	case *ssa.Store:
		return freshAddr(x.Addr)
	case *ssa.MapUpdate:
		return freshAddr(x.Map)
	case *ssa.Defer:
		// taking and releasing a mutex around reads is not an effect the facts care about
		return isMutexOp(&x.Call)
	case *ssa.RunDefers:
		return onlyMutexDefers(x.Parent())
	case *ssa.Send, *ssa.Go, *ssa.Select, *ssa.Panic:
		return false
	case *ssa.UnOp:
		if x.Op == token.ARROW {
			return false
		}
		return true
	case *ssa.Call:
		c := &x.Call
		if isLoggingCall(c) {
			return true
		}
		if b, ok := c.Value.(*ssa.Builtin); ok {
			switch b.Name() {
			case "len", "cap", "append", "min", "max":
				return true
			case "copy", "delete":
				return freshAddr(c.Args[0])
			}
			return false
		}
		if c.IsInvoke() {
			pure, known := spiMethodPure(c.Method)
			return known && pure
		}
		if isMutexOp(c) {
			return true
		}
		if f := c.StaticCallee(); f != nil {
			if f.Blocks == nil || !inLibraryScope(funcPkgPath(f)) {
				if funcPkgPath(f) == "sort" {
					return len(c.Args) > 0 && freshAddr(c.Args[0])
				}
				return externalPure(f)
			}
			if isSpecTypesPkg(funcPkgPath(f)) {
				n := f.Name()
				return !strings.HasPrefix(n, "Mutate")
			}
			return assume[f]
		}
		return false
	}
	return true
}

func (a *Analyzer) computeEffects() {
	ef := map[*ssa.Function]bool{}
	for _, f := range a.P.Funcs {
		ef[f] = true
	}
	for changed := true; changed; {
		changed = false
		for _, f := range a.P.Funcs {
			if !ef[f] {
				continue
			}
			ok := true
			for _, b := range f.Blocks {
				for _, in := range b.Instrs {
					if !a.instrEffectFree(in, ef) {
						ok = false
					}
				}
			}
			if f.Recover != nil && !onlyMutexDefers(f) {
				ok = false
			}
			if !ok {
				ef[f] = false
				changed = true
			}
		}
	}
	a.effectFree = ef
}

func (a *Analyzer) isInlinable(f *ssa.Function) bool {
	return a.valueSummary(f) != nil
}

// closedTerm: expressible over the parameters only (no path-dependent, fresh or unknown sub-terms).
func closedTerm(t *Term) bool {
	return !t.Contains(func(s *Term) bool {
		switch s.Op {
		case "phi", "unk", "make", "cell", "select", "recv", "deref", "mapif", "rangeit":
			return true
		case "elem", "mapkey", "mapval":
			return true // an element of the callee's own loop that was not generalised
		}
		return false
	})
}

func placeholderEnv(a *Analyzer, f *ssa.Function) map[ssa.Value]*Term {
	env := map[ssa.Value]*Term{}
	for i, p := range f.Params {
		if sg := a.singletonOf(p.Type()); sg != "" {
			env[p] = This(sg)
		} else {
			env[p] = T("param", itoa(i))
		}
	}
	for i, fv := range f.FreeVars {
		if sg := a.singletonOf(fv.Type()); sg != "" {
			env[fv] = This(sg)
		} else {
			env[fv] = T("param", "f"+itoa(i))
		}
	}
	return env
}

// valueSummary: the value a call of f returns, as a term over parameter placeholders, when it can be stated exactly:
// (A) a single return site whose result term is closed (loops are fine when they generalise: map / sum / collect);
// (B) an effect-free, loop-free function with several return sites: a conditional (ite / and / or) term over its paths.
// Exported effectful functions are anchors and stay named.
func (a *Analyzer) valueSummary(f *ssa.Function) *Term {
	if a.valsum == nil {
		a.valsum = map[*ssa.Function]*Term{}
		a.valsumBusy = map[*ssa.Function]bool{}
	}
	if t, ok := a.valsum[f]; ok {
		return t
	}
	if a.valsumBusy[f] {
		return nil
	}
	a.valsumBusy[f] = true
	t := a.computeValueSummary(f)
	delete(a.valsumBusy, f)
	a.valsum[f] = t
	return t
}

func (a *Analyzer) computeValueSummary(f *ssa.Function) *Term { return a.computeValueSummaryOpt(f, false) }

// PathTerm: the conditional term of a pure loop-free function regardless of its being an anchor (used by rules that
// compare an anchored function with its specification).
func (a *Analyzer) PathTerm(f *ssa.Function) *Term { return a.computeValueSummaryOpt(f, true) }

func (a *Analyzer) computeValueSummaryOpt(f *ssa.Function, force bool) *Term {
	if f.Blocks == nil || !inLibraryScope(funcPkgPath(f)) || isSpecTypesPkg(funcPkgPath(f)) || (keepNamed[shortName(f)] && !force) {
		return nil
	}
	if (f.Recover != nil && !onlyMutexDefers(f)) || f.Signature.Results().Len() == 0 {
		return nil
	}
	pure := a.effectFree[f]
	if !pure {
		// effectful helpers: only unexported ones, and never the state setters / registry (their results are modelled by summaries)
		if f.Object() != nil && f.Object().Exported() {
			return nil
		}
		if strings.HasPrefix(funcPkgPath(f), modPath+"/state") && !(len(f.Blocks) == 1 && f.Object() != nil && !f.Object().Exported()) {
			return nil // (a straight-line unexported helper of the state package, e.g. "write both fields, return the pair", is fine)
		}
	}
	var rets []*ssa.Return
	for _, b := range f.Blocks {
		if r, ok := b.Instrs[len(b.Instrs)-1].(*ssa.Return); ok {
			rets = append(rets, r)
		}
	}
	if len(rets) == 0 {
		return nil
	}
	env := placeholderEnv(a, f)
	resultTerm := func(c *FCtx, r *ssa.Return) *Term {
		if len(r.Results) == 1 {
			return c.Term(r.Results[0])
		}
		rs := make([]*Term, len(r.Results))
		for i, x := range r.Results {
			rs[i] = c.Term(x)
		}
		return T("tuple", "", rs...)
	}
	if len(rets) == 1 {
		c := a.NewFCtx(f, env, 1)
		t := resultTerm(c, rets[0])
		if !closedTerm(t) {
			return nil
		}
		if !pure {
			// the result must not read what the function itself writes (pre/post state confusion)
			reads := map[string]bool{}
			a.termReads(t, reads)
			for l := range reads {
				if a.writes[f][l] {
					return nil
				}
			}
			// an effectful helper with branches decides something: keep it named so that its summary applies - unless it
			// hands back, unchanged, all results of one call (`return tic.initView(view)`): then it decides nothing about them
			if len(f.Blocks) != 1 && !tailForwards(rets[0]) {
				return nil
			}
		}
		return t
	}
	if !pure || len(f.Blocks) > 24 || len(a.Loops(f).Loops) > 0 {
		return nil
	}
	// (B) only unexported helpers without an error result: exported functions are anchors, and error-returning
	// validators are handled (better) by their success/failure summaries
	if f.Object() != nil && f.Object().Exported() && !force {
		return nil
	}
	for i := 0; i < f.Signature.Results().Len(); i++ {
		if isErrorType(f.Signature.Results().At(i).Type()) {
			return nil
		}
	}
	// (B) enumerate paths
	type path struct {
		conds  []*Term
		choice map[*ssa.Phi]ssa.Value
		ret    *ssa.Return
	}
	var paths []path
	var walk func(b, pred *ssa.BasicBlock, conds []*Term, choice map[*ssa.Phi]ssa.Value) bool
	walk = func(b, pred *ssa.BasicBlock, conds []*Term, choice map[*ssa.Phi]ssa.Value) bool {
		if len(paths) > 48 {
			return false
		}
		ch := choice
		if pred != nil {
			copied := false
			for _, in := range b.Instrs {
				phi, ok := in.(*ssa.Phi)
				if !ok {
					break
				}
				if !copied {
					ch = map[*ssa.Phi]ssa.Value{}
					for k, v := range choice {
						ch[k] = v
					}
					copied = true
				}
				for i, p := range b.Preds {
					if p == pred {
						ch[phi] = phi.Edges[i]
					}
				}
			}
		}
		last := b.Instrs[len(b.Instrs)-1]
		switch x := last.(type) {
		case *ssa.Return:
			paths = append(paths, path{append([]*Term{}, conds...), ch, x})
			return true
		case *ssa.If:
			c := a.NewFCtx(f, env, 1)
			c.PhiChoice = ch
			ct := c.Term(x.Cond)
			if !closedTerm(ct) {
				return false
			}
			if !walk(b.Succs[0], b, append(conds, ct), ch) {
				return false
			}
			return walk(b.Succs[1], b, append(conds, Not(ct)), ch)
		case *ssa.Jump:
			return walk(b.Succs[0], b, conds, ch)
		}
		return false // panic etc.
	}
	if !walk(f.Blocks[0], nil, nil, map[*ssa.Phi]ssa.Value{}) || len(paths) == 0 {
		return nil
	}
	n := len(paths[0].ret.Results)
	comps := make([]*Term, n)
	for k := 0; k < n; k++ {
		isBool := isBoolType(f.Signature.Results().At(k).Type())
		var vals []*Term
		for _, p := range paths {
			c := a.NewFCtx(f, env, 1)
			c.PhiChoice = p.choice
			v := c.Term(p.ret.Results[k])
			if !closedTerm(v) {
				return nil
			}
			vals = append(vals, v)
		}
		if isBool {
			var disj []*Term
			for i, p := range paths {
				if vals[i].Key() == tFalse.Key() {
					continue
				}
				cj := append([]*Term{}, p.conds...)
				if vals[i].Key() != tTrue.Key() {
					cj = append(cj, vals[i])
				}
				disj = append(disj, mkAnd(cj))
			}
			comps[k] = mkOr(disj)
		} else {
			// ite chain; equal consecutive values are merged
			t := vals[len(vals)-1]
			for i := len(paths) - 2; i >= 0; i-- {
				if vals[i].Key() == t.Key() {
					continue
				}
				t = T("ite", "", mkAnd(paths[i].conds), vals[i], t)
			}
			comps[k] = t
		}
	}
	if n == 1 {
		return comps[0]
	}
	return T("tuple", "", comps...)
}

func mkAnd(xs []*Term) *Term {
	var out []*Term
	for _, x := range xs {
		if x.Key() == tTrue.Key() {
			continue
		}
		if x.Key() == tFalse.Key() {
			return tFalse
		}
		if x.Op == "and" {
			out = append(out, x.Args...)
		} else {
			out = append(out, x)
		}
	}
	out = dedupTerms(out)
	if len(out) == 0 {
		return tTrue
	}
	if len(out) == 1 {
		return out[0]
	}
	return T("and", "", out...)
}

func dedupTerms(xs []*Term) []*Term {
	if len(xs) < 2 {
		return xs
	}
	seen := map[string]bool{}
	out := xs[:0:0]
	for _, x := range xs {
		if !seen[x.Key()] {
			seen[x.Key()] = true
			out = append(out, x)
		}
	}
	return out
}

func mkOr(xs []*Term) *Term {
	var out []*Term
	for _, x := range xs {
		if x.Key() == tFalse.Key() {
			continue
		}
		if x.Key() == tTrue.Key() {
			return tTrue
		}
		if x.Op == "or" {
			out = append(out, x.Args...)
		} else {
			out = append(out, x)
		}
	}
	out = dedupTerms(out)
	if len(out) == 0 {
		return tFalse
	}
	if len(out) == 1 {
		return out[0]
	}
	return T("or", "", out...)
}

// implementations of an interface method among library-scope concrete types
func (a *Analyzer) impls(recvType types.Type, m *types.Func) []*ssa.Function {
	key := recvType.String() + "." + m.Name()
	if r, ok := a.implCache[key]; ok {
		return r
	}
	iface, _ := recvType.Underlying().(*types.Interface)
	var res []*ssa.Function
	if iface != nil {
		for _, pkg := range a.P.Pkgs {
			scope := pkg.Types.Scope()
			for _, n := range scope.Names() {
				tn, ok := scope.Lookup(n).(*types.TypeName)
				if !ok || tn.IsAlias() {
					continue
				}
				nt, ok := tn.Type().(*types.Named)
				if !ok {
					continue
				}
				if _, isI := nt.Underlying().(*types.Interface); isI {
					continue
				}
				for _, cand := range []types.Type{nt, types.NewPointer(nt)} {
					if types.Implements(cand, iface) {
						sel := a.P.SSA.MethodSets.MethodSet(cand).Lookup(m.Pkg(), m.Name())
						if sel != nil {
							if f := a.P.SSA.MethodValue(sel); f != nil {
								res = append(res, f)
							}
						}
						break
					}
				}
			}
		}
	}
	a.implCache[key] = res
	return res
}

// ---------------------------------------------------------------- per-function term builder

type FCtx struct {
	A     *Analyzer
	Fn    *ssa.Function
	Env   map[ssa.Value]*Term
	cache map[ssa.Value]*Term
	depth int
	busy  map[ssa.Value]bool
	// DeadEdge: edges (pred block -> succ block) proven infeasible by a previous dataflow pass under the case split
	// in force; phi nodes ignore the values flowing in over them.
	DeadEdge map[[2]*ssa.BasicBlock]bool
	// PhiChoice: on one enumerated path, the incoming value each phi takes
	PhiChoice map[*ssa.Phi]ssa.Value
	// snap: per defining instruction, the (frozen value, live read) pairs of its snapshot term
	snap map[ssa.Instruction][][2]*Term
	noCalleeSplits bool // (walker) do not look for case splits in callees of this context
}

func (a *Analyzer) NewFCtx(fn *ssa.Function, env map[ssa.Value]*Term, depth int) *FCtx {
	if env == nil {
		env = map[ssa.Value]*Term{}
	}
	return &FCtx{A: a, Fn: fn, Env: env, cache: map[ssa.Value]*Term{}, depth: depth, busy: map[ssa.Value]bool{}}
}

// EntryEnv binds parameters of an entry function to root terms.
func (a *Analyzer) EntryEnv(fn *ssa.Function, roots map[string]*Term) map[ssa.Value]*Term {
	env := map[ssa.Value]*Term{}
	for _, p := range fn.Params {
		if s := a.singletonOf(p.Type()); s != "" {
			env[p] = This(s)
			continue
		}
		if r, ok := roots[p.Name()]; ok {
			env[p] = r
		} else {
			env[p] = Root(p.Name())
		}
	}
	for _, fv := range fn.FreeVars {
		if s := a.singletonOf(fv.Type()); s != "" {
			env[fv] = This(s)
		} else if r, ok := roots[fv.Name()]; ok {
			env[fv] = r
		} else {
			env[fv] = Root("free:" + fv.Name())
		}
	}
	return env
}

func (c *FCtx) unk(v ssa.Value) *Term {
	return Unk(funcID(c.Fn) + "#" + v.Name())
}

func (c *FCtx) Term(v ssa.Value) *Term {
	if t, ok := c.cache[v]; ok {
		return t
	}
	if c.busy[v] {
		return c.unk(v)
	}
	c.busy[v] = true
	t := c.term(v)
	delete(c.busy, v)
	t = c.snapshot(v, t)
	c.cache[v] = t
	return t
}

// snapshot: the value of a call or load is fixed when it executes. When something that may run later in the same
// function writes a location the term reads, the term is frozen (pre:<def>(..)); the dataflow adds the equality
// between the frozen value and the live read at the definition and drops it at the first such write, so a stale
// snapshot is never mistaken for the current state.
func (c *FCtx) snapshot(v ssa.Value, t *Term) *Term {
	if c.A.writes == nil || c.A.noSnapshot {
		return t
	}
	var in ssa.Instruction
	switch x := v.(type) {
	case *ssa.Call:
		in = x
	default:
		return t
	}
	if in.Block() == nil || in.Parent() != c.Fn {
		return t
	}
	switch t.Op {
	case "pre", "this", "const", "phi", "unk", "make", "cell":
		return t
	}
	reads := map[string]bool{}
	c.A.termReads(t, reads)
	if len(reads) == 0 {
		return t
	}
	w := c.A.laterWrites(in)
	hit := false
	for l := range reads {
		if w[l] {
			hit = true
		}
	}
	if !hit {
		return t
	}
	id := funcID(c.Fn) + "#" + v.Name() + "!snap"
	ft := c.freezeTerm(t, w, id)
	if ft.Key() == t.Key() {
		return t
	}
	if c.snap == nil {
		c.snap = map[ssa.Instruction][][2]*Term{}
	}
	var pairs [][2]*Term
	ft.Walk(func(x *Term) {
		if x.Op == "pre" && x.Name == id && len(x.Args) == 1 {
			pairs = append(pairs, [2]*Term{x, x.Args[0]})
		}
	})
	c.snap[in] = pairs
	return ft
}

// laterWrites: the locations that instructions reachable after `in` (in its function) may write.
func (a *Analyzer) laterWrites(in ssa.Instruction) map[string]bool {
	fn := in.Parent()
	if a.lwCache == nil {
		a.lwCache = map[*ssa.Function]map[*ssa.BasicBlock]map[string]bool{}
	}
	reach, ok := a.lwCache[fn]
	if !ok {
		own := map[*ssa.BasicBlock]map[string]bool{}
		for _, b := range fn.Blocks {
			w := map[string]bool{}
			for _, i2 := range b.Instrs {
				a.instrWritesInto(i2, w)
			}
			own[b] = w
		}
		reach = map[*ssa.BasicBlock]map[string]bool{}
		for _, b := range fn.Blocks {
			w := map[string]bool{}
			seen := map[*ssa.BasicBlock]bool{}
			stack := []*ssa.BasicBlock{b}
			for len(stack) > 0 {
				n := stack[len(stack)-1]
				stack = stack[:len(stack)-1]
				if seen[n] {
					continue
				}
				seen[n] = true
				for k := range own[n] {
					w[k] = true
				}
				stack = append(stack, n.Succs...)
			}
			reach[b] = w
		}
		a.lwCache[fn] = reach
	}
	out := map[string]bool{}
	b := in.Block()
	after := false
	for _, i2 := range b.Instrs {
		if after {
			a.instrWritesInto(i2, out)
		}
		if i2 == in {
			after = true
		}
	}
	for _, sx := range b.Succs {
		for k := range reach[sx] {
			out[k] = true
		}
	}
	return out
}

func (a *Analyzer) instrWritesInto(in ssa.Instruction, out map[string]bool) {
	if ci, ok := in.(ssa.CallInstruction); ok {
		if isLoggingCall(ci.Common()) {
			return
		}
		for k := range a.callWrites(ci) {
			out[k] = true
		}
		return
	}
	a.instrOwnWrites(in, out)
}

func constTerm(k *ssa.Const) *Term {
	if k.Value == nil {
		if k.IsNil() {
			return tNil
		}
		return Const("zero")
	}
	switch k.Value.Kind() {
	case constant.Bool:
		if constant.BoolVal(k.Value) {
			return tTrue
		}
		return tFalse
	}
	return Const(k.Value.ExactString())
}

func (c *FCtx) term(v ssa.Value) *Term {
	if t, ok := c.Env[v]; ok {
		return t
	}
	// singleton-by-type abstraction
	switch v.(type) {
	case *ssa.Const, *ssa.Function, *ssa.Builtin:
	default:
		if s := c.A.singletonOf(v.Type()); s != "" {
			if k, ok := v.(*ssa.Const); ok && k.IsNil() {
				return tNil
			}
			return This(s)
		}
	}
	switch x := v.(type) {
	case *ssa.Const:
		if x.IsNil() {
			return tNil
		}
		return constTerm(x)
	case *ssa.Parameter:
		return Root("param:" + x.Name())
	case *ssa.FreeVar:
		return Root("free:" + x.Name())
	case *ssa.Function:
		return T("func", funcID(x))
	case *ssa.Global:
		return T("global", x.Pkg.Pkg.Name()+"."+x.Name())
	case *ssa.Builtin:
		return T("func", "builtin."+x.Name())
	case *ssa.Call:
		return c.callTerm(x, &x.Call)
	case *ssa.Extract:
		return c.extractTerm(x)
	case *ssa.UnOp:
		switch x.Op {
		case token.MUL:
			return c.load(x.X, x)
		case token.NOT:
			return Not(c.Term(x.X))
		case token.ARROW:
			return T("recv", "", c.Term(x.X))
		default:
			return T("un", x.Op.String(), c.Term(x.X))
		}
	case *ssa.BinOp:
		return Bin(x.Op.String(), c.Term(x.X), c.Term(x.Y))
	case *ssa.FieldAddr:
		return Field(c.Term(x.X), fieldName(x.X.Type(), x.Field))
	case *ssa.Field:
		return Field(c.Term(x.X), fieldNameStruct(x.X.Type(), x.Field))
	case *ssa.IndexAddr:
		return c.indexTerm(x.X, x.Index, x)
	case *ssa.Index:
		return c.indexTerm(x.X, x.Index, x)
	case *ssa.Lookup:
		if x.CommaOk {
			return T("tuple", "", T("lookup", "", c.Term(x.X), c.Term(x.Index)), T("haskey", "", c.Term(x.X), c.Term(x.Index)))
		}
		if _, isMap := x.X.Type().Underlying().(*types.Map); isMap {
			if b, ok := x.Type().Underlying().(*types.Basic); ok && b.Kind() == types.Bool {
				// set idiom: m[k] on map[K]bool
				return T("lookup", "", c.Term(x.X), c.Term(x.Index))
			}
		}
		return T("lookup", "", c.Term(x.X), c.Term(x.Index))
	case *ssa.Convert:
		return c.Term(x.X)
	case *ssa.ChangeType:
		return c.Term(x.X)
	case *ssa.MakeInterface:
		return c.Term(x.X)
	case *ssa.ChangeInterface:
		return c.Term(x.X)
	case *ssa.SliceToArrayPointer:
		return c.Term(x.X)
	case *ssa.TypeAssert:
		if x.CommaOk {
			return T("tuple", "", c.Term(x.X), T("istype", typeShort(x.AssertedType), c.Term(x.X)))
		}
		return c.Term(x.X)
	case *ssa.Phi:
		return c.phiTerm(x)
	case *ssa.Alloc:
		return c.allocTerm(x)
	case *ssa.MakeClosure:
		fn := x.Fn.(*ssa.Function)
		args := make([]*Term, len(x.Bindings))
		for i, b := range x.Bindings {
			args[i] = c.Term(b)
		}
		if fn.Synthetic != "" {
			syntheticFns.Store(funcID(fn), fn) // bound-method wrappers are not in the library function table
		}
		return T("closure", funcID(fn), args...)
	case *ssa.Slice:
		if x.High != nil && isConstInt(x.High, 0) {
			return T("make", funcID(c.Fn)+"#"+x.Name()) // empty fresh slice: make([]T, 0, k)
		}
		base := c.Term(x.X)
		if x.Low == nil && x.High == nil {
			return base
		}
		lo, hi := Const("-"), Const("-")
		if x.Low != nil {
			lo = c.Term(x.Low)
		}
		if x.High != nil {
			hi = c.Term(x.High)
		}
		return T("slice", "", base, lo, hi)
	case *ssa.MakeSlice:
		if t := c.mapStoreIdiom(x); t != nil {
			return t
		}
		return T("make", funcID(c.Fn)+"#"+x.Name())
	case *ssa.MakeMap:
		return T("make", funcID(c.Fn)+"#"+x.Name())
	case *ssa.MakeChan:
		return T("make", funcID(c.Fn)+"#"+x.Name())
	case *ssa.Select:
		return T("select", funcID(c.Fn)+"#"+x.Name())
	case *ssa.Range:
		return T("rangeit", "", c.Term(x.X))
	case *ssa.Next:
		return c.unk(v)
	}
	return c.unk(v)
}

func fieldName(ptrType types.Type, idx int) string {
	t := ptrType
	if p, ok := t.Underlying().(*types.Pointer); ok {
		t = p.Elem()
	}
	return fieldNameStruct(t, idx)
}

func fieldNameStruct(t types.Type, idx int) string {
	if st, ok := t.Underlying().(*types.Struct); ok && idx < st.NumFields() {
		return canonicalField(t, st.Field(idx).Name())
	}
	return "f" + itoa(idx)
}

func (c *FCtx) extractTerm(x *ssa.Extract) *Term {
	// map range key/value
	if nx, ok := x.Tuple.(*ssa.Next); ok {
		if rg, ok := nx.Iter.(*ssa.Range); ok {
			l := c.A.Loops(c.Fn).Innermost(nx.Block())
			id := "?"
			if l != nil && l.Kind == "maprange" && l.NextVal == nx {
				id = l.ID
			}
			switch x.Index {
			case 1:
				return T("mapkey", id, c.Term(rg.X))
			case 2:
				return T("mapval", id, c.Term(rg.X))
			}
			return c.unk(x)
		}
	}
	return mkExt(itoa(x.Index), c.Term(x.Tuple))
}

func (c *FCtx) indexTerm(base ssa.Value, idx ssa.Value, at ssa.Value) *Term {
	bt := c.Term(base)
	// loop element?
	if in, ok := at.(ssa.Instruction); ok {
		for _, l := range c.A.Loops(c.Fn).Loops {
			if (l.Kind == "rangeindex" || l.Kind == "classic") && l.IndexVal == idx && l.Body[in.Block()] {
				if c.Term(l.Coll).Key() == bt.Key() {
					return T("elem", l.ID, bt)
				}
			}
		}
	}
	return T("index", "", bt, c.Term(idx))
}

// load: *addr
func (c *FCtx) load(addr ssa.Value, at *ssa.UnOp) *Term {
	switch a := addr.(type) {
	case *ssa.FieldAddr, *ssa.IndexAddr:
		return c.Term(a)
	case *ssa.Global:
		if t := c.A.globalTable(a); t != nil {
			return t
		}
		return c.Term(a)
	case *ssa.Alloc:
		if at != nil {
			if t := c.structFilledAt(a, at); t != nil {
				return t
			}
		}
		if isComplit(a) {
			return c.Term(a)
		}
		// the most recent store in the same block (defer-spilled results, captured variables)
		if at != nil {
			blk := at.Block()
			var last *ssa.Store
			for _, in := range blk.Instrs {
				if in == ssa.Instruction(at) {
					break
				}
				if st, ok := in.(*ssa.Store); ok && st.Addr == a {
					last = st
				}
			}
			if last != nil {
				return c.Term(last.Val)
			}
			// unique reaching store over all paths
			if st := reachingStore(a, blk); st != nil {
				return c.Term(st.Val)
			}
		}
		// local variable cell: single store -> that value
		var stores []*ssa.Store
		for _, r := range *a.Referrers() {
			if st, ok := r.(*ssa.Store); ok && st.Addr == a {
				stores = append(stores, st)
			}
		}
		if len(stores) == 1 {
			return c.Term(stores[0].Val)
		}
		return c.unk(at)
	case *ssa.FreeVar:
		// captured variable cell
		if t, ok := c.Env[a]; ok {
			if t.Op == "cell" {
				return t.Args[0]
			}
			return T("deref", "", t)
		}
	}
	return T("deref", "", c.Term(addr))
}

// reachingStore: the single store to the cell that reaches the entry of block b on every path (nil if none or several).
func reachingStore(a *ssa.Alloc, b *ssa.BasicBlock) *ssa.Store {
	var found *ssa.Store
	ok := true
	seen := map[*ssa.BasicBlock]bool{}
	var visit func(blk *ssa.BasicBlock)
	visit = func(blk *ssa.BasicBlock) {
		if !ok || seen[blk] {
			return
		}
		seen[blk] = true
		var last *ssa.Store
		for _, in := range blk.Instrs {
			if st, isSt := in.(*ssa.Store); isSt && st.Addr == a {
				last = st
			}
		}
		if last != nil {
			if found != nil && found != last {
				ok = false
			}
			found = last
			return
		}
		if len(blk.Preds) == 0 {
			ok = false // reaches the entry without a store
			return
		}
		for _, p := range blk.Preds {
			visit(p)
		}
	}
	for _, p := range b.Preds {
		visit(p)
	}
	if !ok {
		return nil
	}
	return found
}

func isComplit(a *ssa.Alloc) bool {
	if a.Comment == "complit" {
		return true
	}
	// new(T) followed by field stores only
	_, isStruct := a.Type().(*types.Pointer).Elem().Underlying().(*types.Struct)
	return isStruct
}

func (c *FCtx) allocTerm(a *ssa.Alloc) *Term {
	elem := a.Type().(*types.Pointer).Elem()
	if st, ok := elem.Underlying().(*types.Struct); ok {
		// a struct-typed local that is assigned as a whole:  *a = v
		var whole []*ssa.Store
		for _, r := range *a.Referrers() {
			if s, ok := r.(*ssa.Store); ok && s.Addr == a {
				whole = append(whole, s)
			}
		}
		if len(whole) == 1 {
			fieldStores := false
			for _, r := range *a.Referrers() {
				if fa, ok := r.(*ssa.FieldAddr); ok {
					for _, r2 := range *fa.Referrers() {
						if s, ok := r2.(*ssa.Store); ok && s.Addr == fa {
							fieldStores = true
						}
					}
				}
			}
			if !fieldStores {
				return c.Term(whole[0].Val)
			}
			return c.unk(a)
		}
		if len(whole) > 1 {
			return c.unk(a)
		}
		var names []string
		var vals []*Term
		seen := map[string]bool{}
		okAll := true
		for _, r := range *a.Referrers() {
			fa, isFA := r.(*ssa.FieldAddr)
			if !isFA {
				continue
			}
			name := st.Field(fa.Field).Name()
			for _, r2 := range *fa.Referrers() {
				if s, ok := r2.(*ssa.Store); ok && s.Addr == fa {
					if seen[name] {
						okAll = false
					}
					seen[name] = true
					names = append(names, name)
					vals = append(vals, c.Term(s.Val))
				}
			}
		}
		if okAll {
			return Struct(typeShort(elem), names, vals)
		}
		return c.unk(a)
	}
	if at, ok := elem.Underlying().(*types.Array); ok {
		// varargs array: [n]T with stores at constant indices
		n := int(at.Len())
		elems := make([]*Term, n)
		for _, r := range *a.Referrers() {
			switch ia := r.(type) {
			case *ssa.IndexAddr:
				k, isConst := ia.Index.(*ssa.Const)
				for _, r2 := range *ia.Referrers() {
					if s, ok := r2.(*ssa.Store); ok && s.Addr == ia {
						if !isConst {
							return c.unk(a) // written at a computed index: not a literal
						}
						i := int(k.Int64())
						if i < n {
							if elems[i] != nil {
								return c.unk(a) // an element is overwritten after the literal was built
							}
							elems[i] = c.Term(s.Val)
						}
					}
				}
			case *ssa.Slice:
				// the literal's slice must not be written through
				for _, r2 := range *ia.Referrers() {
					if ia2, ok := r2.(*ssa.IndexAddr); ok {
						for _, r3 := range *ia2.Referrers() {
							if s, ok := r3.(*ssa.Store); ok && s.Addr == ia2 {
								return c.unk(a)
							}
						}
					}
				}
			}
		}
		for i := range elems {
			if elems[i] == nil {
				elems[i] = Const("zero")
			}
		}
		return T("array", "", elems...)
	}
	// a variable cell
	var stores []*ssa.Store
	for _, r := range *a.Referrers() {
		if st, ok := r.(*ssa.Store); ok && st.Addr == a {
			stores = append(stores, st)
		}
	}
	if len(stores) == 1 {
		return T("cell", "", c.Term(stores[0].Val))
	}
	return c.unk(a)
}

// mapStoreIdiom: s := make([]T, len(c)); for i, e := range c { s[i] = f(e) }
func (c *FCtx) mapStoreIdiom(ms *ssa.MakeSlice) *Term {
	var store *ssa.Store
	var ia *ssa.IndexAddr
	for _, r := range *ms.Referrers() {
		if x, ok := r.(*ssa.IndexAddr); ok {
			for _, r2 := range *x.Referrers() {
				if s, ok := r2.(*ssa.Store); ok && s.Addr == x {
					if store != nil {
						return nil
					}
					store, ia = s, x
				}
			}
		}
	}
	if store == nil {
		return nil
	}
	l := c.A.Loops(c.Fn).Innermost(store.Block())
	if l == nil || l.Kind != "rangeindex" || l.IndexVal != ia.Index || !l.Clean || !l.dominatesAllLatches(store.Block()) {
		return nil
	}
	// len(make) == len(coll)
	lc, ok := ms.Len.(*ssa.Call)
	if !ok || !isBuiltin(lc, "len") || c.Term(lc.Call.Args[0]).Key() != c.Term(l.Coll).Key() {
		return nil
	}
	coll := c.Term(l.Coll)
	body := c.Term(store.Val)
	body = generalize(body, l, coll)
	return mkMap(coll, body)
}

func mkMap(coll, body *Term) *Term {
	if body.Op == "bound" {
		return coll // identity map
	}
	return T("map", "", coll, body)
}

// generalize replaces the loop's element terms by the bound variable.
func generalizeMap(l *Loop, coll *Term) map[string]*Term {
	return map[string]*Term{
		T("elem", l.ID, coll).Key():   T("bound", "e"),
		T("mapkey", l.ID, coll).Key(): T("bound", "k"),
		T("mapval", l.ID, coll).Key(): T("bound", "v"),
	}
}

func generalize(t *Term, l *Loop, coll *Term) *Term {
	return t.Subst(generalizeMap(l, coll))
}

func (c *FCtx) phiTerm(p *ssa.Phi) *Term {
	if c.PhiChoice != nil {
		if v, ok := c.PhiChoice[p]; ok {
			return c.Term(v)
		}
	}
	// all edges equal?
	var first *Term
	same := true
	for i, e := range p.Edges {
		if e == p {
			continue
		}
		if c.DeadEdge != nil && c.DeadEdge[[2]*ssa.BasicBlock{p.Block().Preds[i], p.Block()}] {
			continue
		}
		t := c.Term(e)
		if first == nil {
			first = t
		} else if first.Key() != t.Key() {
			same = false
		}
	}
	if same && first != nil {
		return first
	}
	if t := c.boolPhi(p); t != nil {
		return t
	}
	// append-phi in a loop header
	l := c.A.Loops(c.Fn).ByHeader[p.Block()]
	if l != nil && l.Coll != nil && l.Kind != "other" {
		var init ssa.Value
		var step ssa.Value
		ok := true
		selfEdge := false
		for i, e := range p.Edges {
			if l.Body[p.Block().Preds[i]] {
				if e == p {
					selfEdge = true // an iteration that leaves the value unchanged
					continue
				}
				if step != nil && step != e {
					ok = false
				}
				step = e
			} else {
				if init != nil && init != e {
					ok = false
				}
				init = e
			}
		}
		if ok && init != nil && step != nil {
			if t := c.appendPhi(p, l, init, step, selfEdge); t != nil {
				return t
			}
			if t := c.sumPhi(p, l, init, step, selfEdge); t != nil {
				return t
			}
		}
	}
	return T("phi", funcID(c.Fn)+"#"+p.Name())
}

// boolPhi recognises the materialised short-circuit forms  a && b && ...  /  a || b || ...
func (c *FCtx) boolPhi(p *ssa.Phi) *Term {
	if !isBoolType(p.Type()) || len(p.Edges) < 2 {
		return nil
	}
	var k *bool
	var rest ssa.Value
	var conds []*Term
	for i, e := range p.Edges {
		pred := p.Block().Preds[i]
		if ce, ok := e.(*ssa.Const); ok && ce.Value != nil {
			v := constTerm(ce).Key() == tTrue.Key()
			if k != nil && *k != v {
				return nil
			}
			k = &v
			ifi, ok := pred.Instrs[len(pred.Instrs)-1].(*ssa.If)
			if !ok {
				return nil
			}
			ct := c.Term(ifi.Cond)
			if pred.Succs[1] == p.Block() && pred.Succs[0] != p.Block() {
				ct = Not(ct) // edge taken when the condition is false
			} else if !(pred.Succs[0] == p.Block() && pred.Succs[1] != p.Block()) {
				return nil
			}
			conds = append(conds, ct)
			continue
		}
		if rest != nil {
			return nil
		}
		rest = e
	}
	if k == nil || rest == nil {
		return nil
	}
	rt := c.Term(rest)
	if !*k {
		// false whenever one of the edge conditions holds: and(!e1, !e2, ..., rest)
		args := make([]*Term, 0, len(conds)+1)
		for _, ct := range conds {
			args = append(args, Not(ct))
		}
		args = append(args, rt)
		return T("and", "", args...)
	}
	args := append(append([]*Term{}, conds...), rt)
	return T("or", "", args...)
}

// sumPhi recognises  acc = phi(0, acc + x)  and  acc = phi(0, phi(acc, acc + x))  (guarded accumulation).
func (c *FCtx) sumPhi(p *ssa.Phi, l *Loop, init, step ssa.Value, selfEdge bool) *Term {
	if !l.Clean || !isConstInt(init, 0) {
		return nil
	}
	if b, ok := p.Type().Underlying().(*types.Basic); !ok || b.Info()&types.IsInteger == 0 {
		return nil
	}
	coll := c.Term(l.Coll)
	var add *ssa.BinOp
	guard := tTrue
	switch s := step.(type) {
	case *ssa.BinOp:
		add = s
		if selfEdge || !l.dominatesAllLatches(s.Block()) {
			b := add.Block()
			if len(b.Preds) != 1 {
				return nil
			}
			ifi, ok := b.Preds[0].Instrs[len(b.Preds[0].Instrs)-1].(*ssa.If)
			if !ok {
				return nil
			}
			guard = c.Term(ifi.Cond)
			if b.Preds[0].Succs[1] == b {
				guard = Not(guard)
			}
		}
	case *ssa.Phi:
		for _, e := range s.Edges {
			if e == p {
				continue
			}
			bo, ok := e.(*ssa.BinOp)
			if !ok || add != nil {
				return nil
			}
			add = bo
		}
		if add == nil {
			return nil
		}
		// the add block must be the direct then/else target of one If
		b := add.Block()
		if len(b.Preds) != 1 {
			return nil
		}
		ifi, ok := b.Preds[0].Instrs[len(b.Preds[0].Instrs)-1].(*ssa.If)
		if !ok {
			return nil
		}
		guard = c.Term(ifi.Cond)
		if b.Preds[0].Succs[1] == b {
			guard = Not(guard)
		}
	default:
		return nil
	}
	if add.Op != token.ADD {
		return nil
	}
	var x ssa.Value
	if add.X == p {
		x = add.Y
	} else if add.Y == p {
		x = add.X
	} else {
		return nil
	}
	return T("sum", "", coll, generalize(c.Term(x), l, coll), generalize(guard, l, coll))
}

// appendPhi recognises  s = phi(init, append(s, x))  possibly through an inner conditional phi.
func (c *FCtx) appendPhi(p *ssa.Phi, l *Loop, init, step ssa.Value, selfEdge bool) *Term {
	if !l.Clean {
		return nil
	}
	initT := c.Term(init)
	if !(initT.Op == "make" || initT.Key() == tNil.Key() || initT.Op == "const") {
		return nil
	}
	coll := c.Term(l.Coll)
	var call *ssa.Call
	conditional := selfEdge
	switch s := step.(type) {
	case *ssa.Call:
		call = s
	case *ssa.Phi:
		// if cond { s = append(s, x) }  -> phi(s, append(s,x))
		for _, e := range s.Edges {
			if e == p {
				conditional = true
				continue
			}
			cc, ok := e.(*ssa.Call)
			if !ok || call != nil {
				return nil
			}
			call = cc
		}
	}
	if call == nil || !isBuiltin(call, "append") || call.Call.Args[0] != p {
		return nil
	}
	elems := c.Term(call.Call.Args[1])
	if elems.Op != "array" || len(elems.Args) != 1 {
		return nil
	}
	body := generalize(elems.Args[0], l, coll)
	if !conditional && l.dominatesAllLatches(call.Block()) {
		return mkMap(coll, body)
	}
	// conditional append under one test of the element: a filtered copy  filter(coll, body, guard)
	if cb := call.Block(); len(cb.Preds) == 1 && l.Body[cb.Preds[0]] {
		pb := cb.Preds[0]
		if ifi, ok := pb.Instrs[len(pb.Instrs)-1].(*ssa.If); ok && (pb == l.Header || l.dominatesAllLatches(pb) || len(pb.Preds) == 1) {
			guard := c.Term(ifi.Cond)
			if pb.Succs[1] == cb && pb.Succs[0] != cb {
				guard = Not(guard)
			}
			// the test block itself must be reached unconditionally in every iteration (otherwise there are further guards)
			uncond := pb == l.Header || l.dominatesAllLatches(pb)
			if !uncond && len(pb.Preds) == 1 && pb.Preds[0] == l.Header {
				if hi, isIf := l.Header.Instrs[len(l.Header.Instrs)-1].(*ssa.If); isIf {
					_ = hi
					uncond = true // the loop's own continuation test
				}
			}
			gg := generalize(guard, l, coll)
			if uncond && closedTerm(gg) && !gg.Contains(func(t *Term) bool { return isElemOf(t, l) }) {
				return T("filter", "", coll, body, gg)
			}
		}
	}
	// conditional append: guards are resolved later by the facts engine; mark with the call position
	return T("mapif", funcID(c.Fn)+"#"+call.Name(), coll, body)
}

// ---------------------------------------------------------------- calls

func (c *FCtx) args(vals []ssa.Value) []*Term {
	r := make([]*Term, len(vals))
	for i, v := range vals {
		r[i] = c.Term(v)
	}
	return r
}

// freeze: argument sub-terms that read a location the call itself may write denote the value BEFORE the call;
// they are wrapped so that they do not alias the live location afterwards.
func (c *FCtx) freeze(at ssa.Value, args []*Term) []*Term {
	ci, ok := at.(ssa.CallInstruction)
	if !ok || c.A.writes == nil {
		return args
	}
	w := c.A.callWrites(ci)
	if len(w) == 0 {
		return args
	}
	id := funcID(c.Fn) + "#" + at.Name()
	out := make([]*Term, len(args))
	for i, a := range args {
		out[i] = c.freezeTerm(a, w, id)
	}
	return out
}

func (c *FCtx) freezeTerm(t *Term, w map[string]bool, id string) *Term {
	if t.Op == "pre" || t.Op == "this" || t.Op == "const" {
		return t
	}
	reads := map[string]bool{}
	c.A.termReads(t, reads)
	hit := false
	for l := range reads {
		if w[l] {
			hit = true
		}
	}
	if !hit {
		return t
	}
	// freeze at the smallest sub-term that itself is a read of a written location
	if t.Op == "field" && len(t.Args) == 1 && t.Args[0].Op == "this" {
		return T("pre", id, t)
	}
	if len(t.Args) == 0 {
		return T("pre", id, t)
	}
	if t.Op == "call" {
		// a pure (re-evaluable) call whose own reads are written by the call: its value now is a snapshot
		own := map[string]bool{}
		shallow := &Term{Op: t.Op, Name: t.Name}
		c.A.termReads(shallow, own)
		for l := range own {
			if w[l] {
				return T("pre", id, t)
			}
		}
	}
	na := make([]*Term, len(t.Args))
	for i, a := range t.Args {
		na[i] = c.freezeTerm(a, w, id)
	}
	return rebuild(t, na)
}

func (c *FCtx) callTerm(at ssa.Value, cc *ssa.CallCommon) *Term {
	if b, ok := cc.Value.(*ssa.Builtin); ok {
		args := c.args(cc.Args)
		switch b.Name() {
		case "len":
			return Len(args[0])
		case "append":
			if len(args) == 2 {
				if args[1].Op == "array" {
					t := args[0]
					for _, e := range args[1].Args {
						t = T("append", "", t, e)
					}
					return t
				}
				return T("appendall", "", args[0], args[1])
			}
			return args[0]
		}
		return mkCall("builtin."+b.Name(), args)
	}
	if cc.IsInvoke() {
		recv := c.Term(cc.Value)
		args := c.freeze(at, append([]*Term{recv}, c.args(cc.Args)...))
		name := methodShort(cc.Method)
		if t := c.intrinsic(name, args); t != nil {
			return t
		}
		// resolve through identical inlinable implementations
		if c.depth < 32 {
			impls := c.A.impls(cc.Value.Type(), cc.Method)
			if len(impls) > 0 {
				var first *Term
				ok := true
				for _, f := range impls {
					if !c.A.isInlinable(f) {
						ok = false
						break
					}
					t := c.inline(f, args, nil)
					if first == nil {
						first = t
					} else if first.Key() != t.Key() {
						ok = false
						break
					}
				}
				if ok && first != nil {
					return first
				}
			}
		}
		return mkCall(name, args)
	}
	if f := cc.StaticCallee(); f != nil {
		args := c.freeze(at, c.args(cc.Args))
		// iterator element: it.NextX() inside the iterator's loop
		if in, ok := at.(ssa.Instruction); ok && strings.HasPrefix(f.Name(), "Next") && len(cc.Args) == 1 && isIteratorType(cc.Args[0].Type()) {
			for _, l := range c.A.Loops(c.Fn).Loops {
				if l.Kind == "iterator" && l.Coll == cc.Args[0] && l.Body[in.Block()] {
					return T("elem", l.ID, args[0])
				}
			}
		}
		var bindings []*Term
		if mc, ok := cc.Value.(*ssa.MakeClosure); ok {
			bindings = c.args(mc.Bindings)
		}
		return c.staticCall(f, args, bindings)
	}
	// dynamic call through a func value
	fv := c.Term(cc.Value)
	args := c.freeze(at, c.args(cc.Args))
	if fv.Op == "closure" {
		if f := c.A.P.FuncByID[fv.Name]; f != nil {
			return c.staticCall(f, args, fv.Args)
		}
		if sf, ok := syntheticFns.Load(fv.Name); ok {
			t := c.staticCall(sf.(*ssa.Function), args, fv.Args)
			if os.Getenv("LH_DEBUG_DYN") != "" {
				fmt.Fprintf(os.Stderr, "inctx %s in %s depth %d -> %s\n", PP(fv), c.Fn.Name(), c.depth, PP(t))
			}
			return t
		}
	}
	if fv.Op == "func" {
		if f := c.A.P.FuncByID[fv.Name]; f != nil {
			return c.staticCall(f, args, nil)
		}
	}
	return T("calldyn", "", append([]*Term{fv}, args...)...)
}

func (c *FCtx) staticCall(f *ssa.Function, args []*Term, bindings []*Term) *Term {
	name := shortName(f)
	if t := c.intrinsic(name, args); t != nil {
		return t
	}
	// bound-method and thunk wrappers are transparent
	if c.depth < 32 && c.A.isInlinable(f) {
		return c.inline(f, args, bindings)
	}
	if f.Synthetic != "" && f.Blocks != nil && len(f.Blocks) == 1 && c.depth < 32 {
		// wrapper around a non-inlinable method: name it after the wrapped call
		if ret, ok := f.Blocks[0].Instrs[len(f.Blocks[0].Instrs)-1].(*ssa.Return); ok {
			sub := c.A.NewFCtx(f, bindEnv(c.A, f, args, bindings), c.depth+1)
			if len(ret.Results) == 1 {
				return sub.Term(ret.Results[0])
			}
			if len(ret.Results) == 0 {
				for _, in := range f.Blocks[0].Instrs {
					if call, ok := in.(*ssa.Call); ok {
						return sub.Term(call)
					}
				}
			}
		}
	}
	if len(bindings) > 0 {
		args = append(append([]*Term{}, args...), bindings...)
	}
	return mkCall(name, args)
}

func bindEnv(a *Analyzer, f *ssa.Function, args []*Term, bindings []*Term) map[ssa.Value]*Term {
	env := map[ssa.Value]*Term{}
	for i, p := range f.Params {
		if i < len(args) {
			env[p] = args[i]
		}
	}
	for i, fv := range f.FreeVars {
		if i < len(bindings) {
			env[fv] = bindings[i]
		}
	}
	return env
}

func (c *FCtx) inline(f *ssa.Function, args []*Term, bindings []*Term) *Term {
	vs := c.A.valueSummary(f)
	m := map[string]*Term{}
	for i := range f.Params {
		if i < len(args) {
			m[T("param", itoa(i)).Key()] = args[i]
		}
	}
	for i := range f.FreeVars {
		if i < len(bindings) {
			m[T("param", "f"+itoa(i)).Key()] = bindings[i]
		}
	}
	return vs.Subst(m)
}

// intrinsic: declared models of anchored state accessors (checked against the code by the C13/C15 rules).
func (c *FCtx) intrinsic(name string, args []*Term) *Term {
	st := This("state.State")
	switch name {
	case "state.View":
		if len(args) == 1 && args[0].Key() == st.Key() {
			return Field(st, "view")
		}
	case "state.Height":
		if len(args) == 1 && args[0].Key() == st.Key() {
			return Field(st, "height")
		}
	case "state.HeightView":
		if len(args) == 1 && args[0].Key() == st.Key() {
			return Struct("state.HeightView", []string{"height", "view"}, []*Term{Field(st, "height"), Field(st, "view")})
		}
	}
	return nil
}

// structFilledAt: the value of a struct-typed local (typically a named result) that starts as the zero value and is
// filled field by field, as read by instruction `at`: every field whose single store dominates the read has that value,
// a field with no store at all is zero; nil when the variable is not of that shape or a field is written more than once
// or on some paths only.
func (c *FCtx) structFilledAt(a *ssa.Alloc, at ssa.Instruction) *Term {
	elem := a.Type().(*types.Pointer).Elem()
	st, ok := elem.Underlying().(*types.Struct)
	if !ok {
		return nil
	}
	nWhole, zeroInit := 0, false
	for _, r := range *a.Referrers() {
		if s, ok := r.(*ssa.Store); ok && s.Addr == ssa.Value(a) {
			// `return namedResult, x` compiles to a self-assignment  *a = *a : not a write
			if u, isU := s.Val.(*ssa.UnOp); isU && u.Op == token.MUL && u.X == ssa.Value(a) {
				zeroInit = true // (marks the named-result shape)
				continue
			}
			nWhole++
			if k, isC := s.Val.(*ssa.Const); isC && k.Value == nil && s.Block() == a.Parent().Blocks[0] {
				zeroInit = true
				nWhole--
			}
		}
	}
	if nWhole > 0 {
		return nil
	}
	stores := map[int][]*ssa.Store{}
	nField := 0
	for _, r := range *a.Referrers() {
		fa, isFA := r.(*ssa.FieldAddr)
		if !isFA {
			continue
		}
		for _, r2 := range *fa.Referrers() {
			switch x := r2.(type) {
			case *ssa.Store:
				if x.Addr == ssa.Value(fa) {
					stores[fa.Field] = append(stores[fa.Field], x)
					nField++
				}
			case *ssa.UnOp:
			default:
				return nil // the field's address escapes
			}
		}
	}
	if nField == 0 || !zeroInit {
		return nil // plain literals / untouched variables are handled by allocTerm
	}
	dominates := func(s *ssa.Store) bool {
		if s.Block() == at.Block() {
			for _, in := range s.Block().Instrs {
				if in == ssa.Instruction(s) {
					return true
				}
				if in == at {
					return false
				}
			}
		}
		return s.Block().Dominates(at.Block())
	}
	var names []string
	var vals []*Term
	for i := 0; i < st.NumFields(); i++ {
		name := canonicalField(elem, st.Field(i).Name())
		ss := stores[i]
		switch {
		case len(ss) == 0:
			continue // zero: projections of a missing field give the zero constant
		case len(ss) == 1 && dominates(ss[0]):
			names = append(names, name)
			vals = append(vals, c.Term(ss[0].Val))
		case len(ss) == 1:
			// not yet (or not always) written at this read
			names = append(names, name)
			vals = append(vals, c.unk(ss[0].Addr))
		default:
			return nil
		}
	}
	return Struct(typeShort(elem), names, vals)
}

// globalTable: a package-level slice variable that is initialised once, in the package initialiser, with a literal of
// function values (a table of checks / decoders run in a loop) and never written again is that literal: array(func...).
func (a *Analyzer) globalTable(g *ssa.Global) *Term {
	if a.globalTables == nil {
		a.globalTables = map[*ssa.Global]*Term{}
	}
	if t, ok := a.globalTables[g]; ok {
		return t
	}
	a.globalTables[g] = nil
	pt, ok := g.Type().(*types.Pointer)
	if !ok {
		return nil
	}
	if _, isSlice := pt.Elem().Underlying().(*types.Slice); !isSlice {
		return nil
	}
	// every store to the global in library code
	var stores []*ssa.Store
	check := func(f *ssa.Function) {
		for _, b := range f.Blocks {
			for _, in := range b.Instrs {
				if st, ok := in.(*ssa.Store); ok && st.Addr == ssa.Value(g) {
					stores = append(stores, st)
				}
			}
		}
	}
	for _, f := range a.P.Funcs {
		check(f)
	}
	if g.Pkg != nil {
		if init := g.Pkg.Func("init"); init != nil {
			check(init)
		}
	}
	if len(stores) != 1 || stores[0].Parent().Name() != "init" {
		return nil
	}
	sl, ok := stores[0].Val.(*ssa.Slice)
	if !ok {
		return nil
	}
	al, ok := sl.X.(*ssa.Alloc)
	if !ok {
		return nil
	}
	at, ok := al.Type().(*types.Pointer).Elem().Underlying().(*types.Array)
	if !ok || at.Len() > 32 {
		return nil
	}
	elems := make([]*Term, at.Len())
	for _, r := range *al.Referrers() {
		ia, ok := r.(*ssa.IndexAddr)
		if !ok {
			continue
		}
		k, isConst := ia.Index.(*ssa.Const)
		if !isConst {
			return nil
		}
		for _, r2 := range *ia.Referrers() {
			st, ok := r2.(*ssa.Store)
			if !ok || st.Addr != ssa.Value(ia) {
				continue
			}
			var ft *Term
			switch v := st.Val.(type) {
			case *ssa.Function:
				ft = T("func", funcID(v))
			case *ssa.MakeClosure:
				if fn, isFn := v.Fn.(*ssa.Function); isFn && len(v.Bindings) == 0 {
					ft = T("func", funcID(fn))
				}
			case *ssa.ChangeType:
				if fn, isFn := v.X.(*ssa.Function); isFn {
					ft = T("func", funcID(fn))
				}
			}
			i := int(k.Int64())
			if ft == nil || i >= len(elems) || elems[i] != nil {
				return nil
			}
			elems[i] = ft
		}
	}
	for _, e := range elems {
		if e == nil {
			return nil
		}
	}
	t := T("array", "", elems...)
	a.globalTables[g] = t
	return t
}

// tailForwards: the return hands back exactly the results of one call, in order.
func tailForwards(ret *ssa.Return) bool {
	if len(ret.Results) < 2 {
		return false
	}
	var tuple ssa.Value
	for i, rv := range ret.Results {
		ex, ok := rv.(*ssa.Extract)
		if !ok || ex.Index != i {
			return false
		}
		if tuple == nil {
			tuple = ex.Tuple
		} else if ex.Tuple != tuple {
			return false
		}
	}
	_, isCall := tuple.(*ssa.Call)
	return isCall
}
