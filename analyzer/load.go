package main

import (
	"fmt"
	"go/token"
	"go/types"
	"os"
	"sort"
	"strings"

	"golang.org/x/tools/go/callgraph"
	"golang.org/x/tools/go/callgraph/cha"
	"golang.org/x/tools/go/callgraph/vta"
	"golang.org/x/tools/go/packages"
	"golang.org/x/tools/go/ssa"
	"golang.org/x/tools/go/ssa/ssautil"
)

const modPath = "github.com/orbs-network/lean-helix-go"

// Prog is the loaded, type-checked and SSA-built library scope of /repo.
type Prog struct {
	Repo     string
	Fset     *token.FileSet
	Pkgs     []*packages.Package // library scope, sorted by path
	ByPath   map[string]*packages.Package
	SSA      *ssa.Program
	SSAPkgs  map[string]*ssa.Package
	Funcs    []*ssa.Function // every function with a body in library scope (incl. anonymous), sorted
	FuncByID map[string]*ssa.Function
	cha      *callgraph.Graph
	vta      *callgraph.Graph
	GOARCH   string
	Sizes    types.Sizes
}

func inLibraryScope(pkgPath string) bool {
	if pkgPath != modPath && !strings.HasPrefix(pkgPath, modPath+"/") {
		return false
	}
	rel := strings.TrimPrefix(strings.TrimPrefix(pkgPath, modPath), "/")
	for _, seg := range strings.Split(rel, "/") {
		switch seg {
		case "test", "testhelpers", "test_poc":
			return false
		}
	}
	return true
}

type brokenError struct{ msg string }

func (e brokenError) Error() string { return e.msg }

func broken(format string, a ...interface{}) {
	panic(brokenError{fmt.Sprintf(format, a...)})
}

// Load loads /repo (or the directory given) from its current working tree.
// overlay optionally replaces file contents in memory (used by the sensitivity sweep).
func Load(repo string, goarch string, overlay map[string][]byte) *Prog {
	env := os.Environ()
	filtered := env[:0:0]
	for _, e := range env {
		if strings.HasPrefix(e, "GOFLAGS=") || strings.HasPrefix(e, "GOWORK=") || strings.HasPrefix(e, "GOARCH=") ||
			strings.HasPrefix(e, "GOPROXY=") || strings.HasPrefix(e, "GOSUMDB=") || strings.HasPrefix(e, "GOTOOLCHAIN=") {
			continue
		}
		filtered = append(filtered, e)
	}
	filtered = append(filtered, "GOFLAGS=-mod=mod", "GOPROXY=off", "GOSUMDB=off", "GOWORK=off", "GOTOOLCHAIN=local", "CGO_ENABLED=0")
	if goarch != "" {
		filtered = append(filtered, "GOARCH="+goarch)
	}
	fset := token.NewFileSet()
	cfg := &packages.Config{
		Mode:    packages.LoadAllSyntax,
		Dir:     repo,
		Env:     filtered,
		Fset:    fset,
		Tests:   false,
		Overlay: overlay,
	}
	pkgs, err := packages.Load(cfg, "./...")
	if err != nil {
		broken("packages.Load failed: %v", err)
	}
	p := &Prog{Repo: repo, Fset: fset, ByPath: map[string]*packages.Package{}, SSAPkgs: map[string]*ssa.Package{}, FuncByID: map[string]*ssa.Function{}, GOARCH: goarch}
	var lib []*packages.Package
	for _, pkg := range pkgs {
		if !inLibraryScope(pkg.PkgPath) {
			continue
		}
		lib = append(lib, pkg)
	}
	sort.Slice(lib, func(i, j int) bool { return lib[i].PkgPath < lib[j].PkgPath })
	if len(lib) < 20 {
		broken("library scope has only %d packages (expected >= 20): load incomplete", len(lib))
	}
	// any error in the library scope or its dependencies makes the tree un-analysable
	packages.Visit(lib, nil, func(pkg *packages.Package) {
		for _, e := range pkg.Errors {
			broken("load/type error in %s: %v", pkg.PkgPath, e)
		}
	})
	for _, pkg := range lib {
		p.ByPath[pkg.PkgPath] = pkg
		if pkg.Types == nil || pkg.TypesInfo == nil {
			broken("package %s not type-checked", pkg.PkgPath)
		}
		if p.Sizes == nil {
			p.Sizes = pkg.TypesSizes
		}
	}
	p.Pkgs = lib
	prog, ssapkgs := ssautil.Packages(lib, ssa.InstantiateGenerics)
	for i, sp := range ssapkgs {
		if sp == nil {
			broken("no SSA package for %s", lib[i].PkgPath)
		}
		p.SSAPkgs[lib[i].PkgPath] = sp
	}
	prog.Build()
	p.SSA = prog
	for fn := range ssautil.AllFunctions(prog) {
		if fn.Blocks == nil {
			continue
		}
		if fn.Pkg == nil && fn.Parent() == nil {
			// synthetic wrappers without package: keep only if they wrap library code
			if fn.Synthetic == "" {
				continue
			}
		}
		pk := funcPkgPath(fn)
		if !inLibraryScope(pk) {
			continue
		}
		p.Funcs = append(p.Funcs, fn)
	}
	sort.Slice(p.Funcs, func(i, j int) bool { return funcID(p.Funcs[i]) < funcID(p.Funcs[j]) })
	for _, fn := range p.Funcs {
		p.FuncByID[funcID(fn)] = fn
	}
	resolveFieldAliases(p)
	resolveEntries(p)
	return p
}

func funcPkgPath(fn *ssa.Function) string {
	for f := fn; f != nil; f = f.Parent() {
		if f.Pkg != nil {
			return f.Pkg.Pkg.Path()
		}
		if f.Object() != nil && f.Object().Pkg() != nil {
			return f.Object().Pkg().Path()
		}
		if o := f.Origin(); o != nil && o != f {
			return funcPkgPath(o)
		}
	}
	return ""
}

// funcID is a stable readable identifier: pkgrel.(Recv).Name or pkgrel.Name$1
func funcID(fn *ssa.Function) string {
	s := fn.String()
	s = strings.ReplaceAll(s, modPath+"/", "")
	s = strings.ReplaceAll(s, modPath, "leanhelix")
	return s
}

func (p *Prog) CHA() *callgraph.Graph {
	if p.cha == nil {
		p.cha = cha.CallGraph(p.SSA)
	}
	return p.cha
}

func (p *Prog) VTA() *callgraph.Graph {
	if p.vta == nil {
		p.vta = vta.CallGraph(ssautil.AllFunctions(p.SSA), p.CHA())
	}
	return p.vta
}

// Func looks up a function by id and reports a broken analysis when the anchor is gone.
func (p *Prog) Func(id string) *ssa.Function {
	fn := p.FuncByID[id]
	if fn == nil {
		broken("unresolved anchor: function %s not found in library scope", id)
	}
	return fn
}

func (p *Prog) FuncOpt(id string) *ssa.Function { return p.FuncByID[id] }

func (p *Prog) Pos(pos token.Pos) string {
	if !pos.IsValid() {
		return "-"
	}
	pp := p.Fset.Position(pos)
	f := strings.TrimPrefix(pp.Filename, p.Repo+"/")
	return fmt.Sprintf("%s:%d", f, pp.Line)
}

// instrPos returns the best source position for an instruction.
func (p *Prog) InstrPos(in ssa.Instruction) string {
	pos := in.Pos()
	if !pos.IsValid() {
		if v, ok := in.(ssa.Value); ok {
			pos = v.Pos()
		}
	}
	if !pos.IsValid() {
		// fall back to the position of the enclosing function
		if in.Parent() != nil {
			return p.Pos(in.Parent().Pos()) + "(fn)"
		}
	}
	return p.Pos(pos)
}

// libType finds a named type in library scope: "services/interfaces.Storage"
func (p *Prog) LibType(rel string) *types.Named {
	i := strings.LastIndex(rel, ".")
	pkgRel, name := rel[:i], rel[i+1:]
	path := modPath
	if pkgRel != "" && pkgRel != "leanhelix" {
		path = modPath + "/" + pkgRel
	}
	pkg := p.ByPath[path]
	if pkg == nil {
		broken("unresolved anchor: package %s", path)
	}
	obj := pkg.Types.Scope().Lookup(name)
	if obj == nil {
		broken("unresolved anchor: type %s.%s", path, name)
	}
	n, ok := obj.Type().(*types.Named)
	if !ok {
		broken("unresolved anchor: %s.%s is not a named type", path, name)
	}
	return n
}


// CondPos: file:line:col of the condition of an If (the If instruction itself carries no position).
func (p *Prog) CondPos(in *ssa.If) string {
	var find func(v ssa.Value, depth int) token.Pos
	find = func(v ssa.Value, depth int) token.Pos {
		if v.Pos().IsValid() {
			return v.Pos()
		}
		if depth > 3 {
			return token.NoPos
		}
		if i, ok := v.(ssa.Instruction); ok {
			for _, op := range i.Operands(nil) {
				if *op != nil {
					if ps := find(*op, depth+1); ps.IsValid() {
						return ps
					}
				}
			}
		}
		return token.NoPos
	}
	pos := find(in.Cond, 0)
	if !pos.IsValid() {
		return p.InstrPos(in)
	}
	pp := p.Fset.Position(pos)
	f := strings.TrimPrefix(pp.Filename, p.Repo+"/")
	return fmt.Sprintf("%s:%d:%d", f, pp.Line, pp.Column)
}

// IsLib: fn has a body in library scope.
func (p *Prog) IsLib(fn *ssa.Function) bool {
	return fn != nil && len(fn.Blocks) > 0 && p.FuncByID[funcID(fn)] == fn
}
