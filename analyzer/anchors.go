package main

import (
	"go/constant"
	"go/types"
	"strings"

	"golang.org/x/tools/go/ssa"
)

// K: the named anchors rules may refer to (DESIGN §2.2), resolved against the current tree.
type K struct {
	A   *Analyzer
	TIC *Term // This(TermInCommittee)
	Cmt *Term // the term's committee
	KM  *Term
	ST  *Term
	BU  *Term
	MF  *Term
	COM *Term
	ES  *Term
	VC  *Term // ViewContexts
	State *Term
	SView *Term
	SHeight *Term
	MyId *Term // tic.myMemberId
	leaderFns []*ssa.Function // every function indexing a committee slice with a computed index (I4.single wants exactly one)
	leaderFn  *ssa.Function   // the leader function among them
	MissingLatch []string
}

func (a *Analyzer) Anchors() *K {
	if a.anchors != nil {
		return a.anchors
	}
	k := &K{A: a}
	a.anchors = k
	k.TIC = This("termincommittee.TermInCommittee")
	k.Cmt = Field(k.TIC, "committeeMembers")
	k.KM = This("interfaces.KeyManager")
	k.ST = This("interfaces.Storage")
	k.BU = This("interfaces.BlockUtils")
	k.MF = This("messagesfactory.MessageFactory")
	k.COM = This("interfaces.Communication")
	k.ES = This("interfaces.ElectionScheduler")
	k.VC = This("state.ViewContexts")
	k.State = This("state.State")
	k.SView = Field(k.State, "view")
	k.SHeight = Field(k.State, "height")
	k.MyId = Field(k.TIC, "myMemberId")
	// anchored struct fields must exist
	a.requireField("services/termincommittee.TermInCommittee", "committeeMembers", "myMemberId", "State")
	// latch fields: their absence is a finding of the rules that need them (G3, G5, S3), not a broken analysis
	for _, f := range []string{"preparedLocally", "committedBlock", "latestViewThatProcessedVCMOrNVM"} {
		if !a.hasField("services/termincommittee.TermInCommittee", f) {
			k.MissingLatch = append(k.MissingLatch, f)
		}
	}
	a.requireField("state.State", "height", "view", "Contexts")
	a.requireField("state.ViewContexts", "hvToContext", "newestHvCanceledOlder", "shutdown")
	a.requireField("services/rawmessagesfilter.RawMessageFilter", "futureCache", "consensusMessagesHandler", "instanceId", "myMemberId")
	k.leaderFns = a.findLeaderFns()
	k.leaderFn = k.pickLeaderFn()
	return k
}

func (a *Analyzer) hasField(typ string, field string) bool {
	n := a.P.LibType(typ)
	st, ok := n.Underlying().(*types.Struct)
	if !ok {
		return false
	}
	for i := 0; i < st.NumFields(); i++ {
		if canonicalField(n, st.Field(i).Name()) == field {
			return true
		}
	}
	return false
}

func (a *Analyzer) requireField(typ string, fields ...string) {
	n := a.P.LibType(typ)
	st, ok := n.Underlying().(*types.Struct)
	if !ok {
		broken("unresolved anchor: %s is not a struct", typ)
	}
	for _, f := range fields {
		found := false
		for i := 0; i < st.NumFields(); i++ {
			if canonicalField(n, st.Field(i).Name()) == f {
				found = true
			}
		}
		if !found {
			broken("unresolved anchor: field %s.%s", typ, f)
		}
	}
}

func isCommitteeSlice(t types.Type) bool {
	sl, ok := t.Underlying().(*types.Slice)
	if !ok {
		if p, ok2 := t.Underlying().(*types.Pointer); ok2 {
			return isCommitteeSlice(p.Elem())
		}
		return false
	}
	return typeShort(sl.Elem()) == "interfaces.CommitteeMember"
}

// findLeaderFns: library functions that index a []CommitteeMember with a computed (non-constant, non-range) index.
func (a *Analyzer) findLeaderFns() []*ssa.Function {
	var res []*ssa.Function
	for _, f := range a.P.Funcs {
		li := a.Loops(f)
		found := false
		for _, b := range f.Blocks {
			for _, in := range b.Instrs {
				var base, idx ssa.Value
				switch x := in.(type) {
				case *ssa.IndexAddr:
					base, idx = x.X, x.Index
				case *ssa.Index:
					base, idx = x.X, x.Index
				default:
					continue
				}
				if !isCommitteeSlice(base.Type()) {
					continue
				}
				if _, isConst := idx.(*ssa.Const); isConst {
					continue
				}
				// the (i, j) of a comparator closure handed to sort: not a choice of a member (I3.inplace judges the sort)
				if pm, isParam := idx.(*ssa.Parameter); isParam && f.Parent() != nil && pm.Parent() == f {
					continue
				}
				rangeIdx := false
				for _, l := range li.Loops {
					if l.IndexVal == idx {
						rangeIdx = true
					}
				}
				if !rangeIdx {
					found = true
				}
			}
		}
		if found {
			res = append(res, f)
		}
	}
	return res
}

// LeaderOf(v): the term the builder produces for a call of the leader function on (v, committee).
func (k *K) LeaderOf(v *Term) *Term {
	if k.leaderFn == nil {
		broken("unresolved anchor: expected exactly one leader-index function, found %d", len(k.leaderFns))
	}
	f := k.leaderFn
	args := make([]*Term, len(f.Params))
	for i, p := range f.Params {
		switch {
		case typeShort(p.Type()) == "primitives.View":
			args[i] = v
		case isCommitteeSlice(p.Type()):
			args[i] = k.Cmt
		case k.A.singletonOf(p.Type()) != "":
			args[i] = This(k.A.singletonOf(p.Type()))
		default:
			broken("unresolved anchor: leader function %s has an unexpected parameter %s", funcID(f), p.Name())
		}
	}
	c := k.A.NewFCtx(f, nil, 0)
	return c.staticCall(f, args, nil)
}

// protocol constant as a term
func (k *K) ProtoConst(name string) *Term {
	pkg := k.A.P.ByPath[modPath+"/spec/types/go/protocol"]
	if pkg == nil {
		broken("unresolved anchor: protocol package")
	}
	obj, ok := pkg.Types.Scope().Lookup(name).(*types.Const)
	if !ok {
		broken("unresolved anchor: protocol.%s", name)
	}
	if obj.Val().Kind() == constant.Int {
		return Const(obj.Val().ExactString())
	}
	return Const(obj.Val().ExactString())
}

// message accessors
func content(m *Term) *Term { return Field(m, "content") }
func hdr(m *Term) *Term     { return Call("protocol.SignedHeader", content(m)) }
func snd(m *Term) *Term     { return Call("protocol.Sender", content(m)) }
func blockOf(m *Term) *Term { return Field(m, "block") }
func mid(s *Term) *Term     { return Call("protocol.MemberId", s) }
func vw(h *Term) *Term      { return Call("protocol.View", h) }
func ht(h *Term) *Term      { return Call("protocol.BlockHeight", h) }
func hash(h *Term) *Term    { return Call("protocol.BlockHash", h) }
func raw(h *Term) *Term     { return Call("protocol.Raw", h) }
func mtype(h *Term) *Term   { return Call("protocol.MessageType", h) }
func inst(h *Term) *Term    { return Call("protocol.InstanceId", h) }
func proofOf(h *Term) *Term { return Call("protocol.PreparedProof", h) }

func (k *K) Verify(h, s *Term) *Atom {
	return ErrNil(Call("interfaces.VerifyConsensusMessage", k.KM, ht(h), raw(h), s))
}

func (k *K) Member(id *Term) *Atom {
	return Truth(Call("proofsvalidator.IsInMembers", k.Cmt, id))
}

func (k *K) MemberOf(cmt, id *Term) *Atom {
	return Truth(Call("proofsvalidator.IsInMembers", cmt, id))
}

func (k *K) Quorum(ids *Term) *Atom {
	return Truth(Ext(0, Call("quorum.IsQuorum", ids, k.Cmt)))
}

// isSelfMsg: a message built by the node's own factory.
func isSelfMsg(t *Term) bool {
	if t.Op == "call" && strings.HasPrefix(t.Name, "messagesfactory.") {
		return true
	}
	if t.Op == "struct" {
		// a message struct whose content was produced by the factory
		c := Field(t, "content")
		return c.Contains(func(s *Term) bool { return s.Op == "call" && strings.HasPrefix(s.Name, "messagesfactory.") })
	}
	return false
}

func mentionsRoot(t *Term, root string) bool {
	return t.Contains(func(s *Term) bool { return s.Op == "root" && s.Name == root })
}

// pickLeaderFn: the single function that indexes a committee with a computed index; when other functions do so too
// (reported by I4.single), the one with the leader signature: (view, committee | singleton receiver) -> MemberId.
func (k *K) pickLeaderFn() *ssa.Function {
	if len(k.leaderFns) == 1 {
		return k.leaderFns[0]
	}
	var cands []*ssa.Function
	for _, f := range k.leaderFns {
		res := f.Signature.Results()
		if res.Len() != 1 || typeShort(res.At(0).Type()) != "primitives.MemberId" {
			continue
		}
		hasView, ok := false, true
		for _, p := range f.Params {
			switch {
			case typeShort(p.Type()) == "primitives.View":
				hasView = true
			case isCommitteeSlice(p.Type()), k.A.singletonOf(p.Type()) != "":
			default:
				ok = false
			}
		}
		if hasView && ok {
			cands = append(cands, f)
		}
	}
	if len(cands) == 1 {
		return cands[0]
	}
	return nil
}
