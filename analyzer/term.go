package main

import (
	"sort"
	"strings"
)

// Term is a canonical, CSE-free abstraction of an SSA value (DESIGN §2.3).
type Term struct {
	Op     string   // root this const call ext field index elem lookup len bin un struct closure func istype map append slice make unk read global phi var forall
	Name   string   // callee / field / operator / constant / type / id
	Args   []*Term
	FNames []string // struct: field names parallel to Args
	key    string
}

func (t *Term) Key() string {
	if t == nil {
		return "<nil>"
	}
	if t.key != "" {
		return t.key
	}
	var sb strings.Builder
	sb.WriteString(t.Op)
	if t.Name != "" {
		sb.WriteString(":")
		sb.WriteString(t.Name)
	}
	if len(t.Args) > 0 || t.Op == "call" || t.Op == "struct" {
		sb.WriteString("(")
		for i, a := range t.Args {
			if i > 0 {
				sb.WriteString(",")
			}
			if t.Op == "struct" && i < len(t.FNames) {
				sb.WriteString(t.FNames[i])
				sb.WriteString("=")
			}
			sb.WriteString(a.Key())
		}
		sb.WriteString(")")
	}
	t.key = sb.String()
	return t.key
}

func (t *Term) String() string { return prettyKey(t.Key()) }

// prettyKey shortens keys for reports.
func prettyKey(k string) string {
	r := strings.NewReplacer("call:", "", "field:", ".", "const:", "", "this:", "This<", "read:", "Read<")
	_ = r
	return k
}

func T(op, name string, args ...*Term) *Term { return &Term{Op: op, Name: name, Args: args} }

func Const(v string) *Term { return T("const", v) }
func Root(n string) *Term  { return T("root", n) }
func This(n string) *Term  { return T("this", n) }
func Var(n string) *Term   { return T("var", n) }
func Read(loc string) *Term {
	return T("read", loc)
}

var (
	tNil   = Const("nil")
	tTrue  = Const("true")
	tFalse = Const("false")
)

func Unk(id string) *Term { return T("unk", id) }

func Call(name string, args ...*Term) *Term { return mkCall(name, args) }

// mkCall applies the equality-helper normalisation.
func mkCall(name string, args []*Term) *Term {
	switch name {
	case "primitives.Equal", "bytes.Equal":
		if len(args) == 2 {
			return Bin("==", args[0], args[1])
		}
	case "builtin.len":
		if len(args) == 1 {
			return Len(args[0])
		}
	}
	return &Term{Op: "call", Name: name, Args: args}
}

func Len(t *Term) *Term {
	return T("len", "", t)
}

func Ext(i int, t *Term) *Term {
	return T("ext", itoa(i), t)
}

func itoa(i int) string {
	if i == 0 {
		return "0"
	}
	neg := i < 0
	if neg {
		i = -i
	}
	var b []byte
	for i > 0 {
		b = append([]byte{byte('0' + i%10)}, b...)
		i /= 10
	}
	if neg {
		b = append([]byte{'-'}, b...)
	}
	return string(b)
}

func Field(base *Term, name string) *Term {
	if base.Op == "struct" {
		for i, fn := range base.FNames {
			if fn == name {
				return base.Args[i]
			}
		}
		return Const("zero")
	}
	if base.Op == "deref" && len(base.Args) == 1 && base.Args[0].Op == "struct" {
		// a captured / pointed-to struct literal that is only read
		return Field(base.Args[0], name)
	}
	if base.Op == "ite" && len(base.Args) == 3 {
		// a field of a conditional value (a result struct picked by a chain of tests) is the conditional of the fields
		x, y := Field(base.Args[1], name), Field(base.Args[2], name)
		if x.Key() == y.Key() {
			return x
		}
		return T("ite", "", base.Args[0], x, y)
	}
	return T("field", name, base)
}

func Struct(typ string, names []string, vals []*Term) *Term {
	// canonical field order
	idx := make([]int, len(names))
	for i := range idx {
		idx[i] = i
	}
	sort.Slice(idx, func(a, b int) bool { return names[idx[a]] < names[idx[b]] })
	t := &Term{Op: "struct", Name: typ}
	for _, i := range idx {
		t.FNames = append(t.FNames, names[i])
		t.Args = append(t.Args, vals[i])
	}
	return t
}

func Bin(op string, a, b *Term) *Term {
	switch op {
	case "!=":
		return Not(Bin("==", a, b)) // one canonical form for inequality
	case ">":
		return Bin("<", b, a)
	case ">=":
		return Bin("<=", b, a)
	case "==", "+", "*", "&", "|", "^":
		if op == "==" {
			// a classification result compared with one of its codes: the comparison is the path condition of that code
			if a.Op == "ite" && b.Op == "const" {
				if r := iteEq(a, b); r != nil {
					return r
				}
			}
			if b.Op == "ite" && a.Op == "const" {
				if r := iteEq(b, a); r != nil {
					return r
				}
			}
		}
		if a.Key() > b.Key() {
			a, b = b, a
		}
	}
	return T("bin", op, a, b)
}

// iteEq: ite(c, x, y) == k for constant k, when every leaf of the chain is a constant (nil when not).
func iteEq(t, k *Term) *Term {
	if t.Op == "const" {
		if t.Key() == k.Key() {
			return tTrue
		}
		return tFalse
	}
	if t.Op != "ite" || len(t.Args) != 3 {
		return nil
	}
	x, y := iteEq(t.Args[1], k), iteEq(t.Args[2], k)
	if x == nil || y == nil {
		return nil
	}
	c := t.Args[0]
	// (c && x) || (!c && y)
	return mkOr([]*Term{mkAnd([]*Term{c, x}), mkAnd([]*Term{Not(c), y})})
}

func Not(a *Term) *Term {
	if a.Op == "un" && a.Name == "!" {
		return a.Args[0]
	}
	if a.Op == "const" {
		if a.Name == "true" {
			return tFalse
		}
		if a.Name == "false" {
			return tTrue
		}
	}
	return T("un", "!", a)
}

// Subst replaces sub-terms by key.
func (t *Term) Subst(m map[string]*Term) *Term {
	if len(m) == 0 {
		return t
	}
	if r, ok := m[t.Key()]; ok {
		return r
	}
	if len(t.Args) == 0 {
		return t
	}
	changed := false
	na := make([]*Term, len(t.Args))
	for i, a := range t.Args {
		na[i] = a.Subst(m)
		if na[i] != a {
			changed = true
		}
	}
	if !changed {
		return t
	}
	return rebuild(t, na)
}

// dynResolver turns calldyn(<known function value>, args...) into the call it is (set by NewAnalyzer).
var dynResolver func(args []*Term) *Term

// rebuild re-applies the simplifying constructors after substitution.
func rebuild(t *Term, na []*Term) *Term {
	switch t.Op {
	case "field":
		return Field(na[0], t.Name)
	case "bin":
		return Bin(t.Name, na[0], na[1])
	case "un":
		if t.Name == "!" {
			return Not(na[0])
		}
	case "call":
		return mkCall(t.Name, na)
	case "ext":
		return mkExt(t.Name, na[0])
	case "and":
		return mkAnd(na)
	case "or":
		return mkOr(na)
	case "len":
		return Len(na[0])
	case "deref":
		// reading a captured variable that has a single assignment
		if len(na) == 1 && na[0].Op == "cell" && len(na[0].Args) == 1 {
			return na[0].Args[0]
		}
	case "calldyn":
		// the called value became known by the substitution (a function value passed as an argument)
		if dynResolver != nil && len(na) > 0 && (na[0].Op == "closure" || na[0].Op == "func") {
			if r := dynResolver(na); r != nil {
				return r
			}
		}
	case "ite":
		if na[0].Key() == tTrue.Key() {
			return na[1]
		}
		if na[0].Key() == tFalse.Key() {
			return na[2]
		}
		if na[1].Key() == na[2].Key() {
			return na[1]
		}
	}
	return &Term{Op: t.Op, Name: t.Name, Args: na, FNames: t.FNames}
}

func mkExt(idx string, base *Term) *Term {
	if base.Op == "tuple" {
		i := 0
		for _, c := range idx {
			i = i*10 + int(c-'0')
		}
		if i < len(base.Args) {
			return base.Args[i]
		}
	}
	return T("ext", idx, base)
}

// Contains reports whether t has a sub-term satisfying pred.
func (t *Term) Contains(pred func(*Term) bool) bool {
	if pred(t) {
		return true
	}
	for _, a := range t.Args {
		if a.Contains(pred) {
			return true
		}
	}
	return false
}

func (t *Term) ContainsKey(k string) bool {
	return strings.Contains(t.Key(), k)
}

func (t *Term) Walk(f func(*Term)) {
	f(t)
	for _, a := range t.Args {
		a.Walk(f)
	}
}

// Match unifies pattern p (with var terms) against t, extending b.
func Match(p, t *Term, b map[string]*Term) bool {
	if p.Op == "var" {
		if cur, ok := b[p.Name]; ok {
			return cur.Key() == t.Key()
		}
		b[p.Name] = t
		return true
	}
	if p.Op == "any" {
		return true
	}
	if p.Op != t.Op || p.Name != t.Name || len(p.Args) != len(t.Args) {
		return false
	}
	if p.Op == "struct" {
		for i := range p.FNames {
			if p.FNames[i] != t.FNames[i] {
				return false
			}
		}
	}
	for i := range p.Args {
		if !Match(p.Args[i], t.Args[i], b) {
			return false
		}
	}
	return true
}

// Inst instantiates the variables of a pattern.
func Inst(p *Term, b map[string]*Term) *Term {
	if p.Op == "var" {
		if v, ok := b[p.Name]; ok {
			return v
		}
		return p
	}
	if len(p.Args) == 0 {
		return p
	}
	na := make([]*Term, len(p.Args))
	for i, a := range p.Args {
		na[i] = Inst(a, b)
	}
	return rebuild(p, na)
}

// ---------------------------------------------------------------- atoms

// Atom is a fact: pred over terms with polarity. Canonical forms:
//   eq(a,b) [Neg allowed], lt(a,b), le(a,b)  (negations of lt/le are rewritten), truth(t) [Neg allowed], done(t)
type Atom struct {
	Pred string
	Args []*Term
	Neg  bool
	Site string // position of the guard that established it (not part of the key)
	key  string
}

func (a *Atom) Key() string {
	if a.key != "" {
		return a.key
	}
	var sb strings.Builder
	if a.Neg {
		sb.WriteString("!")
	}
	sb.WriteString(a.Pred)
	sb.WriteString("(")
	for i, t := range a.Args {
		if i > 0 {
			sb.WriteString(",")
		}
		sb.WriteString(t.Key())
	}
	sb.WriteString(")")
	a.key = sb.String()
	return a.key
}

func (a *Atom) String() string { return a.Key() }

func (a *Atom) Negate() *Atom {
	switch a.Pred {
	case "lt":
		return &Atom{Pred: "le", Args: []*Term{a.Args[1], a.Args[0]}, Site: a.Site}
	case "le":
		return &Atom{Pred: "lt", Args: []*Term{a.Args[1], a.Args[0]}, Site: a.Site}
	}
	return &Atom{Pred: a.Pred, Args: a.Args, Neg: !a.Neg, Site: a.Site}
}

func (a *Atom) Subst(m map[string]*Term) *Atom {
	na := make([]*Term, len(a.Args))
	for i, t := range a.Args {
		na[i] = t.Subst(m)
	}
	// re-canonicalise through a bool term when needed
	switch a.Pred {
	case "eq":
		r := atomOf(Bin("==", na[0], na[1]), a.Site)
		if r != nil {
			if a.Neg {
				return r.Negate()
			}
			return r
		}
	case "truth":
		r := atomOf(na[0], a.Site)
		if r != nil {
			if a.Neg {
				return r.Negate()
			}
			return r
		}
	}
	return &Atom{Pred: a.Pred, Args: na, Neg: a.Neg, Site: a.Site}
}

func (a *Atom) Mentions(pred func(*Term) bool) bool {
	for _, t := range a.Args {
		if t.Contains(pred) {
			return true
		}
	}
	return false
}

// atomOf converts a boolean term into the atom that holds when the term is true.
func atomOf(t *Term, site string) *Atom {
	switch t.Op {
	case "un":
		if t.Name == "!" {
			a := atomOf(t.Args[0], site)
			if a == nil {
				return nil
			}
			return a.Negate()
		}
	case "bin":
		switch t.Name {
		case "==":
			// comparisons of booleans with constants collapse
			if t.Args[0].Op == "const" || t.Args[1].Op == "const" {
				c, o := t.Args[0], t.Args[1]
				if c.Op != "const" {
					c, o = o, c
				}
				if c.Name == "true" {
					return atomOf(o, site)
				}
				if c.Name == "false" {
					a := atomOf(o, site)
					if a != nil {
						return a.Negate()
					}
				}
			}
			return &Atom{Pred: "eq", Args: []*Term{t.Args[0], t.Args[1]}, Site: site}
		case "!=":
			a := atomOf(Bin("==", t.Args[0], t.Args[1]), site)
			return a.Negate()
		case "<":
			return &Atom{Pred: "lt", Args: []*Term{t.Args[0], t.Args[1]}, Site: site}
		case "<=":
			return &Atom{Pred: "le", Args: []*Term{t.Args[0], t.Args[1]}, Site: site}
		}
	case "const":
		if t.Name == "true" {
			return &Atom{Pred: "truth", Args: []*Term{tTrue}, Site: site}
		}
		if t.Name == "false" {
			return &Atom{Pred: "truth", Args: []*Term{tTrue}, Neg: true, Site: site}
		}
	}
	return &Atom{Pred: "truth", Args: []*Term{t}, Site: site}
}

// Facts is a set of atoms.
type Facts map[string]*Atom

func (f Facts) Clone() Facts {
	n := make(Facts, len(f))
	for k, v := range f {
		n[k] = v
	}
	return n
}

func (f Facts) Add(a *Atom) {
	if a == nil {
		return
	}
	if a.Pred == "eq" && !a.Neg && a.Args[0].Key() == a.Args[1].Key() {
		return
	}
	if a.Pred == "eq" && !a.Neg {
		// x == struct{f: v, ...}  also gives  x.f == v  (each survives independently of the other fields' kills)
		for i := 0; i < 2; i++ {
			st, o := a.Args[i], a.Args[1-i]
			if st.Op == "struct" && o.Op != "struct" && o.Op != "const" {
				for j, fn := range st.FNames {
					f.Add(atomOf(Bin("==", Field(o, fn), st.Args[j]), a.Site))
				}
			}
		}
	}
	if _, ok := f[a.Key()]; !ok {
		f[a.Key()] = a
		// a known conjunction is known conjunct by conjunct (wherever it was derived), a refuted disjunction is refuted
		// disjunct by disjunct
		if a.Pred == "truth" && len(a.Args) == 1 {
			if t := a.Args[0]; t.Op == "and" && !a.Neg {
				for _, x := range t.Args {
					if c := atomOf(x, a.Site); c != nil {
						f.Add(c)
					}
				}
			} else if t.Op == "or" && a.Neg {
				for _, x := range t.Args {
					if c := atomOf(x, a.Site); c != nil {
						f.Add(c.Negate())
					}
				}
			}
		}
	}
}

// Intersect is the implication-aware meet: an atom survives when the other side has it or a stronger one.
func (f Facts) Intersect(g Facts) Facts {
	n := make(Facts)
	for k, v := range f {
		if _, ok := g[k]; ok {
			n[k] = v
		} else if v.Pred == "eq" || v.Pred == "le" {
			if g.Has(v) != nil {
				n[k] = v
			}
		}
	}
	for k, v := range g {
		if _, ok := n[k]; ok {
			continue
		}
		if v.Pred == "eq" || v.Pred == "le" {
			if f.Has(v) != nil {
				n[k] = v
			}
		}
	}
	return n
}

func (f Facts) Equal(g Facts) bool {
	if len(f) != len(g) {
		return false
	}
	for k := range f {
		if _, ok := g[k]; !ok {
			return false
		}
	}
	return true
}

func (f Facts) SortedKeys() []string {
	ks := make([]string, 0, len(f))
	for k := range f {
		ks = append(ks, k)
	}
	sort.Strings(ks)
	return ks
}

// Implies: does the set contain the atom or a stronger one?
func (f Facts) Has(a *Atom) *Atom {
	if x, ok := f[a.Key()]; ok {
		return x
	}
	mk := func(pred string, x, y *Term, neg bool) *Atom {
		return &Atom{Pred: pred, Args: []*Term{x, y}, Neg: neg}
	}
	switch a.Pred {
	case "le":
		x, y := a.Args[0], a.Args[1]
		if h, ok := f[mk("lt", x, y, false).Key()]; ok {
			return h
		}
		if h := f.Has(atomOf(Bin("==", x, y), "")); h != nil {
			return h
		}
	case "eq":
		if !a.Neg {
			x, y := a.Args[0], a.Args[1]
			_, ok1 := f[mk("le", x, y, false).Key()]
			_, ok2 := f[mk("le", y, x, false).Key()]
			if ok1 && ok2 {
				return f[mk("le", x, y, false).Key()]
			}
		}
		if a.Neg {
			x, y := a.Args[0], a.Args[1]
			if h, ok := f[mk("lt", x, y, false).Key()]; ok {
				return h
			}
			if h, ok := f[mk("lt", y, x, false).Key()]; ok {
				return h
			}
		}
	}
	return nil
}
