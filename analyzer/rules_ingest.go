package main

import (
	"strings"
	"sync"
)

// Engine A rule set for message ingestion: FILTER, ING-PP/P/C/VC/NV, GATES (DESIGN §3).

const (
	idE1 = "(*services/rawmessagesfilter.RawMessageFilter).HandleConsensusRawMessage"
	idE2 = "(*services/rawmessagesfilter.RawMessageFilter).ConsumeCacheMessages"
)

type ingest struct {
	a *Analyzer
	k *K
	r *Results
	// statistics
	effects int
	vc7     map[string]*Effect
	k8use   int
}

func isNetMsg(t *Term) bool {
	if isSelfMsg(t) {
		return false
	}
	if t.Op == "ext" || t.Op == "unk" || t.Op == "phi" {
		return false
	}
	return mentionsRoot(t, "rawMessage") || t.ContainsKey("field:futureCache(")
}

type ingestCfg struct {
	name   string
	assume []*Atom
}

func ingestConfigs() []ingestCfg {
	m := Var("m")
	blk := Field(m, "block")
	proof := Call("protocol.PreparedProof", Call("protocol.SignedHeader", Field(m, "content")))
	return []ingestCfg{
		{"", nil},
		{"vc-proof-and-block", []*Atom{Ne(blk, tNil), Ne(proof, tNil), Lt(Const("0"), Len(raw(proof)))}},
		{"vc7-block-without-proof-1", []*Atom{Ne(blk, tNil), Eq(proof, tNil)}},
		{"vc7-block-without-proof-2", []*Atom{Ne(blk, tNil), Ne(proof, tNil), Le(Len(raw(proof)), Const("0"))}},
		{"vc7-proof-without-block", []*Atom{Eq(blk, tNil), Ne(proof, tNil), Lt(Const("0"), Len(raw(proof)))}},
		{"nv-vote-proof-nonempty", []*Atom{Ne(Call("protocol.PreparedProof", Call("protocol.SignedHeader", Var("vote"))), tNil), Lt(Const("0"), Len(raw(Call("protocol.PreparedProof", Call("protocol.SignedHeader", Var("vote"))))))}},
		{"nv-proven-hash-nonnil", []*Atom{Ne(Call("protocol.BlockHash", Call("protocol.PreprepareBlockRef", Call("protocol.PreparedProof", Call("protocol.SignedHeader", Var("vote"))))), tNil)}},
	}
}

func runIngest(a *Analyzer, r *Results) {
	a.Anchors() // resolve anchors (and fail) on the calling goroutine
	a.P.VTA()
	type job struct {
		id  string
		cfg ingestCfg
		res *Results
		vc7 map[string]*Effect
		an  *Analyzer
	}
	var jobs []*job
	for _, id := range []string{idE1, idE2, idE3, idE4} {
		for _, c := range ingestConfigs() {
			if (id == idE3 || id == idE4) && c.name != "" {
				continue // the message case splits do not concern the election / sync entries
			}
			jobs = append(jobs, &job{id: id, cfg: c, res: NewResults(), vc7: map[string]*Effect{}})
		}
	}
	var wg sync.WaitGroup
	sem := make(chan struct{}, 12)
	panics := make([]interface{}, len(jobs))
	for ji, j := range jobs {
		wg.Add(1)
		go func(ji int, j *job) {
			defer wg.Done()
			sem <- struct{}{}
			defer func() { <-sem }()
			defer func() {
				if rec := recover(); rec != nil {
					panics[ji] = rec
				}
			}()
			na := NewAnalyzer(a.P)
			j.an = na
			ig := &ingest{a: na, k: na.Anchors(), r: j.res, vc7: j.vc7}
			fn := na.P.Func(j.id)
			w := na.NewWalker(func(e *Effect) { ig.onEffect(e) })
			w.AutoSplit = true
			w.Config = j.cfg.name
			w.Assume = j.cfg.assume
			if j.id == idE4 && armE4 != nil {
				w.ArmOnly = armE4
			}
			// cache container invariant (rules F2.*, F2.key, F3.*, F6.key, F7 decide it): a message read from the
			// cache at key K was inserted under the FILTER guards with key = its own height
			w.Inject = func(e *Effect) []*Atom {
				if e.Kind != "call" || len(e.Args) < 2 || !(e.Path[len(e.Path)-1].Fn == idE2 || (len(e.Path) > 1 && e.Path[len(e.Path)-2].Fn == idE2)) {
					return nil
				}
				m := e.Args[len(e.Args)-1]
				um := unfreeze(m)
				if um.Op != "elem" || len(um.Args) != 1 || um.Args[0].Op != "lookup" || um.Args[0].Args[0].Key() != Field(This("rawmessagesfilter.RawMessageFilter"), "futureCache").Key() {
					return nil
				}
				rmf := This("rawmessagesfilter.RawMessageFilter")
				site := "cache invariant (F2/F3/F6)"
				mk := func(at *Atom) *Atom { at.Site = site; return at }
				return []*Atom{
					mk(Eq(ht(hdr(m)), um.Args[0].Args[1])),
					mk(Ne(mid(snd(m)), Field(rmf, "myMemberId"))),
					mk(Eq(inst(hdr(m)), Field(rmf, "instanceId"))),
				}
			}
			w.Run(fn, nil, nil)
			for _, u := range w.Undecided {
				j.res.Undecided = append(j.res.Undecided, j.id+": "+u)
			}
			j.res.Stats["ingest.paths"] = w.Paths
			j.res.Stats["ingest.functions"] = len(w.Visited)
			j.res.Stats["ingest.effects"] = ig.effects
			j.res.Stats["k8use"] = ig.k8use
		}(ji, j)
	}
	wg.Wait()
	for _, p := range panics {
		if p != nil {
			panic(p)
		}
	}
	vc7 := map[string]*Effect{}
	for _, j := range jobs {
		r.Obls = append(r.Obls, j.res.Obls...)
		r.Undecided = append(r.Undecided, j.res.Undecided...)
		r.Stats["ingest.paths"] += j.res.Stats["ingest.paths"]
		r.Stats["ingest.effects"] += j.res.Stats["ingest.effects"]
		r.Stats["k8use"] += j.res.Stats["k8use"]
		if j.res.Stats["ingest.functions"] > r.Stats["ingest.functions"] {
			r.Stats["ingest.functions"] = j.res.Stats["ingest.functions"]
		}
		for k, v := range j.vc7 {
			vc7[k] = v
		}
	}
	if r.Stats["k8use"] == 0 {
		// no method is invoked on a freshly requested block anywhere: the rule holds with nothing to guard
		r.Check("K8.use", props("C15", "C16", "C12"), k8useText, "none", a.P.Pos(a.P.Func(idE3).Pos()), true, "", "A")
	}
	for _, id := range []string{idE1, idE2} {
		fn := a.P.Func(id)
		// VC7: under each xor-assumption the vote store must be unreachable
		short := id[strings.LastIndex(id, ".")+1:]
		for _, c := range ingestConfigs() {
			if !strings.HasPrefix(c.name, "vc7-") {
				continue
			}
			e := vc7[id+"|"+c.name]
			o := &Obl{Rule: "VC7", Key: "VC7|" + short + "|interfaces.StoreViewChange|net", Props: props("C09", "C11", "C05", "C07", "C04", "C03"), Engine: "A",
				Text: "a vote is stored only if it carries a block exactly when it carries a non-empty prepared proof (case split " + c.name + ": the store must be unreachable)", Entry: id}
			if e == nil {
				o.Status = "discharged"
				o.Site = a.P.Pos(fn.Pos())
				o.Guards = []string{"case split " + c.name + " prunes every path to the store"}
			} else {
				o.Status = "violated"
				o.Site = a.P.InstrPos(e.Instr)
				o.Path = e.PathString()
				o.Missing = "StoreViewChange is reachable under the assumption " + c.name
			}
			r.Add(o)
		}
	}
}

var (
	pC08      = "C08"
	safety    = "C01"
	storeKind = map[string]string{
		"interfaces.StorePreprepare": "PP",
		"interfaces.StorePrepare":    "P",
		"interfaces.StoreCommit":     "C",
		"interfaces.StoreViewChange": "VC",
	}
)

func (ig *ingest) onEffect(e *Effect) {
	ig.effects++
	k := ig.k
	a := ig.a
	ig.gates(e)
	ig.roundRules(e)
	ig.moreGates(e)
	ig.r3Gates(e)
	ig.cacheBookkeeping(e)
	switch {
	case e.Kind == "call" && e.Name == "rawmessagesfilter.HandleConsensusMessage":
		ig.deliver(e)
	case e.Kind == "mapupdate" && e.Name == "rawmessagesfilter.RawMessageFilter.futureCache":
		ig.cacheInsert(e)
	case e.Kind == "mapdelete" && e.Name == "rawmessagesfilter.RawMessageFilter.futureCache":
		ig.cacheDelete(e)
	case e.Kind == "store" && e.Name == "rawmessagesfilter.RawMessageFilter.futureCache":
		if e.Config == "" {
			ev := a.NewEval(e, ig.r)
			ev.Verdict("F3.store", props("C17"), "the cache map itself is never replaced while the filter is live", "", false, "store to futureCache outside the constructor")
		}
	case e.Kind == "call" && storeKind[e.Name] != "" && len(e.Args) == 2:
		m := e.Args[1]
		if e.Config == "" || e.Config == "nv-proven-hash-nonnil" {
			if isNetMsg(m) {
				switch storeKind[e.Name] {
				case "PP":
					ig.ingPP(e, m)
				case "P":
					if e.Config == "" {
						ig.ingP(e, m)
					}
				case "C":
					if e.Config == "" {
						ig.ingC(e, m)
					}
				case "VC":
					if e.Config == "" {
						ig.ingVC(e, m)
					}
				}
			}
		}
		if strings.HasPrefix(e.Config, "vc7-") && storeKind[e.Name] == "VC" && isNetMsg(m) {
			ig.vc7[e.Entry+"|"+e.Config] = e
		}
		if e.Config == "vc-proof-and-block" && storeKind[e.Name] == "VC" && isNetMsg(m) {
			ev := a.NewEval(e, ig.r)
			H := hdr(m)
			ev.Require("VC8", props("C08", "C09", "C11", "C04", "C03", "C05"), "a vote carrying both a proof and a block is stored only if the block matches the proof's hash", "net",
				Truth(Call("interfaces.ValidateBlockCommitment", k.BU, ht(H), blockOf(m), hash(Call("protocol.PreprepareBlockRef", proofOf(H))))))
		}
	case e.Kind == "store" && e.Name == "termincommittee.TermInCommittee.latestViewThatProcessedVCMOrNVM":
		if e.Config == "nv-vote-proof-nonempty" && len(e.Args) == 1 && isNetMsg(e.Args[0]) {
			ev := a.NewEval(e, ig.r)
			for _, b := range ev.Find(Truth(T("istype", "interfaces.NewViewMessage", Var("m")))) {
				if isNetMsg(b["m"]) {
					ig.proofInstanceInNV(ev, Call("protocol.ViewChangeConfirmationsIterator", hdr(b["m"])))
				}
			}
		}
		if e.Config == "" && len(e.Args) == 1 && isNetMsg(e.Args[0]) {
			// NEW_VIEW acceptance or election; told apart by the message type on the path
			ev := a.NewEval(e, ig.r)
			// the once-per-view latch also gates this node's own election: advancing it for a NEW_VIEW that is later
			// rejected would keep an honest leader from ever being elected (liveness)
			ev.ExtraProps = []string{"C05"}
			for _, b := range ev.Find(Truth(T("istype", "interfaces.NewViewMessage", Var("m")))) {
				if isNetMsg(b["m"]) {
					ig.ingNV(e, ev, b["m"])
				}
			}
		}
	}
}

// ---------------------------------------------------------------- FILTER

func (ig *ingest) deliver(e *Effect) {
	if e.Config != "" || len(e.Splits) > 0 {
		return
	}
	k := ig.k
	ev := ig.a.NewEval(e, ig.r)
	m := ev.Arg(1)
	rmf := This("rawmessagesfilter.RawMessageFilter")
	H := hdr(m)
	if e.Entry == idE1 {
		ev.Require("F1.own", props("C08", "C17"), "a delivered message is not the node's own", "net", Ne(mid(snd(m)), Field(rmf, "myMemberId")))
		ev.Require("F1.height", props("C08", "C17"), "a delivered message's height equals the current height (not past, not future)", "net", Eq(ht(H), k.SHeight))
		ev.Require("F1.instance", props("C08", "C17", "C03", "C07", "C01", "C11", "C04"), "a delivered message belongs to this instance", "net", Eq(inst(H), Field(rmf, "instanceId")))
		ev.Require("F1.handler", props("C17"), "delivery only to a non-nil handler", "net", Ne(This("rawmessagesfilter.ConsensusMessagesHandler"), tNil))
		ig.exactHeightFilter(ev, "F1.exact", H)
		// F1.only: whether a message of the current height is delivered depends on the message and on the node's own
		// identity / instance / height only - not on a memory of earlier messages (a "seen before" table keyed by
		// unauthenticated fields lets anybody suppress a genuine message)
		{
			var extra []string
			for _, ct := range e.PathConds() {
				u := unsnap(ct)
				u.Walk(func(x *Term) {
					switch x.Op {
					case "lookup", "haskey":
						extra = append(extra, "a table lookup: "+PP(x))
					case "call":
						// a helper of the filter deciding on the filter's own memory
						if g := ig.a.calleeOf(x); g != nil && strings.HasSuffix(funcPkgPath(g), "services/rawmessagesfilter") {
							locs := map[string]bool{}
							for l := range ig.a.readsOf(g) {
								locs[l] = true
							}
							for l := range ig.a.writes[g] {
								locs[l] = true
							}
							for l := range locs {
								const pfx = "rawmessagesfilter.RawMessageFilter."
								if strings.HasPrefix(l, pfx) {
									switch strings.TrimPrefix(l, pfx) {
									case "myMemberId", "instanceId", "consensusMessagesHandler", "state", "logger":
									default:
										extra = append(extra, shortName(g)+" uses the filter's field "+strings.TrimPrefix(l, pfx))
									}
								}
							}
						}
					case "field":
						if len(x.Args) == 1 && x.Args[0].Key() == rmf.Key() {
							switch x.Name {
							case "myMemberId", "instanceId", "consensusMessagesHandler", "state", "logger":
							default:
								extra = append(extra, "the filter's field "+x.Name)
							}
						}
					}
				})
			}
			extra = dedupSorted(extra)
			ev.Verdict("F1.only", props("C05", "C17", "C08", "C12"), "the delivery of a current-height message depends only on the message itself and on the node's identity, instance and height: the filter keeps no memory of earlier messages that could suppress it", "net", len(extra) == 0, "delivery also depends on "+strings.Join(extra, "; "))
		}
	} else {
		// drained messages: read at the key Read(State.height)
		ok := false
		var found string
		// values read before the delivery call (which may itself advance the height / touch the cache) are frozen: look through
		unfreeze(m).Walk(func(t *Term) {
			if t.Op == "lookup" && len(t.Args) == 2 && t.Args[0].Key() == Field(rmf, "futureCache").Key() {
				found = PP(t.Args[1])
				if ev.Same(t.Args[1], k.SHeight) {
					ok = true
				}
			}
		})
		ev.Verdict("F6.key", props("C17", "C08"), "the drain reads the cache at the key Read(State.height)", "cached", ok, "cache read at key "+found)
	}
}

func (ig *ingest) cacheInsert(e *Effect) {
	if e.Config != "" || len(e.Splits) > 0 {
		return
	}
	k := ig.k
	ev := ig.a.NewEval(e, ig.r)
	rmf := This("rawmessagesfilter.RawMessageFilter")
	key, val := ev.Arg(0), ev.Arg(1)
	// the inserted message: last element of the value
	var m *Term
	switch {
	case val.Op == "append" && len(val.Args) == 2:
		m = val.Args[1]
	case val.Op == "array" && len(val.Args) == 1:
		m = val.Args[0]
	}
	if m == nil {
		ev.Verdict("F4.form", props("C17"), "cache values are built as []{m} or append(old, m) (order preserving)", "net", false, "value form "+val.Key())
		return
	}
	okForm := val.Op == "array" || (val.Args[0].Op == "lookup" && val.Args[0].Args[0].Key() == Field(rmf, "futureCache").Key() && ev.Same(val.Args[0].Args[1], key))
	ev.Verdict("F4.form", props("C17"), "cache values are built as []{m} or append(old[key], m) (order preserving)", "net", okForm, "value form "+val.Key())
	H := hdr(m)
	// what is parked is the received message itself (the value the converter made of the raw bytes), not a rebuilt copy
	// whose fields may differ from what will be delivered on the direct path
	same := m.Op == "call" && strings.HasSuffix(m.Name, "ToConsensusMessage")
	if !same {
		if n := ev.Norm(m); n.Op == "call" && strings.HasSuffix(n.Name, "ToConsensusMessage") {
			same = true
		}
	}
	ev.Verdict("F2.same", props("C17", "C20", "C08"), "the message parked in the future cache is the received message as converted from its raw form (block included), the same value the direct path would have delivered", "net", same, "cached value is "+PP(m))
	ev.Require("F2.own", props("C08", "C17"), "a cached message is not the node's own", "net", Ne(mid(snd(m)), Field(rmf, "myMemberId")))
	ev.Require("F2.instance", props("C08", "C17", "C03", "C07", "C01", "C11", "C04", "C09", "C10"), "a cached message belongs to this instance", "net", Eq(inst(H), Field(rmf, "instanceId")))
	ev.Require("F2.future", props("C08", "C17"), "a cached message is for a future height", "net", Lt(k.SHeight, ht(H)))
	ev.Verdict("F2.key", props("C08", "C17"), "the cache key is the message's own height", "net", ev.Same(key, ht(H)), "key "+key.Key())
	ev.Require("F5.newest", props("C17"), "only the newest future height is cached", "net", Le(Field(rmf, "latestFutureBlockHeight"), key))
	ig.exactHeightFilter(ev, "F2.exact", H)
	ig.cacheInsertExact(ev, key)
}

// exactHeightFilter: on the way to a delivery / cache insertion the message's height is compared with the current
// height only by the specified tests (past: h < H, future: h > H); any other relation between the two would drop
// messages the filter must keep (e.g. only the next height being cacheable).
func (ig *ingest) exactHeightFilter(ev *Eval, rule string, H *Term) {
	k := ig.k
	hk, sk := ht(H).Key(), k.SHeight.Key()
	allowed := map[string]bool{Bin("<", ht(H), k.SHeight).Key(): true, Bin("<", k.SHeight, ht(H)).Key(): true,
		Bin("<=", ht(H), k.SHeight).Key(): true, Bin("<=", k.SHeight, ht(H)).Key(): true}
	var extra []string
	for _, ct := range ev.E.PathConds() {
		unsnap(ct).Walk(func(t *Term) {
			if t.Op != "bin" || len(t.Args) != 2 {
				return
			}
			switch t.Name {
			case "==", "<", "<=":
			default:
				return
			}
			l, r := t.Args[0], t.Args[1]
			if (l.ContainsKey(hk) && r.ContainsKey(sk)) || (l.ContainsKey(sk) && r.ContainsKey(hk)) {
				if !allowed[t.Key()] {
					extra = append(extra, PP(t))
				}
			}
		})
	}
	extra = dedupSorted(extra)
	ev.Verdict(rule, props("C17"), "the message's height is related to the current height only by the past (h < H) and future (h > H) tests of the filter", "net", len(extra) == 0, "extra height comparison on the path: "+strings.Join(extra, ", "))
}

// cacheDelete (F3): deletions are either "clear everything below a bound" or the drained key.
func (ig *ingest) cacheDelete(e *Effect) {
	if e.Config != "" || len(e.Splits) > 0 || len(e.Args) != 2 {
		return
	}
	k := ig.k
	ev := ig.a.NewEval(e, ig.r)
	key := ev.Arg(1)
	ok := false
	why := "deleted key " + PP(key)
	if key.Op == "mapkey" {
		for _, b := range ev.Find(Lt(key, Var("bound"))) {
			_ = b
			ok = true
		}
		why += " without an upper bound test"
	} else if key.Op == "elem" && len(key.Args) == 1 && key.Args[0].Op == "filter" && len(key.Args[0].Args) == 3 && key.Args[0].Args[1].Op == "bound" {
		// the keys were collected first (a filtered copy of the cache's keys): the collecting test must be an upper bound
		g := key.Args[0].Args[2]
		neg := false
		for g.Op == "un" && g.Name == "!" && len(g.Args) == 1 {
			g, neg = g.Args[0], !neg
		}
		b := key.Args[0].Args[1]
		if g.Op == "bin" && len(g.Args) == 2 {
			switch {
			case !neg && g.Name == "<" && g.Args[0].Key() == b.Key(): // k < bound
				ok = true
			case neg && g.Name == "<=" && g.Args[1].Key() == b.Key(): // !(bound <= k)
				ok = true
			}
		}
		why += " collected without an upper bound test"
	} else if ev.Same(key, k.SHeight) || unfreeze(key).Key() == k.SHeight.Key() {
		ok = true // the height as read (possibly earlier in the drain: F6.read / F6.delete tie it to the drain's lookup)
	}
	ev.Verdict("F3.delete", props("C17"), "cache entries are deleted only below a bound (clear-lower) or at the drained key Read(State.height)", "", ok, why)
}

// ---------------------------------------------------------------- ING-PP

func (ig *ingest) ingPP(e *Effect, m *Term) {
	k := ig.k
	ev := ig.a.NewEval(e, ig.r)
	m = ev.Norm(m)
	var C *Term
	if m.Op == "struct" {
		C = Field(m, "content")
	} else {
		C = content(m)
	}
	H := Call("protocol.SignedHeader", C)
	S := Call("protocol.Sender", C)
	embedded := m.Op == "struct"
	kind := "standalone"
	if embedded {
		kind = "embedded"
	}
	if e.Config == "nv-proven-hash-nonnil" {
		if embedded {
			ig.ingPPLocked(e, ev, m, H)
		}
		return
	}
	ev.Require("PP1", props("C08", "C07", safety), "a network proposal is stored only after its signature over its own header verified", kind, k.Verify(H, S))
	ev.Require("PP2", props("C08", "C04", "C07", "C18", safety), "a network proposal is stored only if its sender is the leader of its view", kind, Eq(mid(S), k.LeaderOf(vw(H))))
	ev.Require("PP3", props("C08", safety), "a network proposal's signed header is typed PREPREPARE", kind, Eq(mtype(H), k.ProtoConst("LEAN_HELIX_PREPREPARE")))
	ev.RequireAny("PP4", props("C08", "C10", safety), "no proposal is already stored for (height, view) at the store (kill-aware)", kind,
		[]*Atom{NotA(Truth(Ext(1, Call("interfaces.GetPreprepareMessage", k.ST, ht(H), vw(H)))))},
		[]*Atom{NotA(Truth(Ext(1, Call("interfaces.GetPreprepareFromView", k.ST, ht(H), vw(H)))))})
	ev.Require("PP5", props("C08", "C10"), "a network proposal is stored only when its view equals the current view", kind, Eq(vw(H), k.SView))
	if !embedded {
		ev.Require("PP8", props("C07", safety), "a standalone PREPREPARE is acted upon only in view 0 (views above 0 need a NEW_VIEW)", kind, Eq(vw(H), Const("0")))
		ig.fresh(ev, "PP6", kind, m, H)
	} else {
		// split on "some vote carries a proof": auto case split on the nil test of the chosen vote
		ig.nv14(e, ev, m, H)
	}
}

// fresh: consumer validation of a fresh proposal (ING-PP fresh)
func (ig *ingest) fresh(ev *Eval, rule, kind string, m, H *Term) bool {
	k := ig.k
	pat := ErrNil(Call("interfaces.ValidateBlockProposal", k.BU, Var("ctx"), Var("h"), Var("leader"), Var("block"), Var("hash"), Var("prev")))
	bs := ev.Find(pat)
	ok := false
	missing := "no ValidateBlockProposal(...) == nil fact"
	var guards []string
	for _, b := range bs {
		miss := []string{}
		if !ev.Same(b["h"], ht(H)) {
			miss = append(miss, "height argument is "+b["h"].Key())
		}
		if !ev.Same(b["leader"], k.LeaderOf(vw(H))) {
			miss = append(miss, "member argument is not LeaderOf(view): "+b["leader"].Key())
		}
		if !ev.Same(b["block"], blockOf(m)) {
			miss = append(miss, "block argument is "+b["block"].Key())
		}
		if !ev.Same(b["hash"], hash(H)) {
			miss = append(miss, "hash argument is not the header's hash: "+b["hash"].Key())
		}
		// ctx provenance and liveness
		ctxOK := false
		if b["ctx"].Op == "ext" && b["ctx"].Name == "0" && b["ctx"].Args[0].Op == "call" && b["ctx"].Args[0].Name == "state.For" {
			hv := b["ctx"].Args[0].Args[1]
			if ev.Same(Field(hv, "height"), ht(H)) && ev.Same(Field(hv, "view"), vw(H)) {
				ctxOK = true
			}
		}
		if !ctxOK {
			miss = append(miss, "context is not Contexts.For((height,view) of the proposal): "+b["ctx"].Key())
		}
		if ev.Has(ErrNil(Call("context.Err", b["ctx"]))) == nil {
			miss = append(miss, "no ctx.Err()==nil re-check after validation")
		}
		if len(miss) == 0 {
			ok = true
			if h := ev.Has(ErrNil(Call("interfaces.ValidateBlockProposal", k.BU, b["ctx"], b["h"], b["leader"], b["block"], b["hash"], b["prev"]))); h != nil {
				guards = append(guards, h.Site)
			}
			break
		}
		missing = strings.Join(miss, "; ")
	}
	ev.Verdict(rule, props("C04", "C07", "C15", "C11", "C03", "C01"), "a fresh proposal is stored only after ValidateBlockProposal(ctx of (h,v), h, LeaderOf(v), its block, its hash) succeeded and ctx is still live", kind, ok, missing, guards...)
	return ok
}

func (ig *ingest) chosenVote(ev *Eval) *Term {
	// the vote selected by the follower: any call term whose nil-test is a case split on this path
	for _, s := range ev.E.Splits {
		_ = s
	}
	for _, b := range ev.Find(Ne(Var("v"), tNil)) {
		v := b["v"]
		if v.Op == "call" && strings.Contains(v.Name, "termincommittee.") && strings.Contains(v.Key(), "ViewChangeConfirmationsIterator") {
			return v
		}
	}
	return nil
}

func (ig *ingest) nv14(e *Effect, ev *Eval, m, H *Term) {
	k := ig.k
	vote := ig.chosenVote(ev)
	if vote == nil {
		// no vote with a proof on this path (or the path does not split): the proposal must be validated as fresh
		// the path must positively know that no vote was chosen
		none := false
		for _, b := range ev.Find(Eq(Var("v"), tNil)) {
			v := b["v"]
			if v.Op == "call" && strings.Contains(v.Name, "termincommittee.") && strings.Contains(v.Key(), "ViewChangeConfirmationsIterator") {
				none = true
			}
		}
		if none {
			ig.fresh(ev, "NV14.fresh", "embedded", m, H)
		} else {
			ev.Verdict("NV14.split", props("C07", "C04"), "NEW_VIEW proposal handling splits on whether a vote carries a proof", "embedded", false, "neither a chosen vote nor its absence is known at the store")
		}
		return
	}
	vh := Call("protocol.SignedHeader", vote)
	ev.Require("NV8.chosen", props("C07", "C04", safety), "the chosen (highest-proof) vote's signature over its own header verified", "embedded", k.Verify(vh, Call("protocol.Sender", vote)))
	ig.requireProofValid(ev, "NV9.chosen", props("C07", "C04", safety), "embedded", k.SHeight, vw(H), proofOf(vh), vw(vh))
}

func (ig *ingest) ingPPLocked(e *Effect, ev *Eval, m, H *Term) {
	k := ig.k
	vote := ig.chosenVote(ev)
	if vote == nil {
		return
	}
	blk := Field(m, "block")
	if blk.Op != "field" || len(blk.Args) != 1 {
		ev.Verdict("PP7.commitment", props("C03", "C04", "C07", safety), "a locked re-proposal's block satisfies the proven hash", "embedded", false, "cannot identify the enclosing NEW_VIEW of "+PP(m))
		return
	}
	nvH := hdr(blk.Args[0])
	ph := hash(Call("protocol.PreprepareBlockRef", Call("protocol.PreparedProof", Call("protocol.SignedHeader", vote))))
	ev.Require("PP7.commitment", props("C03", "C04", "C07", safety), "a locked re-proposal's block satisfies the proven hash", "embedded",
		Truth(Call("interfaces.ValidateBlockCommitment", k.BU, ht(nvH), blockOf(m), ph)))
	ev.Require("PP7.hash", props("C03", "C04", "C07", safety), "a locked re-proposal's header hash equals the proven hash", "embedded", Eq(ph, hash(H)))
}

// ---------------------------------------------------------------- ING-P / ING-C / ING-VC

func (ig *ingest) ingP(e *Effect, m *Term) {
	k := ig.k
	ev := ig.a.NewEval(e, ig.r)
	H, S := hdr(m), snd(m)
	ev.Require("P1", props("C08", "C10", safety), "a network PREPARE is stored only after its signature over its own header verified", "net", k.Verify(H, S))
	ev.Require("P2", props("C08", "C11", "C10", safety), "a network PREPARE is stored only if its sender is a committee member", "net", k.Member(mid(S)))
	ev.Require("P3", props("C08", "C11", "C10", safety), "a network PREPARE's signed header is typed PREPARE", "net", Eq(mtype(H), k.ProtoConst("LEAN_HELIX_PREPARE")))
	ev.Require("P4", props("C08"), "a PREPARE from a view below the current one is ignored", "net", Le(k.SView, vw(H)))
	ev.Require("P5", props("C08", "C11", "C05", "C09", "C18"), "a PREPARE from the leader of its view is ignored", "net", Ne(mid(S), k.LeaderOf(vw(H))))
	ig.exactStaleness(ev, "L7.P", H, []string{Le(k.SView, vw(H)).Key()})
}

func (ig *ingest) ingC(e *Effect, m *Term) {
	k := ig.k
	ev := ig.a.NewEval(e, ig.r)
	H, S := hdr(m), snd(m)
	ev.Require("C1", props("C08", "C03", safety), "a network COMMIT is stored only after its signature over its own header verified", "net", k.Verify(H, S))
	ev.Require("C2", props("C08", "C03", safety), "a network COMMIT is stored only if its sender is a committee member", "net", k.Member(mid(S)))
	ev.Require("C3", props("C08", "C03", safety), "a network COMMIT's signed header is typed COMMIT", "net", Eq(mtype(H), k.ProtoConst("LEAN_HELIX_COMMIT")))
	// random seed share
	pat := ErrNil(Call("interfaces.VerifyRandomSeed", k.KM, Var("h"), Var("seed"), Var("sig")))
	ok := false
	missing := "no VerifyRandomSeed(...) == nil fact"
	for _, b := range ev.Find(pat) {
		miss := []string{}
		if !ev.Same(b["h"], ht(H)) {
			miss = append(miss, "height "+b["h"].Key())
		}
		sig := b["sig"]
		wantSig := Call("protocol.Build", Struct("protocol.SenderSignatureBuilder", []string{"MemberId", "Signature"}, []*Term{mid(S), Call("protocol.Share", content(m))}))
		if !ev.Same(sig, wantSig) {
			miss = append(miss, "signature is not {sender id, share}: "+sig.Key())
		}
		if !strings.Contains(b["seed"].Key(), "field:randomSeed(") {
			miss = append(miss, "seed bytes not derived from the term's random seed: "+b["seed"].Key())
		}
		if len(miss) == 0 {
			ok = true
			break
		}
		missing = strings.Join(miss, "; ")
	}
	ev.Verdict("C4", props("C08", "C03"), "a network COMMIT is stored only with a verified random-seed share of its sender", "net", ok, missing)
	// must-not: no staleness test on commits
	ig.exactStaleness(ev, "C5", H, nil)
}

// exactStaleness: the only comparisons between the message view and the current view on the path are the allowed ones.
func (ig *ingest) exactStaleness(ev *Eval, rule string, H *Term, allowed []string) {
	k := ig.k
	vk, sk := vw(H).Key(), k.SView.Key()
	var extra []string
	// a conjunction known as a whole (a validation helper's verdict) is judged conjunct by conjunct
	var leaves func(f *Atom, out *[]*Atom)
	leaves = func(f *Atom, out *[]*Atom) {
		if f.Pred == "truth" && len(f.Args) == 1 && ((f.Args[0].Op == "and" && !f.Neg) || (f.Args[0].Op == "or" && f.Neg)) {
			for _, x := range f.Args[0].Args {
				c := atomOf(x, f.Site)
				if c == nil {
					*out = append(*out, f)
					return
				}
				if f.Neg {
					c = c.Negate()
				}
				leaves(c, out)
			}
			return
		}
		*out = append(*out, f)
	}
	var flat []*Atom
	for _, key := range ev.facts.SortedKeys() {
		leaves(ev.facts[key], &flat)
	}
	seenLeaf := map[string]bool{}
	for _, f := range flat {
		// a (possibly stale) snapshot of the current view counts as the current view here
		ua := make([]*Term, len(f.Args))
		for i, t := range f.Args {
			ua[i] = unsnap(t)
		}
		f = (&Atom{Pred: f.Pred, Args: ua, Neg: f.Neg, Site: f.Site}).Subst(nil)
		key := f.Key()
		if seenLeaf[key] {
			continue
		}
		seenLeaf[key] = true
		if f.Pred != "eq" && f.Pred != "lt" && f.Pred != "le" && f.Pred != "truth" {
			continue
		}
		// any fact that relates the message's view to the current view (directly or inside a compound condition)
		if !(strings.Contains(key, vk) && strings.Contains(key, sk)) {
			continue
		}
		if f.Pred != "truth" {
			if len(f.Args) != 2 {
				continue
			}
			a0, a1 := f.Args[0].Key(), f.Args[1].Key()
			if !((a0 == vk && a1 == sk) || (a0 == sk && a1 == vk)) {
				continue
			}
		} else if !f.Args[0].Contains(func(t *Term) bool {
			return t.Op == "bin" && len(t.Args) == 2 && ((t.Args[0].Key() == vk && t.Args[1].Key() == sk) || (t.Args[0].Key() == sk && t.Args[1].Key() == vk))
		}) {
			continue
		}
		isAllowed := false
		for _, al := range allowed {
			if al == key {
				isAllowed = true
			}
		}
		if !isAllowed {
			extra = append(extra, key)
		}
	}
	// conditions tested anywhere on the way to the store (a nested or disjunctive test leaves no must-fact behind)
	allowedCond := map[string]bool{Bin("<", vw(H), k.SView).Key(): true, Bin("<=", k.SView, vw(H)).Key(): true, Bin("==", vw(H), k.SView).Key(): true}
	if len(allowed) == 0 {
		allowedCond = map[string]bool{}
	}
	for _, ct := range ev.E.PathConds() {
		// a comparison with a snapshot of the current view is a comparison with the current view
		unsnap(ct).Walk(func(t *Term) {
			if t.Op == "bin" && len(t.Args) == 2 && ((t.Args[0].Key() == vk && t.Args[1].Key() == sk) || (t.Args[0].Key() == sk && t.Args[1].Key() == vk)) {
				if !allowedCond[t.Key()] {
					extra = append(extra, "condition "+PP(t))
				}
			}
		})
	}
	extra = dedupSorted(extra)
	text := "no comparison between the message's view and the current view beyond the specified staleness test (liveness: nothing more is dropped)"
	ev.Verdict(rule, props("C05", "C11"), text, "net", len(extra) == 0, "extra view comparison on the store path: "+strings.Join(extra, ", "))
}

func (ig *ingest) ingVC(e *Effect, m *Term) {
	k := ig.k
	ev := ig.a.NewEval(e, ig.r)
	H, S := hdr(m), snd(m)
	ev.Require("VC1", props("C08"), "a VIEW_CHANGE is stored only by the leader of its view", "net", Eq(k.MyId, k.LeaderOf(vw(H))))
	ev.Require("VC2", props("C08"), "a VIEW_CHANGE for a view below the current one is ignored", "net", Le(k.SView, vw(H)))
	ev.Require("VC3", props("C08", safety), "a VIEW_CHANGE is stored only after its signature over its own header verified", "net", k.Verify(H, S))
	ev.Require("VC4", props("C08", safety), "a VIEW_CHANGE is stored only if its sender is a committee member", "net", k.Member(mid(S)))
	ev.Require("VC5", props("C08", safety), "a VIEW_CHANGE's signed header is typed VIEW_CHANGE", "net", Eq(mtype(H), k.ProtoConst("LEAN_HELIX_VIEW_CHANGE")))
	ig.requireProofValid(ev, "VC6", props("C08", "C09", "C11", safety), "net", k.SHeight, vw(H), proofOf(H))
	ig.exactStaleness(ev, "L7.VC", H, []string{Le(k.SView, vw(H)).Key()})
}

// requireProofValid: Truth(ValidatePreparedProof(height, view, proof, km, Cmt, LeaderOf-closure))
func (ig *ingest) requireProofValid(ev *Eval, rule string, pr []string, kind string, h, v, proof *Term, altViews ...*Term) bool {
	k := ig.k
	pat := Truth(Call("proofsvalidator.ValidatePreparedProof", Var("h"), Var("v"), Var("p"), Var("km"), Var("cmt"), Var("leader")))
	ok := false
	missing := "no ValidatePreparedProof(...) fact"
	var guards []string
	for _, b := range ev.Find(pat) {
		if !ev.Same(b["p"], proof) {
			continue
		}
		miss := []string{}
		if !ev.Same(b["h"], h) {
			miss = append(miss, "target height is "+b["h"].Key())
		}
		vok := ev.Same(b["v"], v)
		for _, av := range altViews {
			if ev.Same(b["v"], av) {
				vok = true
			}
		}
		if !vok {
			miss = append(miss, "target view is "+PP(b["v"]))
		}
		if !ev.Same(b["cmt"], k.Cmt) {
			miss = append(miss, "committee is "+b["cmt"].Key())
		}
		if !ig.isLeaderClosure(b["leader"]) {
			miss = append(miss, "leader function is not LeaderOf: "+b["leader"].Key())
		}
		if len(miss) == 0 {
			ok = true
			if hh := ev.Has(Truth(Call("proofsvalidator.ValidatePreparedProof", b["h"], b["v"], b["p"], b["km"], b["cmt"], b["leader"]))); hh != nil {
				guards = append(guards, hh.Site)
			}
			break
		}
		missing = strings.Join(miss, "; ")
	}
	return ev.Verdict(rule, pr, "the prepared proof passed ValidatePreparedProof(current height, vote's view, proof, key manager, the term's committee, LeaderOf)", kind, ok, missing, guards...)
}

// isLeaderClosure: a closure/func term whose body returns LeaderOf(param)
func (ig *ingest) isLeaderClosure(t *Term) bool {
	if t.Op != "closure" && t.Op != "func" {
		return false
	}
	f := ig.a.P.FuncByID[t.Name]
	if f == nil || len(f.Params) != 1 {
		return false
	}
	c := ig.a.NewFCtx(f, nil, 0)
	v := T("param", "view")
	got := c.staticCall(f, []*Term{v}, t.Args)
	return got.Key() == ig.k.LeaderOf(v).Key()
}

// ---------------------------------------------------------------- ING-NV

func (ig *ingest) ingNV(e *Effect, ev *Eval, m *Term) {
	k := ig.k
	H, S := hdr(m), snd(m)
	P := Call("protocol.Message", content(m))
	PH := Call("protocol.SignedHeader", P)
	votes := Call("protocol.ViewChangeConfirmationsIterator", H)
	ev.Require("NV1", props("C07", "C08", "C10"), "a NEW_VIEW for a view below the current one is ignored", "net", Le(k.SView, vw(H)))
	ev.Require("NV2", props("C07", "C12", safety), "a NEW_VIEW is accepted only after its signature over its own header verified", "net", k.Verify(H, S))
	ev.Require("NV3", props("C07", "C12", "C18", safety), "a NEW_VIEW is accepted only from the leader of its view", "net", Eq(mid(S), k.LeaderOf(vw(H))))
	ev.Require("NV4", props("C07", "C08", safety), "a NEW_VIEW's signed header is typed NEW_VIEW", "net", Eq(mtype(H), k.ProtoConst("LEAN_HELIX_NEW_VIEW")))
	vs := Call("protocol.Sender", bound)
	vh := Call("protocol.SignedHeader", bound)
	ev.Require("NV5", props("C07", "C12", safety), "the embedded votes' senders reach quorum weight in the term's committee", "net", k.Quorum(T("map", "", votes, mid(vs))))
	ev.Require("NV6", props("C07", safety), "every embedded vote is for the NEW_VIEW's height and view", "net",
		ForAll(votes, Eq(ht(vh), ht(H))), ForAll(votes, Eq(vw(vh), vw(H))))
	ev.Require("NV7", props("C07", safety), "embedded votes come from pairwise distinct senders", "net", Unique(votes, mid(vs)))
	ev.Require("NV8", props("C07", "C04", safety), "every embedded vote's signature over its own header verified", "net", ForAll(votes, k.Verify(vh, vs)))
	// NV9: every vote's proof validated
	ok9 := false
	for _, b := range ev.Find(ForAll(votes, Truth(Call("proofsvalidator.ValidatePreparedProof", Var("h"), Var("v"), Call("protocol.PreparedProof", vh), Var("km"), Var("cmt"), Var("leader"))))) {
		if ev.Same(b["h"], k.SHeight) && (ev.Same(b["v"], vw(H)) || ev.Same(b["v"], vw(vh))) && ev.Same(b["cmt"], k.Cmt) && ig.isLeaderClosure(b["leader"]) {
			ok9 = true
		}
	}
	ev.Verdict("NV9", props("C07", "C04", safety), "every embedded vote's prepared proof passes ValidatePreparedProof", "net", ok9, "no forall(votes, ValidatePreparedProof(height, view, vote.proof, km, Cmt, LeaderOf))")
	ev.Require("NV10", props("C07", "C08"), "every embedded vote's sender is a committee member", "net", ForAll(votes, k.Member(mid(vs))))
	ev.Require("NV11.type", props("C07", "C08"), "every embedded vote's signed header is typed VIEW_CHANGE", "net", ForAll(votes, Eq(mtype(vh), k.ProtoConst("LEAN_HELIX_VIEW_CHANGE"))))
	ev.Require("NV11.instance", props("C07", "C08"), "every embedded vote belongs to the NEW_VIEW's instance", "net", ForAll(votes, Eq(inst(vh), inst(H))))
	ev.Require("NV12.view", props("C07", "C08", "C11"), "the embedded proposal is for the NEW_VIEW's view", "net", Eq(vw(PH), vw(H)))
	ev.Require("NV12.height", props("C07", "C08", "C11"), "the embedded proposal is for the NEW_VIEW's height", "net", Eq(ht(PH), ht(H)))
	ev.Require("NV12.instance", props("C07", "C08", "C11"), "the embedded proposal belongs to the NEW_VIEW's instance", "net", Eq(inst(PH), inst(H)))
}

// ---------------------------------------------------------------- PROOF: Succ(ValidatePreparedProof) for a non-empty proof

const idProof = "services/proofsvalidator.ValidatePreparedProof"

func runProof(a *Analyzer, r *Results) {
	fn := a.P.Func(idProof)
	if len(fn.Params) != 6 {
		broken("unresolved anchor: ValidatePreparedProof no longer has 6 parameters")
	}
	roots := map[string]*Term{}
	names := []string{"targetHeight", "targetView", "proof", "km", "committee", "leaderOf"}
	for i, p := range fn.Params {
		roots[p.Name()] = Root(names[i])
	}
	th, tv, proof, cmt := Root("targetHeight"), Root("targetView"), Root("proof"), Root("committee")
	km := This("interfaces.KeyManager")
	leader := func(v *Term) *Term { return T("calldyn", "", Root("leaderOf"), v) }
	ppRef := Call("protocol.PreprepareBlockRef", proof)
	pRef := Call("protocol.PrepareBlockRef", proof)
	ppSender := Call("protocol.PreprepareSender", proof)
	senders := Call("protocol.PrepareSendersIterator", proof)
	verify := func(ref, s *Term) *Atom {
		return ErrNil(Call("interfaces.VerifyConsensusMessage", km, ht(ref), raw(ref), s))
	}
	pr := props("C08", "C11", "C01", "C07", "C04", "C09", "C05", "C12")
	nTrue := 0
	w := a.NewWalker(func(e *Effect) {
		if e.Kind != "return" || len(e.Args) != 1 {
			return
		}
		ev := a.NewEval(e, r)
		if e.Args[0].Key() == tFalse.Key() {
			return
		}
		nTrue++
		if e.Args[0].Key() != tTrue.Key() {
			// the verdict is delegated: the proof is accepted exactly when the returned expression is true
			ev.Assume(Truth(e.Args[0]))
		}
		ev.Require("PR1", pr, "all four parts of the proof are present", "nonempty", Ne(ppSender, tNil), Ne(ppRef, tNil), Ne(pRef, tNil))
		ev.Require("PR2", pr, "the proof is for the target height", "nonempty", Eq(ht(ppRef), th))
		ev.Require("PR3", pr, "the proof's view is below the target view", "nonempty", Lt(vw(ppRef), tv))
		ev.Require("PR4", pr, "prepare senders plus the proposer reach quorum weight in the given committee", "nonempty",
			Truth(Ext(0, Call("quorum.IsQuorum", T("append", "", T("map", "", senders, mid(bound)), mid(ppSender)), cmt))))
		ev.Require("PR5", pr, "the proposer's signature over the PREPREPARE reference verifies", "nonempty", verify(ppRef, ppSender))
		ev.Require("PR6", pr, "the proposer is the leader of the proof's view", "nonempty", Eq(mid(ppSender), leader(vw(ppRef))))
		ev.Require("PR7", pr, "both references name the same block hash", "nonempty", Eq(hash(pRef), hash(ppRef)))
		ev.Require("PR8", pr, "both references name the same height", "nonempty", Eq(ht(pRef), ht(ppRef)))
		ev.Require("PR9", pr, "both references name the same view", "nonempty", Eq(vw(pRef), vw(ppRef)))
		ev.Require("PR10", pr, "every prepare sender's signature over the PREPARE reference verifies", "nonempty", ForAll(senders, verify(pRef, bound)))
		ev.Require("PR11", pr, "no prepare sender is the proposer", "nonempty", ForAll(senders, Ne(mid(bound), mid(ppSender))))
		ev.Require("PR12", pr, "every prepare sender is a member of the given committee", "nonempty", ForAll(senders, Truth(Call("proofsvalidator.IsInMembers", cmt, mid(bound)))))
		ev.Require("PR13", pr, "prepare senders are pairwise distinct", "nonempty", Unique(senders, mid(bound)))
		k := a.Anchors()
		ev.Require("PR14", props("C08", "C01"), "the references are typed PREPREPARE and PREPARE", "nonempty",
			Eq(mtype(ppRef), k.ProtoConst("LEAN_HELIX_PREPREPARE")), Eq(mtype(pRef), k.ProtoConst("LEAN_HELIX_PREPARE")))
		ev.Require("PR15", props("C08", "C07", "C04", safety), "both references belong to the same instance", "nonempty", Eq(inst(ppRef), inst(pRef)))
	})
	w.AutoSplit = true
	w.Config = "proof-nonempty"
	w.Assume = []*Atom{Ne(proof, tNil), Lt(Const("0"), Len(raw(proof)))}
	w.Run(fn, roots, nil)
	for _, u := range w.Undecided {
		r.Undecided = append(r.Undecided, idProof+": "+u)
	}
	if nTrue == 0 {
		r.Undecided = append(r.Undecided, "ValidatePreparedProof has no accepting return for a non-empty proof")
	}
}


// unfreeze removes the pre(...) wrappers (values read before a call that may write them).
// unsnap strips the snapshot wrappers (pre:<def>!snap) and keeps the other frozen reads.
func unsnap(t *Term) *Term {
	if t.Op == "pre" && strings.HasSuffix(t.Name, "!snap") && len(t.Args) == 1 {
		return unsnap(t.Args[0])
	}
	if len(t.Args) == 0 {
		return t
	}
	changed := false
	na := make([]*Term, len(t.Args))
	for i, a := range t.Args {
		na[i] = unsnap(a)
		if na[i] != a {
			changed = true
		}
	}
	if !changed {
		return t
	}
	return rebuild(t, na)
}

func unfreeze(t *Term) *Term {
	if t.Op == "pre" && len(t.Args) == 1 {
		return unfreeze(t.Args[0])
	}
	if len(t.Args) == 0 {
		return t
	}
	na := make([]*Term, len(t.Args))
	for i, a := range t.Args {
		na[i] = unfreeze(a)
	}
	return rebuild(t, na)
}
