package main

import (
	"strings"
)

// GATES (C01), lock carrying (C09), signing discipline (C10), context provenance (C15) at effects met on the
// message / election / sync paths. Called from ingest.onEffect for the base configuration.

func pathHas(e *Effect, fn string) bool {
	for _, f := range e.Path {
		if strings.Contains(f.Fn, fn) {
			return true
		}
	}
	return false
}

func (ig *ingest) gates(e *Effect) {
	if e.Config != "" {
		return
	}
	k := ig.k
	a := ig.a
	switch {
	// ------------------------------------------------ commit callback (G1..G4, C15 umbrella ctx)
	case e.Kind == "call" && e.VType == "termincommittee.OnInCommitteeCommitCallback":
		ev := a.NewEval(e, ig.r)
		if len(e.Args) != 3 {
			ev.Verdict("G0", props("C01"), "the commit callback takes (ctx, block, commits)", "", false, "unexpected arity")
			return
		}
		ctx, blk, commits := ev.Arg(0), ev.Arg(1), ev.Arg(2)
		b := map[string]*Term{}
		pat := Ext(0, Call("interfaces.GetCommitMessages", k.ST, Var("h"), Var("v"), Var("x")))
		if !Match(pat, commits, b) {
			ev.Verdict("G4.commits", props("C01", "C03"), "the commits handed to the commit callback are GetCommitMessages(h, v, hash) of one key", "", false, "commits argument is "+PP(commits))
			return
		}
		h, v, x := b["h"], b["v"], b["x"]
		ev.Verdict("G4.commits", props("C01", "C03"), "the commits handed to the commit callback are GetCommitMessages(h, v, hash) of one key", "", true, "")
		ppm := Ext(0, Call("interfaces.GetPreprepareMessage", k.ST, h, v))
		okPpm := Truth(Ext(1, Call("interfaces.GetPreprepareMessage", k.ST, h, v)))
		ev.Require("G1", props("C01", "C03", "C04", "C12"), "commit only with a stored proposal for (h,v) that carries a block and whose header hash equals the committed hash", "",
			okPpm, Ne(Field(ppm, "block"), tNil), Eq(hash(hdr(ppm)), x))
		ev.Require("G2", props("C01", "C03"), "commit only under a quorum of stored COMMIT senders for exactly (h, v, hash)", "",
			k.Quorum(Call("interfaces.GetCommitSendersIds", k.ST, h, v, x)), Truth(Ext(1, Call("interfaces.GetCommitMessages", k.ST, h, v, x))))
		ev.Verdict("G4.block", props("C01", "C03", "C04"), "the block handed to the commit callback is the block of the stored proposal for (h,v)", "", ev.Same(blk, Field(ppm, "block")), "block argument is "+PP(blk))
		latchMissing := false
		for _, f := range k.MissingLatch {
			if f == "committedBlock" {
				latchMissing = true
			}
		}
		if latchMissing {
			ev.Verdict("G3.set", props("C01", "C13"), "the once-per-term commit latch is set (to the delivered block) before the callback runs", "", false, "the term has no commit latch field (committedBlock): nothing makes the commit callback once-per-term")
		} else {
			ev.Require("G3.set", props("C01", "C13"), "the once-per-term commit latch is set (to the delivered block) before the callback runs", "", Eq(Field(k.TIC, "committedBlock"), blk))
		}
		ig.ctxProvenance(ev, "K6.commit", ctx, h, Const("18446744073709551615"))
	case e.Kind == "store" && e.Name == "termincommittee.TermInCommittee.committedBlock":
		ev := a.NewEval(e, ig.r)
		if pathHas(e, "NewTermInCommittee") && !pathHas(e, "checkCommitted") && ev.Arg(0).Key() == tNil.Key() {
			return
		}
		ev.Require("G3.latch", props("C01", "C13"), "the commit latch is written only while it is still nil, and with a non-nil block", "", Eq(Field(k.TIC, "committedBlock"), tNil), Ne(ev.Arg(0), tNil))

	// ------------------------------------------------ COMMIT creation (G5 / S4)
	case e.Kind == "call" && e.Name == "messagesfactory.CreateCommitMessage" && len(e.Args) == 4:
		ev := a.NewEval(e, ig.r)
		h, v, x := ev.Arg(1), ev.Arg(2), ev.Arg(3)
		ppm := Ext(0, Call("interfaces.GetPreprepareMessage", k.ST, h, v))
		stored := []*Atom{Truth(Ext(1, Call("interfaces.GetPreprepareMessage", k.ST, h, v))), Ne(Field(ppm, "block"), tNil), Eq(hash(hdr(ppm)), x)}
		prepared := append(append([]*Atom{}, stored...), k.Quorum(T("append", "", Call("interfaces.GetPrepareSendersIds", k.ST, h, v, x), mid(snd(ppm)))))
		committed := append(append([]*Atom{}, stored...), k.Quorum(Call("interfaces.GetCommitSendersIds", k.ST, h, v, x)))
		ev.RequireAny("S4", props("C10", "C01"), "a COMMIT for (h, v, hash) is signed only with a stored proposal of that key and either a prepared certificate (prepare senders + proposer reach quorum) or a commit quorum for exactly that key", "", prepared, committed)
	case e.Kind == "store" && e.Name == "termincommittee.TermInCommittee.preparedLocally":
		ev := a.NewEval(e, ig.r)
		val := ev.Arg(0)
		if val.Key() == tNil.Key() {
			return // reset at term start
		}
		lv := Field(val, "latestView")
		ok := false
		for _, b := range ev.Find(k.Quorum(T("append", "", Call("interfaces.GetPrepareSendersIds", k.ST, Var("h"), Var("v"), Var("x")), Var("p")))) {
			if ev.Same(b["v"], lv) && ev.Same(b["p"], mid(snd(Ext(0, Call("interfaces.GetPreprepareMessage", k.ST, b["h"], b["v"]))))) &&
				ev.Has(Truth(Ext(1, Call("interfaces.GetPreprepareMessage", k.ST, b["h"], b["v"])))) != nil {
				ok = true
			}
		}
		ev.Verdict("G5", props("C01", "C10"), "the prepared latch is set for view v only with a stored proposal of v and a quorum of (prepare senders of that proposal's hash + its proposer)", "", ok, "no prepared certificate for view "+PP(lv))

	// ------------------------------------------------ quorum calls use the term's committee (G7)
	case e.Kind == "call" && (e.Name == "quorum.IsQuorum" || e.Name == "quorum.HasHonest") && len(e.Args) == 2:
		if pathHas(e, "termincommittee") || pathHas(e, "preparedmessages") {
			ev := a.NewEval(e, ig.r)
			// L5.own, anchored at the quorum test as well: the voters may have been collected by a pure helper, in which case
			// the storage read is not an effect of its own
			if e.Name == "quorum.IsQuorum" && pathHas(e, "termincommittee") {
				var rd *Term
				ev.Arg(0).Walk(func(x *Term) {
					if rd == nil && x.Op == "call" && x.Name == "interfaces.GetPrepareSendersIds" && len(x.Args) == 4 {
						rd = x
					}
				})
				if rd != nil {
					own := Call("messagesfactory.CreatePrepareMessage", k.MF, unfreeze(rd.Args[1]), unfreeze(rd.Args[2]), unfreeze(rd.Args[3]))
					if ev.Has(Done(own)) != nil {
						ev.Require("L5.own", props("C05", "C10"), "when the node has signed its own PREPARE for (h, v, hash) it is stored before the prepared quorum for that key is evaluated (otherwise its own weight is never counted and a timely view cannot complete)", "", Done(Call("interfaces.StorePrepare", k.ST, own)))
					}
				}
			}
			ev.Verdict("G7", props("C01"), "every quorum test inside the term is evaluated against the term's own committee (never a message-derived list)", "", ev.Same(ev.Arg(1), k.Cmt), "committee argument is "+PP(ev.Arg(1)))
		}

	// ------------------------------------------------ PREPARE creation (S1)
	case e.Kind == "call" && e.Name == "messagesfactory.CreatePrepareMessage" && len(e.Args) == 4:
		ev := a.NewEval(e, ig.r)
		b := map[string]*Term{}
		if !Match(Call("protocol.BlockHeight", Var("H")), ev.Arg(1), b) {
			ev.Verdict("S1", props("C10", "C04"), "a PREPARE is signed only for the (height, view, hash) of one network proposal header", "", false, "height argument is "+PP(ev.Arg(1)))
			return
		}
		H := b["H"]
		okArgs := ev.Same(ev.Arg(2), vw(H)) && ev.Same(ev.Arg(3), hash(H)) && H.Op == "call" && H.Name == "protocol.SignedHeader" && isNetMsgContent(H.Args[0])
		ev.Verdict("S1", props("C10", "C04"), "a PREPARE is signed only for the (height, view, hash) of one network proposal header", "", okArgs, "arguments "+PP(ev.Arg(1))+", "+PP(ev.Arg(2))+", "+PP(ev.Arg(3)))
		if okArgs {
			S := Call("protocol.Sender", H.Args[0])
			ev.Require("S1.guards", props("C10", "C04", "C01"), "a PREPARE is signed only for a proposal whose signature verified, whose sender leads its view, whose view is the current view, and while no proposal is stored for (h,v)", "",
				k.Verify(H, S), Eq(mid(S), k.LeaderOf(vw(H))), Eq(vw(H), k.SView), NotA(Truth(Ext(1, Call("interfaces.GetPreprepareMessage", k.ST, ht(H), vw(H))))))
		}

	// ------------------------------------------------ own PREPARE is in the log before the prepared test (L5.own)
	case e.Kind == "call" && e.Name == "interfaces.GetPrepareSendersIds" && len(e.Args) == 4:
		ev := a.NewEval(e, ig.r)
		h, v, x := ev.Arg(1), ev.Arg(2), ev.Arg(3)
		own := Call("messagesfactory.CreatePrepareMessage", k.MF, h, v, x)
		if ev.Has(Done(own)) != nil {
			ev.Require("L5.own", props("C05", "C10"), "when the node has signed its own PREPARE for (h, v, hash) it is stored before the prepared quorum for that key is evaluated (otherwise its own weight is never counted and a timely view cannot complete)", "", Done(Call("interfaces.StorePrepare", k.ST, own)))
		}

	// ------------------------------------------------ sends (S1.store-before-send, K8)
	case e.Kind == "call" && e.Name == "interfaces.SendConsensusMessage" && len(e.Args) == 4:
		ev := a.NewEval(e, ig.r)
		raw := ev.Arg(3)
		var msg *Term
		if raw.Op == "call" && raw.Name == "interfaces.CreateConsensusRawMessage" && len(raw.Args) == 1 {
			msg = raw.Args[0]
		}
		if msg == nil {
			ev.Verdict("S0.send", props("C10"), "every send goes through CreateConsensusRawMessage of a factory-built message", "", false, "message argument is "+PP(raw))
			return
		}
		// what goes on the wire is the factory's message itself: a copy re-wrapped on the way (a block dropped, a
		// content swapped) is not what the node signed and stored
		ev.Verdict("S0.factory", props("C09", "C10", "C11"), "the message sent is the value a MessageFactory constructor returned, unaltered", "",
			msg.Op == "call" && strings.HasPrefix(msg.Name, "messagesfactory.Create"), "the sent message is "+PP(msg))
		switch {
		case msg.Op == "call" && msg.Name == "messagesfactory.CreateViewChangeMessage" && len(msg.Args) == 4:
			rcpt := ev.Arg(2)
			want := T("array", "", k.LeaderOf(msg.Args[2]))
			ev.Verdict("L2.rcpt", props("C05", "C09", "C18"), "a VIEW_CHANGE for view v is sent to exactly the leader of v", "", ev.Same(rcpt, want), "recipients "+PP(rcpt))
			ev.Require("L2.notleader", props("C05", "C09", "C18"), "the vote is sent over the network only when this node is not itself the leader of the new view", "", Ne(k.LeaderOf(msg.Args[2]), k.MyId))
		case msg.Op == "call" && msg.Name == "messagesfactory.CreatePrepareMessage":
			// the proposal it answers was stored first
			ok := false
			for _, b := range ev.Find(Done(Call("interfaces.StorePreprepare", k.ST, Var("m")))) {
				m := b["m"]
				var C *Term
				if m.Op == "struct" {
					C = Field(m, "content")
				} else {
					C = content(m)
				}
				Hm := Call("protocol.SignedHeader", C)
				if ev.Same(ht(Hm), msg.Args[1]) && ev.Same(vw(Hm), msg.Args[2]) && ev.Same(hash(Hm), msg.Args[3]) {
					ok = true
				}
			}
			ev.Verdict("S1.order", props("C10"), "the proposal is stored (first-wins log) before the PREPARE answering it is sent", "", ok, "no StorePreprepare of the answered proposal precedes the send")
		case msg.Op == "call" && msg.Name == "messagesfactory.CreatePreprepareMessage":
			ig.blockCtxLive(ev, "K8.v0", msg.Args[3])
		case msg.Op == "call" && msg.Name == "messagesfactory.CreateNewViewMessage":
			ig.blockCtxLive(ev, "K8.nv", msg.Args[5])
		}

	// ------------------------------------------------ view-0 proposal (S2) and NEW_VIEW creation (S3, LK5..LK7)
	case e.Kind == "call" && e.Name == "messagesfactory.CreatePreprepareMessage" && len(e.Args) == 5:
		ev := a.NewEval(e, ig.r)
		v := ev.Arg(2)
		ev.Verdict("S2.path", props("C10"), "a view-0 proposal is signed only on the term-construction path", "", pathHas(e, "NewTermInCommittee"), "created outside the constructor path")
		ev.Require("S2.guards", props("C10", "C14"), "a view-0 proposal is signed only by the leader of that view, for the view just entered", "", Eq(k.LeaderOf(v), k.MyId))
		ev.Verdict("S2.view0", props("C10"), "the proposal signed at term start is for view 0 of the current height", "", ev.Same(v, Const("0")) && ev.Same(ev.Arg(1), k.SHeight), "height/view arguments "+PP(ev.Arg(1))+", "+PP(v))
		ig.freshBlock(ev, "N2.v0", ev.Arg(3), ev.Arg(4), false)
	case e.Kind == "call" && e.Name == "messagesfactory.CreateNewViewMessage" && len(e.Args) == 6:
		ig.newViewCreation(e)

	// ------------------------------------------------ latch (S3)
	case e.Kind == "store" && e.Name == "termincommittee.TermInCommittee.latestViewThatProcessedVCMOrNVM":
		ev := a.NewEval(e, ig.r)
		nv := ev.Arg(0)
		if isNVPath(ev) {
			return // follower side: governed by ING-NV (NV1: view not below current)
		}
		ev.Require("S3.latch", props("C10", "C01"), "the leader-side once-per-view latch only moves strictly forward", "", Lt(Field(k.TIC, "latestViewThatProcessedVCMOrNVM"), nv))

	// ------------------------------------------------ VIEW_CHANGE creation (S5, LK1)
	case e.Kind == "call" && e.Name == "messagesfactory.CreateViewChangeMessage" && len(e.Args) == 4:
		ig.voteCreation(e)

	// ------------------------------------------------ election callback re-check (T10)
	case e.Kind == "call" && e.Name == "state.SetView" && e.Entry == idE3 && len(e.Path) <= 2 && len(e.Args) == 2:
		ev := a.NewEval(e, ig.r)
		ev.Require("T10", props("C19", "C05", "C10"), "the election callback moves to the next view only if the (height, view) it was armed for is still the current one", "",
			Eq(k.SHeight, Root("height")), Eq(k.SView, Root("view")))
	// ------------------------------------------------ committee request context (K6.committee)
	case e.Kind == "call" && e.Name == "interfaces.RequestOrderedCommittee" && len(e.Args) == 5:
		ev := a.NewEval(e, ig.r)
		ig.ctxProvenance(ev, "K6.committee", ev.Arg(1), ev.Arg(2), Const("18446744073709551615"))
		ev.Require("K6.committee.live", props("C15", "C16", "C14"), "the committee is requested only while the term's context is live (checked in the same iteration)", "", ErrNil(Call("context.Err", ev.Arg(1))))

	// ------------------------------------------------ timer registration (L1 / T-rules share)
	case e.Kind == "call" && e.Name == "interfaces.RegisterOnElection" && len(e.Args) == 4:
		ev := a.NewEval(e, ig.r)
		ev.Verdict("L1.args", props("C05", "C19"), "the election timer is armed for exactly the (height, view) just entered", "",
			ev.Same(ev.Arg(1), k.SHeight) && ev.Same(ev.Arg(2), k.SView), "registered ("+PP(ev.Arg(1))+", "+PP(ev.Arg(2))+")")
	}
}

func isNetMsgContent(c *Term) bool {
	// content of a network message: field:content(M) or protocol.Message(field:content(M)) (embedded proposal)
	return isNetMsg(c)
}

func isNVPath(ev *Eval) bool {
	for _, b := range ev.Find(Truth(T("istype", "interfaces.NewViewMessage", Var("m")))) {
		if isNetMsg(b["m"]) {
			return true
		}
	}
	return false
}

// ctxProvenance (engine F): ctx == Contexts.For(HV{h, v}) successfully issued
func (ig *ingest) ctxProvenance(ev *Eval, rule string, ctx, h, v *Term) bool {
	k := ig.k
	ok := false
	why := "context is " + PP(ctx)
	if ctx.Op == "ext" && ctx.Name == "0" && ctx.Args[0].Op == "call" && ctx.Args[0].Name == "state.For" && len(ctx.Args[0].Args) == 2 {
		hv := ctx.Args[0].Args[1]
		if ev.Same(Field(hv, "height"), h) && ev.Same(Field(hv, "view"), v) {
			if ev.Has(ErrNil(Ext(1, ctx.Args[0]))) != nil {
				ok = true
			} else {
				why = "the error of Contexts.For was not checked"
			}
		} else {
			why = "context issued for " + PP(hv) + ", expected (" + PP(h) + ", " + PP(v) + ")"
		}
	}
	_ = k
	pr := props("C15")
	if rule == "K6.commit" {
		pr = props("C15", "C16", "C14") // a commit callback under a context that shutdown does not cancel keeps the worker from ending
	}
	if rule == "K6.propose" {
		pr = props("C15", "C19") // a block request under a context the view's election does not cancel keeps the worker from acting on the trigger
	}
	if rule == "K6.committee" {
		pr = props("C15", "C08", "C18") // ... and the committee (membership, leader order) must be the one of the height the term decides
	}
	return ev.Verdict(rule, pr, "the context handed to an SPI call / consumer callback is the one issued by the context registry for the position the call is about", "", ok, why)
}

// blockCtxLive (K8): a proposal built from RequestNewBlockProposal(ctx,...) is broadcast only after ctx.Err()==nil was re-checked
func (ig *ingest) blockCtxLive(ev *Eval, rule string, block *Term) {
	b := map[string]*Term{}
	if !Match(Ext(0, Call("interfaces.RequestNewBlockProposal", Var("bu"), Var("ctx"), Var("h"), Var("id"), Var("prev"))), block, b) {
		// the block did not come from the SPI on this path (re-proposal of a locked block): nothing to re-check
		ev.Verdict(rule, props("C15", "C11", "C05", "C04"), "a proposal built from RequestNewBlockProposal(ctx, ...) is broadcast only after ctx.Err() == nil was re-checked", "locked", true, "")
		return
	}
	ev.Require(rule, props("C15", "C11", "C05", "C04"), "a proposal built from RequestNewBlockProposal(ctx, ...) is broadcast only after ctx.Err() == nil was re-checked", "fresh", ErrNil(Call("context.Err", b["ctx"])))
}

// freshBlock (N2 / K6 / K7): block and hash come as a pair from RequestNewBlockProposal(ctx of the position, h, myId, prevBlock)
func (ig *ingest) freshBlock(ev *Eval, rule string, block, hashT *Term, allowLocked bool) {
	k := ig.k
	b := map[string]*Term{}
	if !Match(Ext(0, Call("interfaces.RequestNewBlockProposal", k.BU, Var("ctx"), Var("h"), Var("id"), Var("prev"))), block, b) {
		ev.Verdict(rule, props("C09", "C03"), "a fresh proposal's block and hash are the pair returned by one RequestNewBlockProposal call", "", allowLocked, "block is "+PP(block))
		return
	}
	call := block.Args[0]
	ok := ev.Same(hashT, Ext(1, call)) && ev.Same(b["h"], k.SHeight) && ev.Same(b["id"], k.MyId)
	ev.Verdict(rule, props("C09", "C03"), "a fresh proposal's block and hash are the pair returned by one RequestNewBlockProposal call for the current height and this member", "", ok, "hash "+PP(hashT)+" height "+PP(b["h"]))
	ig.ctxProvenance(ev, "K6.propose", b["ctx"], k.SHeight, k.SView)
}

// ---------------------------------------------------------------- NEW_VIEW creation (leader side)

func (ig *ingest) newViewCreation(e *Effect) {
	k := ig.k
	ev := ig.a.NewEval(e, ig.r)
	h, v, ppb, confs, block := ev.Arg(1), ev.Arg(2), ev.Arg(3), ev.Arg(4), ev.Arg(5)
	pr := props("C09", "C07", "C11")
	// N1: confirmations = ExtractConfirmations(vcms), vcms = GetViewChangeMessages(h, v) whose senders passed the quorum
	b := map[string]*Term{}
	if !Match(Call("interfaces.ExtractConfirmationsFromViewChangeMessages", Ext(0, Call("interfaces.GetViewChangeMessages", k.ST, Var("h"), Var("v")))), confs, b) {
		ev.Verdict("LK5", pr, "the NEW_VIEW embeds ExtractConfirmations(GetViewChangeMessages(h, v)) - exactly the stored votes of that view", "", false, "confirmations argument is "+PP(confs))
		return
	}
	vcms := Ext(0, Call("interfaces.GetViewChangeMessages", k.ST, b["h"], b["v"]))
	okKey := ev.Same(b["v"], v) && ev.Same(b["h"], h) && ev.Same(h, k.SHeight)
	ev.Verdict("LK5", pr, "the NEW_VIEW embeds ExtractConfirmations(GetViewChangeMessages(h, v)) - exactly the stored votes of that view - for the current height", "", okKey, "votes of ("+PP(b["h"])+","+PP(b["v"])+") embedded in NEW_VIEW ("+PP(h)+","+PP(v)+")")
	ev.Require("LK5.quorum", props("C09", "C07", "C01", "C11"), "a NEW_VIEW is signed only when the senders of exactly the embedded votes reach quorum weight", "",
		k.Quorum(T("map", "", vcms, mid(snd(bound)))), Truth(Ext(1, Call("interfaces.GetViewChangeMessages", k.ST, b["h"], b["v"]))))
	ev.Require("S3.elected", props("C10", "C07"), "a NEW_VIEW (and its proposal) is signed only by the leader of that view, with the once-per-view latch set to it and the view entered", "",
		Eq(Field(k.TIC, "latestViewThatProcessedVCMOrNVM"), v), Eq(k.SView, v))
	// block choice: block == nil test on GetLatestBlock(vcms)
	latest := Call("blockextractor.GetLatestBlockFromViewChangeMessages", vcms)
	lb, lh := Ext(0, latest), Ext(1, latest)
	// the proposal content builder: CreatePreprepareMessageContentBuilder(MF, h, v, block, hash)
	pb := map[string]*Term{}
	if !Match(Call("messagesfactory.CreatePreprepareMessageContentBuilder", k.MF, Var("h"), Var("v"), Var("blk"), Var("x")), ppb, pb) {
		ev.Verdict("LK5.proposal", pr, "the proposal embedded in the NEW_VIEW is built by the factory for the same (height, view, block)", "", false, "builder is "+PP(ppb))
		return
	}
	okP := ev.Same(pb["h"], h) && ev.Same(pb["v"], v) && ev.Same(pb["blk"], block)
	ev.Verdict("LK5.proposal", pr, "the proposal embedded in the NEW_VIEW is built by the factory for the same (height, view, block)", "", okP, "builder args "+PP(pb["h"])+","+PP(pb["v"])+","+PP(pb["blk"]))
	// split: locked vs fresh
	if ev.Has(Ne(lb, tNil)) != nil {
		ok := ev.Same(block, lb) && ev.Same(pb["x"], lh)
		ev.Verdict("LK7.locked", props("C09", "C11"), "when some counted vote carries a block, the NEW_VIEW re-proposes GetLatestBlockFromViewChangeMessages(counted votes) with its proven hash", "", ok, "block "+PP(block)+" hash "+PP(pb["x"]))
	} else if ev.Has(Eq(lb, tNil)) != nil {
		ig.freshBlock(ev, "LK7.fresh", block, pb["x"], false)
	} else {
		ev.Verdict("LK7.split", props("C09"), "NEW_VIEW creation decides between the locked block and a fresh proposal by testing the selected block for nil", "", false, "neither "+PP(lb)+" == nil nor != nil is known")
	}
}

// ---------------------------------------------------------------- VIEW_CHANGE creation

func (ig *ingest) voteCreation(e *Effect) {
	k := ig.k
	ev := ig.a.NewEval(e, ig.r)
	h, v, prepared := ev.Arg(1), ev.Arg(2), ev.Arg(3)
	// S5: view = old view + 1 entered through the setter, at the current height
	okV := ev.Same(v, k.SView) && ev.Same(h, k.SHeight)
	ev.Verdict("S5.current", props("C10", "C05"), "a VIEW_CHANGE is signed for exactly the (height, view) the node has just entered", "", okV, "vote for ("+PP(h)+","+PP(v)+")")
	// the view just entered is old+1: a successful SetView(pre(view)+1) precedes
	okInc := false
	for _, b := range ev.Find(ErrNil(Ext(1, Call("state.SetView", k.State, Var("nv"))))) {
		nv := unfreeze(b["nv"])
		if nv.Key() == Bin("+", k.SView, Const("1")).Key() && b["nv"].Key() != nv.Key() {
			okInc = true
		}
	}
	ev.Verdict("S5.increment", props("C10", "C05"), "the view entered on an election timeout is exactly the previous view + 1 (successful SetView(view+1))", "", okInc, "no successful SetView(previous view + 1) on the path")
	// LK1: prepared argument
	pl := Field(k.TIC, "preparedLocally")
	isPrepared := T("and", "", Bin("!=", pl, tNil), Field(pl, "isPreparedLocally"))
	want := Call("preparedmessages.ExtractPreparedMessages", h, Field(pl, "latestView"), k.ST, k.Cmt)
	has := func(a *Atom) bool { return ev.Has(a) != nil }
	prepared = ev.Simplify(prepared)
	switch evalBool(isPrepared, has) {
	case 1:
		ev.Verdict("LK1", props("C09", "C11", "C01"), "a prepared node's vote carries ExtractPreparedMessages(height, preparedLocally.latestView, storage, the term's committee)", "prepared", ev.Same(prepared, want), "prepared argument is "+PP(prepared))
	case -1:
		ev.Verdict("LK1", props("C09", "C11", "C01"), "an unprepared node's vote carries no prepared messages", "unprepared", prepared.Key() == tNil.Key(), "prepared argument is "+PP(prepared))
	default:
		ev.Verdict("LK1.split", props("C09", "C01"), "vote creation splits on whether the node is prepared", "", false, "preparedness is not decided on this path")
	}
}
