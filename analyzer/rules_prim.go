package main

import (
	"go/constant"
	"go/token"
	"go/types"
	"sort"
	"strings"

	"golang.org/x/tools/go/ssa"
)

// PRIM.*: the contract of the primitive value types that the other rules rely on by name.
//
// The rules treat `x.Equal(y)` as equality of the whole values, `x.String()` / `x.KeyForMap()` as injective set / map keys
// (quorum's subset weight de-duplicates on MemberId.String()), and the integer primitives as full 64-bit quantities
// (C06's threshold formula and C18's view-to-leader mapping are stated for 64-bit totals / views). These are facts about
// the shipped primitives package; they are checked here instead of being assumed.
func runPrimitives(a *Analyzer, r *Results) {
	runProtoTables(a, r)
	runBlockAccessors(a, r)
	pkg := a.P.ByPath[modPath+"/spec/types/go/primitives"]
	if pkg == nil {
		r.Undecided = append(r.Undecided, "primitives package not loaded (PRIM anchor)")
		return
	}
	sp := a.P.SSAPkgs[pkg.PkgPath]
	if sp == nil {
		sp = a.P.SSA.Package(pkg.Types)
	}
	wide := map[string][]string{
		"MemberWeight": {"C06", "C01", "C02", "C03"},
		"View":         {"C18", "C06", "C13"},
		"BlockHeight":  {"C13", "C14", "C06"},
		"InstanceId":   {"C08", "C06"},
	}
	eqProps := props("C01", "C02", "C03", "C04", "C06", "C07", "C08", "C09", "C10", "C11", "C18")
	keyProps := props("C06", "C01", "C02", "C03", "C10", "C11")
	names := pkg.Types.Scope().Names()
	sort.Strings(names)
	n := 0
	for _, name := range names {
		tn, ok := pkg.Types.Scope().Lookup(name).(*types.TypeName)
		if !ok || tn.IsAlias() {
			continue
		}
		named, ok := tn.Type().(*types.Named)
		if !ok {
			continue
		}
		isBytes, isInt := false, false
		switch u := named.Underlying().(type) {
		case *types.Slice:
			if b, ok := u.Elem().Underlying().(*types.Basic); ok && b.Kind() == types.Uint8 {
				isBytes = true
			}
		case *types.Basic:
			isInt = u.Info()&types.IsInteger != 0
			if ps, tagged := wide[name]; tagged {
				n++
				r.Check("PRIM.width", props(ps...), "the integer primitives carry 64 bits: a weight, view, height or instance id received as a 64-bit value is never truncated on the way into the arithmetic the rules reason about", name, a.P.Pos(tn.Pos()),
					u.Kind() == types.Uint64, name+" is declared as "+u.String()+", not uint64", "X")
			}
		}
		if !isBytes && !isInt {
			continue
		}
		for i := 0; i < named.NumMethods(); i++ {
			m := named.Method(i)
			fn := sp.Prog.FuncValue(m)
			if fn == nil || len(fn.Blocks) == 0 {
				continue
			}
			switch m.Name() {
			case "Equal":
				n++
				ok, why := primEqual(fn, isBytes)
				r.Check("PRIM.equal", eqProps, "Equal on a primitive value type compares the two whole values (bytes.Equal / ==): the rules read `a.Equal(b)` as a = b", name, a.P.Pos(fn.Pos()), ok, why, "X")
			case "String", "KeyForMap":
				if !isBytes && m.Name() == "String" {
					continue // integer String() is used for logging only
				}
				n++
				ok, why := primKey(fn, isBytes)
				r.Check("PRIM.key", keyProps, "String() / KeyForMap() of a primitive value type is an injective encoding of the whole value (hex of all bytes, string(x), the integer itself): two different member ids or hashes never share a set / map key", name+"."+m.Name(), a.P.Pos(fn.Pos()), ok, why, "X")
			}
		}
	}
	if n == 0 {
		r.Undecided = append(r.Undecided, "no primitive value type found (PRIM anchor)")
	}
}

// through conversions back to the receiver / parameter
func primRoot(v ssa.Value) ssa.Value {
	for {
		switch x := v.(type) {
		case *ssa.ChangeType:
			v = x.X
		case *ssa.Convert:
			v = x.X
		case *ssa.MakeInterface:
			v = x.X
		default:
			return v
		}
	}
}

func primEqual(fn *ssa.Function, isBytes bool) (bool, string) {
	if len(fn.Blocks) != 1 || len(fn.Params) != 2 {
		return false, "Equal is not a single straight-line comparison of its two operands"
	}
	ret, ok := fn.Blocks[0].Instrs[len(fn.Blocks[0].Instrs)-1].(*ssa.Return)
	if !ok || len(ret.Results) != 1 {
		return false, "Equal does not return one value"
	}
	isPair := func(x, y ssa.Value) bool {
		rx, ry := primRoot(x), primRoot(y)
		return (rx == ssa.Value(fn.Params[0]) && ry == ssa.Value(fn.Params[1])) || (rx == ssa.Value(fn.Params[1]) && ry == ssa.Value(fn.Params[0]))
	}
	switch v := ret.Results[0].(type) {
	case *ssa.BinOp:
		if v.Op == token.EQL && isPair(v.X, v.Y) {
			if isBytes {
				return false, "byte slices cannot be compared with =="
			}
			return true, ""
		}
	case *ssa.Call:
		if sc := v.Call.StaticCallee(); sc != nil && sc.Pkg != nil && sc.Pkg.Pkg.Path() == "bytes" && sc.Name() == "Equal" && len(v.Call.Args) == 2 && isPair(v.Call.Args[0], v.Call.Args[1]) {
			return true, ""
		}
	}
	return false, "Equal returns something other than bytes.Equal(x, y) / x == y of its two whole operands"
}

func primKey(fn *ssa.Function, isBytes bool) (bool, string) {
	if len(fn.Blocks) != 1 || len(fn.Params) != 1 {
		return false, "the key function is not straight-line code over its receiver (a branch can map two values to one key)"
	}
	ret, ok := fn.Blocks[0].Instrs[len(fn.Blocks[0].Instrs)-1].(*ssa.Return)
	if !ok || len(ret.Results) != 1 {
		return false, "the key function does not return one value"
	}
	recv := ssa.Value(fn.Params[0])
	switch v := ret.Results[0].(type) {
	case *ssa.Convert, *ssa.ChangeType:
		if primRoot(v) == recv {
			// string(bytes) and integer widening are injective; integer narrowing is not
			if !isBytes {
				b, ok := v.Type().Underlying().(*types.Basic)
				rb, ok2 := recv.Type().Underlying().(*types.Basic)
				sizes := types.SizesFor("gc", "amd64")
				if !ok || !ok2 || b.Info()&types.IsInteger == 0 || sizes.Sizeof(b) < sizes.Sizeof(rb) {
					return false, "the integer key is narrowed"
				}
			}
			return true, ""
		}
	case *ssa.Call:
		sc := v.Call.StaticCallee()
		if sc == nil || sc.Pkg == nil {
			break
		}
		path, name := sc.Pkg.Pkg.Path(), sc.Name()
		if path == "encoding/hex" && name == "EncodeToString" && len(v.Call.Args) == 1 && primRoot(v.Call.Args[0]) == recv {
			return true, ""
		}
		if path == "fmt" && name == "Sprintf" && len(v.Call.Args) == 2 {
			k, isK := v.Call.Args[0].(*ssa.Const)
			if !isK || k.Value == nil || k.Value.Kind() != constant.String || (constant.StringVal(k.Value) != "%x" && constant.StringVal(k.Value) != "%X") {
				break
			}
			// exactly one variadic operand: the whole receiver
			nOps, whole := 0, false
			for _, in := range fn.Blocks[0].Instrs {
				if mi, isMI := in.(*ssa.MakeInterface); isMI {
					nOps++
					whole = primRoot(mi) == recv
				}
				switch in.(type) {
				case *ssa.Slice:
					if in.(*ssa.Slice) != v.Call.Args[1] {
						return false, "the key is computed from a part of the value"
					}
				case *ssa.Index, *ssa.Lookup:
					return false, "the key is computed from a part of the value"
				}
			}
			if nOps == 1 && whole {
				return true, ""
			}
		}
	}
	return false, "the key is not string(x), hex of the whole value, or the integer itself: distinct values may collide"
}

// PROTO.fields: the generated writer and reader of every wire message agree on the position and the wire kind of every
// field. All rules read messages through accessor names (`header.View()`, `ref.BlockHash()`): an accessor that reads
// another slot, or a writer that emits the fields in another order, silently changes what every check is applied to.
func runProtoTables(a *Analyzer, r *Results) {
	pkg := a.P.ByPath[modPath+"/spec/types/go/protocol"]
	if pkg == nil {
		r.Undecided = append(r.Undecided, "protocol package not loaded (PROTO anchor)")
		return
	}
	pr := props("C20", "C08", "C03", "C01", "C07", "C09", "C11", "C04")
	fieldOf := func(v ssa.Value) string {
		for i := 0; i < 8 && v != nil; i++ {
			switch x := v.(type) {
			case *ssa.UnOp:
				v = x.X
			case *ssa.Convert:
				v = x.X
			case *ssa.ChangeType:
				v = x.X
			case *ssa.MakeInterface:
				v = x.X
			case *ssa.ChangeInterface:
				v = x.X
			case *ssa.FieldAddr:
				if pt, ok := x.X.Type().Underlying().(*types.Pointer); ok {
					if st, ok := pt.Elem().Underlying().(*types.Struct); ok {
						return st.Field(x.Field).Name()
					}
				}
				return ""
			case *ssa.Call:
				// w.arrayOfX(): the field is named in the helper
				if sc := x.Call.StaticCallee(); sc != nil && strings.HasPrefix(sc.Name(), "arrayOf") {
					return strings.TrimPrefix(sc.Name(), "arrayOf")
				}
				return ""
			default:
				return ""
			}
		}
		return ""
	}
	nTypes := 0
	for _, f := range a.P.Funcs {
		if f.Name() != "Write" || f.Signature.Recv() == nil || funcPkgPath(f) != pkg.PkgPath {
			continue
		}
		bt := typeShortName(f.Signature.Recv().Type())
		if !strings.HasSuffix(bt, "Builder") {
			continue
		}
		reader := strings.TrimSuffix(bt, "Builder")
		type slot struct{ kind, field string }
		var slots []slot
		union := false
		blocks := append([]*ssa.BasicBlock{}, f.Blocks...)
		sort.Slice(blocks, func(i, j int) bool { return blocks[i].Index < blocks[j].Index })
		for _, b := range blocks {
			for _, in := range b.Instrs {
				c, ok := in.(*ssa.Call)
				if !ok {
					continue
				}
				sc := c.Call.StaticCallee()
				if sc == nil || !strings.HasPrefix(sc.Name(), "Write") || sc.Name() == "WriteOverrideWithRawBuffer" || !strings.Contains(funcPkgPath(sc), "membuffers") {
					continue
				}
				kind := strings.TrimPrefix(sc.Name(), "Write")
				if kind == "UnionIndex" {
					union = true
					continue
				}
				fld := ""
				if len(c.Call.Args) >= 3 {
					fld = fieldOf(c.Call.Args[2])
				} else if len(c.Call.Args) >= 2 {
					fld = fieldOf(c.Call.Args[len(c.Call.Args)-1])
				}
				slots = append(slots, slot{kind, fld})
			}
		}
		if union || len(slots) == 0 {
			continue // the union's alternatives all sit in slot 0 and are judged by W2.*
		}
		nTypes++
		for i, sl := range slots {
			name := sl.field
			if sl.kind == "MessageArray" {
				name += "Iterator"
			}
			acc := a.P.FuncByID["(*spec/types/go/protocol."+reader+")."+name]
			why := ""
			if sl.field == "" {
				why = fmtf("the writer's slot %d does not write a field of the builder", i)
			} else if acc == nil {
				why = "no reader accessor " + reader + "." + name
			} else {
				found := false
				for _, ab := range acc.Blocks {
					for _, ai := range ab.Instrs {
						gc, ok := ai.(*ssa.Call)
						if !ok {
							continue
						}
						gs := gc.Call.StaticCallee()
						if gs == nil || !strings.HasPrefix(gs.Name(), "Get") || !strings.Contains(funcPkgPath(gs), "membuffers") {
							continue
						}
						found = true
						gk := strings.TrimPrefix(gs.Name(), "Get")
						okKind := gk == sl.kind || (sl.kind == "Message" && gk == "MessageInOffset") || (sl.kind == "MessageArray" && gk == "MessageArrayIterator")
						idx := int64(-1)
						if len(gc.Call.Args) >= 2 {
							if k, isK := gc.Call.Args[1].(*ssa.Const); isK && k.Value != nil {
								idx = k.Int64()
							}
						}
						if !okKind {
							why = fmtf("written as %s, read with Get%s", sl.kind, gk)
						} else if idx != int64(i) {
							why = fmtf("written at position %d, read from position %d", i, idx)
						}
					}
				}
				if !found {
					why = reader + "." + name + " does not read the message"
				}
			}
			r.Check("PROTO.fields", pr, "the generated writer and reader of a wire message agree on the position and kind of every field (an accessor reads the slot the builder wrote under that name)", reader+"."+sl.field, a.P.Pos(f.Pos()), why == "", why, "D")
		}
	}
	if nTypes < 8 {
		r.Undecided = append(r.Undecided, fmtf("only %d wire message writers found (11 confirmed by reading)", nTypes))
	}
}

// H0.height: the two helpers through which every rule reads a block's height / reference time are what their names say:
// 0 for the genesis (nil) block, the block's own Height() / ReferenceTime() otherwise.
func runBlockAccessors(a *Analyzer, r *Results) {
	for _, h := range []struct{ id, method string }{
		{"services/blockheight.GetBlockHeight", "interfaces.Height"},
		{"services/blockreferencetime.GetBlockReferenceTime", "interfaces.ReferenceTime"},
	} {
		fn := a.P.FuncOpt(h.id)
		if fn == nil {
			r.Undecided = append(r.Undecided, "unresolved anchor: "+h.id)
			continue
		}
		pt := a.PathTerm(fn)
		ok := false
		why := "not a pure loop-free function of the block"
		if pt != nil {
			why = "is " + PP(pt)
			p0 := T("param", "0")
			want := Call(h.method, p0)
			if pt.Op == "ite" && len(pt.Args) == 3 {
				c, x, y := pt.Args[0], pt.Args[1], pt.Args[2]
				neg := false
				for c.Op == "un" && c.Name == "!" && len(c.Args) == 1 {
					c, neg = c.Args[0], !neg
				}
				isNilTest := c.Op == "bin" && c.Name == "==" && len(c.Args) == 2 &&
					((c.Args[0].Key() == p0.Key() && (c.Args[1].Key() == tNil.Key() || c.Args[1].Op == "global")) || (c.Args[1].Key() == p0.Key() && (c.Args[0].Key() == tNil.Key() || c.Args[0].Op == "global")))
				if neg {
					x, y = y, x
				}
				if isNilTest && x.Key() == Const("0").Key() && y.Key() == want.Key() {
					ok = true
				}
			}
		}
		r.Check("H0.height", props("C13", "C14", "C01", "C05", "C15", "C18"), "GetBlockHeight / GetBlockReferenceTime return 0 for the genesis (nil) block and the block's own value otherwise: the height a round is started for, and the committee request, are derived from them", shortName(fn), a.P.Pos(fn.Pos()), ok, why, "D")
	}
}
