package main

import (
	"fmt"
	"os"
	"go/constant"
	"go/token"
	"go/types"
	"strings"

	"golang.org/x/tools/go/ssa"
)

// Entry points that are not public API are found by their role, so that renaming them is not a finding:
//   - the main event loop: the MainLoop method containing a blocking select with >= 3 arms inside a loop;
//   - the sync hand-off message type: the struct of the root package that carries an interfaces.Block and is the
//     element type of a channel field of WorkerLoop;
//   - the worker's sync handler: the function WorkerLoop.Run calls with the message received from that channel;
//   - the election callback: the method handed to ElectionScheduler.RegisterOnElection by the term.
// If a role cannot be resolved uniquely the reference name is used (and reported as unresolved anchor if it is gone too).

var (
	idE3        = "(*services/termincommittee.TermInCommittee).moveToNextLeaderByElection"
	idE4        = "(*leanhelix.WorkerLoop).handleUpdateState"
	idMainRun   = "(*leanhelix.MainLoop).run"
	syncMsgType = "leanhelix.blockWithProof"
	idVoteSel   = "(*services/termincommittee.TermInCommittee).latestViewChangeVote"
	// armE4: when the worker handles a sync inline in its select (no handler function), the sync entry is that arm
	armE4 *ssa.BasicBlock
)

func resolveEntries(p *Prog) {
	idVoteSel = "(*services/termincommittee.TermInCommittee).latestViewChangeVote"
	// the follower's selection of the vote with the highest prepared view: the one function of the term package that sorts
	{
		var sel []string
		for _, f := range p.Funcs {
			if f.Parent() != nil || !strings.HasSuffix(funcPkgPath(f), "services/termincommittee") {
				continue
			}
			for _, b := range f.Blocks {
				for _, in := range b.Instrs {
					if ci, ok := in.(ssa.CallInstruction); ok {
						if sc := ci.Common().StaticCallee(); sc != nil && sc.Pkg != nil && sc.Pkg.Pkg.Path() == "sort" && sc.Name() != "init" {
							sel = append(sel, funcID(f))
						}
					}
				}
			}
		}
		sel = dedupSorted(sel)
		if os.Getenv("LH_DEBUG_ENTRIES") != "" {
			fmt.Fprintln(os.Stderr, "vote selection candidates:", sel)
		}
		if len(sel) == 1 {
			idVoteSel = sel[0]
		}
	}
	idE3 = "(*services/termincommittee.TermInCommittee).moveToNextLeaderByElection"
	idE4 = "(*leanhelix.WorkerLoop).handleUpdateState"
	idMainRun = "(*leanhelix.MainLoop).run"
	syncMsgType = "leanhelix.blockWithProof"
	recvShort := func(f *ssa.Function) string {
		if f.Signature.Recv() == nil {
			return ""
		}
		return typeShort(f.Signature.Recv().Type())
	}
	// main loop
	var mains []*ssa.Function
	for _, f := range p.Funcs {
		if f.Parent() != nil || recvShort(f) != "leanhelix.MainLoop" {
			continue
		}
		li := analyzeLoops(f)
		found := false
		for _, b := range f.Blocks {
			for _, in := range b.Instrs {
				if sel, ok := in.(*ssa.Select); ok && sel.Blocking && len(sel.States) >= 3 && li.Innermost(b) != nil {
					found = true
				}
			}
		}
		if found {
			mains = append(mains, f)
		}
	}
	if len(mains) == 1 {
		idMainRun = funcID(mains[0])
	}
	// sync message type: element type of a WorkerLoop channel field, a root-package struct with an interfaces.Block field
	if wl := p.ByPath[modPath]; wl != nil {
		if tn, ok := wl.Types.Scope().Lookup("WorkerLoop").(*types.TypeName); ok {
			if st, ok := tn.Type().Underlying().(*types.Struct); ok {
				var cands []string
				for i := 0; i < st.NumFields(); i++ {
					ch, ok := st.Field(i).Type().Underlying().(*types.Chan)
					if !ok {
						continue
					}
					el := ch.Elem()
					if pt, ok := el.Underlying().(*types.Pointer); ok {
						el = pt.Elem()
					}
					n, ok := el.(*types.Named)
					if !ok || n.Obj().Pkg() == nil || n.Obj().Pkg().Path() != modPath {
						continue
					}
					es, ok := n.Underlying().(*types.Struct)
					if !ok {
						continue
					}
					for j := 0; j < es.NumFields(); j++ {
						if typeShort(es.Field(j).Type()) == "interfaces.Block" {
							cands = append(cands, typeShort(n))
						}
					}
				}
				cands = dedupSorted(cands)
				if len(cands) == 1 {
					syncMsgType = cands[0]
				}
			}
		}
	}
	// sync handler: the function WorkerLoop.Run calls (directly or through a step method of the loop) with a *syncMsgType
	if run := p.FuncByID["(*leanhelix.WorkerLoop).Run"]; run != nil {
		level := []*ssa.Function{run}
		seenF := map[*ssa.Function]bool{run: true}
		for depth := 0; depth < 2 && len(level) > 0; depth++ {
			var hs []string
			var next []*ssa.Function
			for _, f := range level {
				for _, b := range f.Blocks {
					for _, in := range b.Instrs {
						ci, ok := in.(ssa.CallInstruction)
						if !ok {
							continue
						}
						sc := ci.Common().StaticCallee()
						if sc == nil || p.FuncByID[funcID(sc)] != sc {
							continue
						}
						for _, prm := range sc.Params {
							if typeShort(prm.Type()) == syncMsgType {
								hs = append(hs, funcID(sc))
							}
						}
						if !seenF[sc] && recvShort(sc) == "leanhelix.WorkerLoop" {
							seenF[sc] = true
							next = append(next, sc)
						}
					}
				}
			}
			hs = dedupSorted(hs)
			if len(hs) == 1 {
				idE4 = hs[0]
			}
			if len(hs) > 0 {
				break
			}
			level = next
		}
		armE4 = nil
		if p.FuncByID[idE4] == nil {
			// handled inline: the arm of the loop's select that receives the hand-off message
			for _, sel := range topSelects(run) {
				idx := 0
				for _, st := range sel.States {
					if st.Dir != types.RecvOnly {
						idx++
						continue
					}
					if ch, ok := st.Chan.Type().Underlying().(*types.Chan); ok && typeShort(ch.Elem()) == syncMsgType {
						if ab := selectArmBlock(sel, stateIndex(sel, st)); ab != nil {
							armE4 = ab
							idE4 = funcID(run)
						}
					}
					idx++
				}
			}
		}
	}
	// election callback: the bound method given to RegisterOnElection inside the term package
	var cbs []string
	for _, f := range p.Funcs {
		if !strings.HasSuffix(funcPkgPath(f), "services/termincommittee") {
			continue
		}
		for _, b := range f.Blocks {
			for _, in := range b.Instrs {
				ci, ok := in.(ssa.CallInstruction)
				if !ok || !ci.Common().IsInvoke() || ci.Common().Method.Name() != "RegisterOnElection" {
					continue
				}
				for _, arg := range ci.Common().Args {
					mc, ok := arg.(*ssa.MakeClosure)
					if !ok {
						continue
					}
					w, ok := mc.Fn.(*ssa.Function)
					if !ok {
						continue
					}
					// bound method wrapper: its body is one call of the method
					for _, wb := range w.Blocks {
						for _, wi := range wb.Instrs {
							if wc, ok := wi.(ssa.CallInstruction); ok {
								if sc := wc.Common().StaticCallee(); sc != nil && p.FuncByID[funcID(sc)] == sc {
									cbs = append(cbs, funcID(sc))
								}
							}
						}
					}
				}
			}
		}
	}
	cbs = dedupSorted(cbs)
	if len(cbs) == 1 {
		idE3 = cbs[0]
	}
}

// loopBody: where an event loop's top-level select lives. Usually in the loop function itself; a loop written as
// `for x.step(ctx) { }` keeps it in the step method, whose boolean result decides whether the loop goes on.
type loopBody struct {
	entry, body *ssa.Function
	call        ssa.Instruction // the call of the step method in the entry's loop (nil when body == entry)
	exitVal     bool            // the result of the step method that makes the entry leave its loop
}

func topSelects(f *ssa.Function) []*ssa.Select {
	var out []*ssa.Select
	for _, b := range f.Blocks {
		for _, in := range b.Instrs {
			if sel, ok := in.(*ssa.Select); ok && len(sel.States) >= 3 {
				out = append(out, sel)
			}
		}
	}
	return out
}

func (a *Analyzer) loopBodyOf(id string) loopBody {
	fn := a.P.Func(id)
	lb := loopBody{entry: fn, body: fn}
	if fn == nil || len(topSelects(fn)) > 0 {
		return lb
	}
	li := a.Loops(fn)
	for _, b := range fn.Blocks {
		l := li.Innermost(b)
		if l == nil {
			continue
		}
		for _, in := range b.Instrs {
			call, ok := in.(*ssa.Call)
			if !ok {
				continue
			}
			g := call.Call.StaticCallee()
			if g == nil || len(g.Blocks) == 0 || len(topSelects(g)) != 1 {
				continue
			}
			if bt, isB := call.Type().Underlying().(*types.Basic); !isB || bt.Kind() != types.Bool {
				continue
			}
			// the result decides whether the loop goes on
			for _, ref := range *call.Referrers() {
				cond, neg := ssa.Value(call), false
				if u, isU := ref.(*ssa.UnOp); isU && u.Op == token.NOT {
					cond, neg = u, true
					for _, r2 := range *u.Referrers() {
						ref = r2
					}
				}
				ifi, isIf := ref.(*ssa.If)
				if !isIf || ifi.Cond != cond {
					continue
				}
				ib := ifi.Block()
				out0, out1 := leavesLoop(ib.Succs[0], l, false), leavesLoop(ib.Succs[1], l, false)
				if out0 == out1 {
					continue
				}
				lb.body, lb.call = g, call
				lb.exitVal = out0 != neg // succ[0] is taken when cond is true
				return lb
			}
		}
	}
	return lb
}

// returnsOnly: every function exit reachable from blk returns the boolean constant v.
func returnsOnly(blk *ssa.BasicBlock, v bool) bool {
	for b := range reachableFrom(blk) {
		if len(b.Instrs) == 0 {
			continue
		}
		ret, ok := b.Instrs[len(b.Instrs)-1].(*ssa.Return)
		if !ok {
			continue
		}
		if len(ret.Results) != 1 {
			return false
		}
		k, isK := ret.Results[0].(*ssa.Const)
		if !isK || k.Value == nil || k.Value.Kind() != constant.Bool || constant.BoolVal(k.Value) != v {
			return false
		}
	}
	return true
}

// stepContinues: the return instruction of a step method hands back the "go on" value.
func (lb loopBody) stepContinues(ret *ssa.Return) bool {
	if lb.call == nil || ret.Parent() != lb.body || len(ret.Results) != 1 {
		return false
	}
	k, isK := ret.Results[0].(*ssa.Const)
	return isK && k.Value != nil && k.Value.Kind() == constant.Bool && constant.BoolVal(k.Value) != lb.exitVal
}

func stateIndex(sel *ssa.Select, st *ssa.SelectState) int {
	for i, x := range sel.States {
		if x == st {
			return i
		}
	}
	return -1
}
