package main

import "strings"

// PP renders a term compactly for reports.
func PP(t *Term) string {
	if t == nil {
		return "<nil>"
	}
	args := func() string {
		ss := make([]string, len(t.Args))
		for i, a := range t.Args {
			ss[i] = PP(a)
		}
		return strings.Join(ss, ",")
	}
	short := func(n string) string {
		for _, p := range []string{"protocol.", "interfaces.", "primitives."} {
			n = strings.TrimPrefix(n, p)
		}
		return n
	}
	switch t.Op {
	case "call":
		return short(t.Name) + "(" + args() + ")"
	case "field":
		return PP(t.Args[0]) + "." + t.Name
	case "this":
		n := t.Name
		if i := strings.LastIndex(n, "."); i >= 0 {
			n = n[i+1:]
		}
		return "@" + n
	case "const":
		return t.Name
	case "root":
		return "<" + t.Name + ">"
	case "elem":
		return PP(t.Args[0]) + "[*]"
	case "ext":
		return PP(t.Args[0]) + "#" + t.Name
	case "bin":
		return "(" + PP(t.Args[0]) + t.Name + PP(t.Args[1]) + ")"
	case "un":
		return t.Name + PP(t.Args[0])
	case "len":
		return "len(" + args() + ")"
	case "bound":
		return "$" + t.Name
	case "var":
		return "?" + t.Name
	case "lookup":
		return PP(t.Args[0]) + "[" + PP(t.Args[1]) + "]"
	case "index":
		return PP(t.Args[0]) + "[" + PP(t.Args[1]) + "]"
	case "atom":
		return PPAtom(termAtom(t, ""))
	case "struct":
		ss := make([]string, len(t.Args))
		for i, a := range t.Args {
			ss[i] = t.FNames[i] + ":" + PP(a)
		}
		return short(t.Name) + "{" + strings.Join(ss, ",") + "}"
	case "istype":
		return "is<" + short(t.Name) + ">(" + args() + ")"
	case "closure", "func":
		n := t.Name
		if i := strings.LastIndex(n, "."); i >= 0 {
			n = n[i+1:]
		}
		return "fn:" + n + "(" + args() + ")"
	case "phi", "unk", "make":
		n := t.Name
		if i := strings.LastIndex(n, "."); i >= 0 {
			n = n[i+1:]
		}
		return t.Op + ":" + n
	}
	if len(t.Args) == 0 {
		return t.Op + ":" + t.Name
	}
	return t.Op + "(" + args() + ")"
}

func PPAtom(a *Atom) string {
	ss := make([]string, len(a.Args))
	for i, t := range a.Args {
		ss[i] = PP(t)
	}
	neg := ""
	if a.Neg {
		neg = "!"
	}
	switch a.Pred {
	case "eq":
		if a.Neg {
			return ss[0] + " != " + ss[1]
		}
		return ss[0] + " == " + ss[1]
	case "lt":
		return ss[0] + " < " + ss[1]
	case "le":
		return ss[0] + " <= " + ss[1]
	case "truth":
		return neg + ss[0]
	}
	return neg + a.Pred + "(" + strings.Join(ss, ", ") + ")"
}
