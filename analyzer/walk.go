package main

import (
	"sync"
	"go/types"
	"fmt"
	"os"
	"sort"
	"strings"

	"golang.org/x/tools/go/ssa"
)

type Frame struct {
	Fn   string
	Site string // position of the call in the caller ("" for the entry)
	// the caller's term context and the call instruction that entered this frame (nil for the entry)
	CallerC *FCtx
	Call    ssa.Instruction
}

// Effect is a call / store / send met during the bounded virtual inlining (DESIGN §2.5, §2.14).
type Effect struct {
	Kind  string // call | store | send | go | defer
	Name  string // callee short name, or the written location
	Args  []*Term
	Term  *Term
	Instr ssa.Instruction
	Facts Facts // facts holding just before the instruction on this call path
	Path  []Frame
	C     *FCtx
	Flow  *Flow
	Entry string
	VType  string   // type of the called value for dynamic calls (e.g. termincommittee.OnInCommitteeCommitCallback)
	Arm    *ssa.BasicBlock // the walk started at this block of the entry function (an arm of an event loop's select)
	Config string   // named assumption set in force ("" = none)
	Splits []string // auto case-split atoms assumed on this path
}

func (e *Effect) Pos(a *Analyzer) string { return a.P.InstrPos(e.Instr) }

func (e *Effect) PathString() string {
	var sb strings.Builder
	for i, f := range e.Path {
		if i > 0 {
			sb.WriteString(" -> ")
		}
		sb.WriteString(f.Fn)
		if f.Site != "" {
			sb.WriteString("@" + f.Site)
		}
	}
	return sb.String()
}

type Walker struct {
	ArmOnly *ssa.BasicBlock // start the walk of the entry function at this block (see Effect.Arm)
	A         *Analyzer
	OnEffect  func(e *Effect)
	MaxDepth  int
	Undecided []string
	memo      map[string]bool
	inSplit   map[*ssa.Function]bool
	inRetSplit map[*ssa.Function]int // number of return-site splits already chosen for the function (at most 2 nest)
	entry     string
	Visited   map[*ssa.Function]bool
	Paths     int
	// NoDescend: callee short names never entered (their internals are governed by their own rules)
	NoDescend map[string]bool
	Config    string
	// Inject: facts added to the caller's fact set just before a call is entered (container invariants proved by
	// other rules); returns nil when nothing applies
	Inject    func(e *Effect) []*Atom
	Assume    []*Atom
	AutoSplit bool
	// DescendSpawn: also walk the function handed to time.AfterFunc (it runs later on another goroutine: no facts of
	// the spawning point are passed, only the values it captures)
	DescendSpawn bool
	splits    []string
	entryFn   *ssa.Function
	retChoice map[ssa.Instruction]*ssa.Return
}

func (a *Analyzer) NewWalker(on func(e *Effect)) *Walker {
	return &Walker{A: a, OnEffect: on, MaxDepth: 24, memo: map[string]bool{}, inSplit: map[*ssa.Function]bool{}, inRetSplit: map[*ssa.Function]int{}, Visited: map[*ssa.Function]bool{}, NoDescend: map[string]bool{}}
}

func envKey(env map[ssa.Value]*Term, fn *ssa.Function) string {
	var parts []string
	for _, p := range fn.Params {
		if t := env[p]; t != nil {
			parts = append(parts, t.Key())
		}
	}
	for _, p := range fn.FreeVars {
		if t := env[p]; t != nil {
			parts = append(parts, t.Key())
		}
	}
	return strings.Join(parts, "|")
}

func (w *Walker) Run(entry *ssa.Function, roots map[string]*Term, init Facts) {
	w.entry = funcID(entry)
	w.entryFn = entry
	env := w.A.EntryEnv(entry, roots)
	if len(w.Assume) > 0 {
		if init == nil {
			init = Facts{}
		} else {
			init = init.Clone()
		}
		for _, a := range w.Assume {
			if !a.Mentions(func(t *Term) bool { return t.Op == "var" }) {
				x := *a
				x.Site = "assumed (case split)"
				init.Add(&x)
			}
		}
	}
	w.visit(entry, env, init, []Frame{{Fn: funcID(entry)}}, map[*ssa.Function]bool{})
}

func (w *Walker) emit(e *Effect) {
	e.Entry = w.entry
	e.Arm = w.ArmOnly
	e.Config = w.Config
	e.Splits = append([]string{}, w.splits...)
	w.OnEffect(e)
}

// correlatedConds: condition atoms tested by two or more If instructions of fn (candidates for a case split, DESIGN §2.8).
func (w *Walker) correlatedConds(c *FCtx) []*Atom {
	count := map[string]int{}
	first := map[string]*Atom{}
	var order []string
	for _, b := range c.Fn.Blocks {
		ifi, ok := b.Instrs[len(b.Instrs)-1].(*ssa.If)
		if !ok {
			continue
		}
		a := atomOf(c.Term(ifi.Cond), "")
		if a == nil || a.Pred == "done" {
			continue
		}
		pos := a
		if a.Neg {
			pos = a.Negate()
		}
		if pos.Pred == "lt" || pos.Pred == "le" {
			continue
		}
		fid := funcID(c.Fn) + "#"
		if pos.Mentions(func(t *Term) bool {
			return t.Op == "phi" || t.Op == "unk" || isSelectIndex(t) || ((t.Op == "elem" || t.Op == "mapkey" || t.Op == "mapval") && strings.HasPrefix(t.Name, fid))
		}) {
			continue
		}
		k := pos.Key()
		if count[k] == 0 {
			first[k] = pos
			order = append(order, k)
		}
		count[k]++
	}
	var res []*Atom
	for _, k := range order {
		if count[k] >= 2 {
			res = append(res, first[k])
		}
	}
	// conditions of a diamond whose join defines a phi (the two arms compute different values of one variable)
	for _, b := range c.Fn.Blocks {
		ifi, ok := b.Instrs[len(b.Instrs)-1].(*ssa.If)
		if !ok || len(res) >= 3 {
			continue
		}
		a := atomOf(c.Term(ifi.Cond), "")
		if a == nil {
			continue
		}
		pos := a
		if a.Neg {
			pos = a.Negate()
		}
		if (pos.Pred != "eq" && pos.Pred != "truth") || count[pos.Key()] >= 2 || count[pos.Key()] == 0 {
			continue
		}
		if pos.Mentions(func(t *Term) bool { return t.Op == "phi" || t.Op == "unk" || isSelectIndex(t) }) {
			continue
		}
		// ... or whose arms make different calls before rejoining, decided by a nil-test of a helper's result
		// (if x := choose(..); x != nil { validate one way } else { validate the other way })
		if !diamondWithPhi(b) && !(isNilTestOfCall(pos) && isPointerTest(ifi.Cond) && diamondWithCalls(b)) {
			continue
		}
		res = append(res, first[pos.Key()])
	}
	// a decision taken inside an unexported helper that this function calls (a "decide" function whose paths are
	// correlated by one of its own tests) is a case split of the caller too: the helper's summary is then specialised
	// to each case (context-sensitive summaries)
	if !c.noCalleeSplits && len(res) < 3 && os.Getenv("LH_NO_CALLEE_SPLITS") == "" {
		seenKey := map[string]bool{}
		for _, a := range res {
			seenKey[a.Key()] = true
		}
		for _, b := range c.Fn.Blocks {
			for _, in := range b.Instrs {
				call, ok := in.(*ssa.Call)
				if !ok || len(res) >= 3 {
					continue
				}
				g := call.Call.StaticCallee()
				if g == nil || g.Blocks == nil || !inLibraryScope(funcPkgPath(g)) || isSpecTypesPkg(funcPkgPath(g)) || g == c.Fn {
					continue
				}
				if (g.Object() != nil && g.Object().Exported()) || w.A.effectFree[g] || w.A.isInlinable(g) {
					continue
				}
				env := bindEnv(w.A, g, c.args(call.Call.Args), nil)
				for _, p := range g.Params {
					if sg := w.A.singletonOf(p.Type()); sg != "" {
						env[p] = This(sg)
					}
				}
				gc := w.A.NewFCtx(g, env, 0)
				gc.noCalleeSplits = true
				for _, a := range w.correlatedConds(gc) {
					if seenKey[a.Key()] || len(res) >= 3 {
						continue
					}
					if a.Mentions(func(t *Term) bool { return t.Op == "phi" || t.Op == "unk" || t.Op == "param" || isSelectIndex(t) }) {
						continue
					}
					seenKey[a.Key()] = true
					res = append(res, a)
				}
			}
		}
	}
	if len(res) > 3 {
		res = res[:3]
	}
	if os.Getenv("LH_DEBUG_SPLITS") != "" {
		for _, a := range res {
			fmt.Fprintf(os.Stderr, "split candidate in %s: %s\n", funcID(c.Fn), PPAtom(a))
		}
	}
	return res
}

func (w *Walker) visit(fn *ssa.Function, env map[ssa.Value]*Term, init Facts, path []Frame, onPath map[*ssa.Function]bool) {
	if len(path) > w.MaxDepth {
		w.Undecided = append(w.Undecided, "depth bound exceeded at "+funcID(fn))
		return
	}
	if init == nil {
		init = Facts{}
	}
	mk := funcID(fn) + "#" + envKey(env, fn) + "#" + strings.Join(init.SortedKeys(), ";") + "#" + strings.Join(w.splits, ";")
	if w.memo[mk] {
		return
	}
	w.memo[mk] = true
	w.Visited[fn] = true
	noteVisited(fn)
	w.Paths++
	onPath[fn] = true
	defer delete(onPath, fn)

	c := w.A.NewFCtx(fn, env, 0)
	if w.AutoSplit {
		if conds := w.correlatedConds(c); len(conds) > 0 && !w.inSplit[fn] {
			w.inSplit[fn] = true
			var rec func(i int)
			rec = func(i int) {
				if i == len(conds) {
					delete(w.memo, mk)
					onPath[fn] = false
					w.visit(fn, env, init, path, onPath)
					return
				}
				for _, pol := range []bool{true, false} {
					a := conds[i]
					if !pol {
						a = a.Negate()
					}
					w.Assume = append(w.Assume, a)
					w.splits = append(w.splits, a.Key())
					rec(i + 1)
					w.Assume = w.Assume[:len(w.Assume)-1]
					w.splits = w.splits[:len(w.splits)-1]
				}
			}
			rec(0)
			delete(w.inSplit, fn)
			return
		}
	}
	// return-site split: a call to an effectful helper with several successful outcomes is explored once per outcome
	if w.AutoSplit && w.inRetSplit[fn] < 2 {
		if call, rets := w.splitCall(fn); call != nil {
			if os.Getenv("LH_DEBUG_SPLITS") != "" {
				fmt.Fprintf(os.Stderr, "return-site split in %s at %s: %d outcomes\n", funcID(fn), w.A.P.InstrPos(call), len(rets))
			}
			w.inRetSplit[fn]++
			for i, r := range rets {
				if w.retChoice == nil {
					w.retChoice = map[ssa.Instruction]*ssa.Return{}
				}
				w.retChoice[call] = r
				w.splits = append(w.splits, fmtf("ret#%d@%s", i, w.A.P.InstrPos(call)))
				delete(w.memo, mk)
				onPath[fn] = false
				w.visit(fn, env, init, path, onPath)
				w.splits = w.splits[:len(w.splits)-1]
			}
			delete(w.retChoice, call)
			w.inRetSplit[fn]--
			return
		}
	}
	fl := w.A.NewFlowRC(c, init, w.retChoice, w.Assume...)
	if len(w.Assume) > 0 || len(w.splits) > 0 {
		// second pass: phi nodes resolved over the feasible edges only (path-sensitive under the case split)
		if dead := fl.DeadEdges(); len(dead) > 0 {
			c = w.A.NewFCtx(fn, env, 0)
			c.DeadEdge = dead
			fl = w.A.NewFlowRC(c, init, w.retChoice, w.Assume...)
		}
	}
	if fl.Diverged {
		w.Undecided = append(w.Undecided, "dataflow did not converge in "+funcID(fn))
	}
	blocks := make([]*ssa.BasicBlock, 0, len(fn.Blocks))
	for _, b := range fn.Blocks {
		if fl.In[b] != nil {
			blocks = append(blocks, b)
		}
	}
	sort.Slice(blocks, func(i, j int) bool { return blocks[i].Index < blocks[j].Index })
	for _, b := range blocks {
		if w.ArmOnly != nil && fn == w.entryFn && len(path) == 1 && !w.ArmOnly.Dominates(b) {
			continue // the entry is one arm of the loop's select: the other arms are other entries
		}
		facts := fl.In[b].Clone()
		for _, in := range b.Instrs {
			if isDead(facts) {
				break
			}
			w.instr(in, c, fl, facts, path, onPath)
			fl.transfer(in, facts)
		}
	}
}

func (w *Walker) instr(in ssa.Instruction, c *FCtx, fl *Flow, facts Facts, path []Frame, onPath map[*ssa.Function]bool) {
	a := w.A
	switch x := in.(type) {
	case *ssa.Return:
		if in.Parent() == w.entryFn && len(path) == 1 {
			// a conditional return value (a helper's "nil unless found" result inlined as ite) is one return per case,
			// each with its condition known
			type alt struct {
				args  []*Term
				facts Facts
			}
			alts := []alt{{c.args(x.Results), facts.Clone()}}
			for round := 0; round < 3; round++ {
				var next []alt
				changed := false
				for _, al := range alts {
					split := -1
					for i, t := range al.args {
						if t.Op == "ite" && len(t.Args) == 3 {
							split = i
							break
						}
					}
					if split < 0 || len(alts) >= 6 {
						next = append(next, al)
						continue
					}
					changed = true
					t := al.args[split]
					for bi, br := range []*Term{t.Args[1], t.Args[2]} {
						na := append([]*Term{}, al.args...)
						na[split] = br
						nf := al.facts.Clone()
						if ca := atomOf(t.Args[0], a.P.InstrPos(in)); ca != nil {
							if bi == 1 {
								ca = ca.Negate()
							}
							if nf.Has(ca.Negate()) != nil {
								continue // this case is excluded on this path
							}
							nf.Add(ca)
							addConjuncts(nf, ca)
							fl.addDerived(nf, ca)
						}
						next = append(next, alt{na, nf})
					}
				}
				alts = next
				if !changed {
					break
				}
			}
			for _, al := range alts {
				w.emit(&Effect{Kind: "return", Name: "return:" + shortName(w.entryFn), Args: al.args, Instr: in, Facts: al.facts, Path: path, C: c, Flow: fl})
			}
		}
	case *ssa.Store:
		if l := a.addrLoc(x.Addr); l != "" {
			w.emit(&Effect{Kind: "store", Name: l, Args: []*Term{c.Term(x.Val)}, Instr: in, Facts: facts.Clone(), Path: path, C: c, Flow: fl})
		}
	case *ssa.MapUpdate:
		if l := a.addrLoc(x.Map); l != "" {
			w.emit(&Effect{Kind: "mapupdate", Name: l, Args: []*Term{c.Term(x.Key), c.Term(x.Value)}, Instr: in, Facts: facts.Clone(), Path: path, C: c, Flow: fl})
		}
	case *ssa.Send:
		w.emit(&Effect{Kind: "send", Name: c.Term(x.Chan).Key(), Args: []*Term{c.Term(x.X)}, Instr: in, Facts: facts.Clone(), Path: path, C: c, Flow: fl, VType: chanElemShort(x.Chan.Type())})
	case *ssa.Select:
		// a send arm of a select is a (possible) send with the facts of this point
		for _, st := range x.States {
			if st.Dir == types.SendOnly {
				w.emit(&Effect{Kind: "send", Name: c.Term(st.Chan).Key(), Args: []*Term{c.Term(st.Send)}, Instr: in, Facts: facts.Clone(), Path: path, C: c, Flow: fl, VType: chanElemShort(st.Chan.Type())})
			}
		}
	case ssa.CallInstruction:
		cc := x.Common()
		if isLoggingCall(cc) {
			return
		}
		if b, ok := cc.Value.(*ssa.Builtin); ok {
			if b.Name() == "delete" {
				if l := a.addrLoc(cc.Args[0]); l != "" {
					w.emit(&Effect{Kind: "mapdelete", Name: l, Args: c.args(cc.Args), Instr: in, Facts: facts.Clone(), Path: path, C: c, Flow: fl})
				}
			}
			return
		}
		kind := "call"
		switch in.(type) {
		case *ssa.Defer:
			kind = "defer"
		case *ssa.Go:
			kind = "go"
		}
		// name and args
		var name string
		var args []*Term
		var callees []*ssa.Function
		var bindings []*Term
		if cc.IsInvoke() {
			name = methodShort(cc.Method)
			args = append([]*Term{c.Term(cc.Value)}, c.args(cc.Args)...)
			if v, ok := in.(ssa.Value); ok {
				args = c.freeze(v, args)
			}
			callees = w.dynCallees(in)
		} else if f := cc.StaticCallee(); f != nil {
			name = shortName(f)
			args = c.args(cc.Args)
			if v, ok := in.(ssa.Value); ok {
				args = c.freeze(v, args)
			}
			if mc, ok := cc.Value.(*ssa.MakeClosure); ok {
				bindings = c.args(mc.Bindings)
			}
			callees = []*ssa.Function{f}
		} else {
			fv := c.Term(cc.Value)
			args = c.args(cc.Args)
			name = "dyn:" + fv.Key()
			if fv.Op == "closure" || fv.Op == "func" {
				if f := a.P.FuncByID[fv.Name]; f != nil {
					callees = []*ssa.Function{f}
					bindings = fv.Args
					name = shortName(f)
				}
			}
			if callees == nil {
				callees = w.dynCallees(in)
				// a field holding a callback: name it after the field
				if fv.Op == "field" {
					name = "dyn:field:" + fv.Name
				}
			}
		}
		var term *Term
		if v, ok := in.(*ssa.Call); ok {
			term = c.Term(v)
		}
		vtype := ""
		if !cc.IsInvoke() && cc.StaticCallee() == nil {
			vtype = typeShort(cc.Value.Type())
		}
		eff := &Effect{Kind: kind, Name: name, Args: args, Term: term, Instr: in, Facts: facts.Clone(), Path: path, C: c, Flow: fl, VType: vtype}
		if w.Inject != nil {
			for _, at := range w.Inject(eff) {
				facts.Add(at)
				eff.Facts.Add(at)
			}
		}
		w.emit(eff)
		if w.DescendSpawn && name == "time.AfterFunc" && len(args) == 2 && (args[1].Op == "closure" || args[1].Op == "func") {
			if f := a.P.FuncByID[args[1].Name]; f != nil && f.Blocks != nil && !onPath[f] {
				env := bindEnv(a, f, nil, args[1].Args)
				for _, p := range f.FreeVars {
					if s := a.singletonOf(p.Type()); s != "" {
						env[p] = This(s)
					} else if env[p] == nil {
						env[p] = Unk("free:" + funcID(f) + ":" + p.Name())
					}
				}
				np := append(append([]Frame{}, path...), Frame{Fn: funcID(f), Site: a.P.InstrPos(in) + "(timer)", CallerC: c, Call: in})
				w.visit(f, env, Facts{}, np, onPath)
			}
		}
		for _, f := range callees {
			if f.Blocks == nil || !inLibraryScope(funcPkgPath(f)) || isSpecTypesPkg(funcPkgPath(f)) {
				continue
			}
			if (a.effectFree[f] && !a.reachesQuorumTest(f)) || w.NoDescend[shortName(f)] {
				continue // (pure helpers are walked only when a quorum test sits inside them: G7 judges every such test)
			}
			if onPath[f] {
				w.emit(&Effect{Kind: "recursion", Name: shortName(f), Args: args, Instr: in, Facts: facts.Clone(), Path: path, C: c, Flow: fl})
				continue
			}
			cargs := args
			if cc.IsInvoke() {
				// receiver is args[0]; concrete method takes it as first param
			}
			env := bindEnv(a, f, cargs, bindings)
			// singleton parameters
			for _, p := range f.Params {
				if s := a.singletonOf(p.Type()); s != "" {
					env[p] = This(s)
				}
			}
			for _, p := range f.FreeVars {
				if s := a.singletonOf(p.Type()); s != "" {
					env[p] = This(s)
				} else if env[p] == nil {
					env[p] = Unk("free:" + funcID(f) + ":" + p.Name())
				}
			}
			for i, p := range f.Params {
				if env[p] == nil {
					env[p] = Unk("param:" + funcID(f) + ":" + itoa(i))
				}
			}
			np := append(append([]Frame{}, path...), Frame{Fn: funcID(f), Site: a.P.InstrPos(in), CallerC: c, Call: in})
			w.visit(f, env, facts.Clone(), np, onPath)
		}
	}
}

// dynCallees: VTA-resolved callees of an invoke / func-value call, library scope only.
func (w *Walker) dynCallees(in ssa.Instruction) []*ssa.Function {
	n := w.A.P.VTA().Nodes[in.Parent()]
	if n == nil {
		return nil
	}
	var res []*ssa.Function
	seen := map[*ssa.Function]bool{}
	for _, e := range n.Out {
		if e.Site == in && !seen[e.Callee.Func] {
			seen[e.Callee.Func] = true
			res = append(res, e.Callee.Func)
		}
	}
	sort.Slice(res, func(i, j int) bool { return funcID(res[i]) < funcID(res[j]) })
	return res
}


// diamondWithPhi: both arms of the If at the end of b reach a join block (dominated by b, not a loop header of b's loop)
// that has a phi with different incoming values from the two sides.
func diamondWithPhi(b *ssa.BasicBlock) bool {
	if len(b.Succs) != 2 {
		return false
	}
	reach := func(from *ssa.BasicBlock) map[*ssa.BasicBlock]bool {
		seen := map[*ssa.BasicBlock]bool{}
		stack := []*ssa.BasicBlock{from}
		for len(stack) > 0 {
			n := stack[len(stack)-1]
			stack = stack[:len(stack)-1]
			if seen[n] || n == b {
				continue
			}
			seen[n] = true
			stack = append(stack, n.Succs...)
		}
		return seen
	}
	r0, r1 := reach(b.Succs[0]), reach(b.Succs[1])
	for j := range r0 {
		if !r1[j] || j == b || j.Dominates(b) {
			continue // the header of an enclosing loop is reached from both arms too, but is not a join of this diamond
		}
		for _, in := range j.Instrs {
			phi, ok := in.(*ssa.Phi)
			if !ok {
				break
			}
			// incoming values differ
			var first ssa.Value
			for _, e := range phi.Edges {
				if first == nil {
					first = e
				} else if e != first {
					return true
				}
			}
		}
	}
	return false
}


func isNilTestOfCall(a *Atom) bool {
	if a.Pred != "eq" || len(a.Args) != 2 {
		return false
	}
	x, y := a.Args[0], a.Args[1]
	if x.Key() == tNil.Key() {
		x, y = y, x
	}
	return y.Key() == tNil.Key() && x.Op == "call"
}

// diamondWithCalls: both arms of the If at the end of b rejoin and each arm calls something (other than logging) before the join.
func diamondWithCalls(b *ssa.BasicBlock) bool {
	if len(b.Succs) != 2 {
		return false
	}
	reach := func(from *ssa.BasicBlock) map[*ssa.BasicBlock]bool {
		seen := map[*ssa.BasicBlock]bool{}
		stack := []*ssa.BasicBlock{from}
		for len(stack) > 0 {
			n := stack[len(stack)-1]
			stack = stack[:len(stack)-1]
			if seen[n] || n == b {
				continue
			}
			seen[n] = true
			stack = append(stack, n.Succs...)
		}
		return seen
	}
	r0, r1 := reach(b.Succs[0]), reach(b.Succs[1])
	joined := false
	for j := range r0 {
		if r1[j] {
			joined = true
		}
	}
	if !joined {
		return false
	}
	only := func(r, other map[*ssa.BasicBlock]bool) bool {
		for j := range r {
			if other[j] {
				continue
			}
			for _, in := range j.Instrs {
				c, ok := in.(ssa.CallInstruction)
				if !ok {
					continue
				}
				if !isLoggingCall(c.Common()) && (c.Common().IsInvoke() || c.Common().StaticCallee() != nil) {
					return true
				}
			}
		}
		return false
	}
	return only(r0, r1) && only(r1, r0)
}

func isPointerTest(v ssa.Value) bool {
	bo, ok := v.(*ssa.BinOp)
	if !ok {
		return false
	}
	_, isPtr := bo.X.Type().Underlying().(*types.Pointer)
	return isPtr
}

func isSelectIndex(t *Term) bool {
	return t.Op == "ext" && t.Name == "0" && len(t.Args) == 1 && t.Args[0].Op == "select"
}


// splitCall: the first call in fn to a static library callee that is effectful, not inlinable, returns a verdict
// (error / ok) together with other values, and has at least two successful return sites whose values differ.
// Returns the call and the outcomes to explore: each successful return site, then nil for "a failing return".
func (w *Walker) splitCall(fn *ssa.Function) (ssa.Instruction, []*ssa.Return) {
	a := w.A
	for _, b := range fn.Blocks {
		for _, in := range b.Instrs {
			call, ok := in.(*ssa.Call)
			if !ok {
				continue
			}
			if _, chosen := w.retChoice[in]; chosen {
				continue
			}
			g := call.Call.StaticCallee()
			if g == nil || g.Blocks == nil || !inLibraryScope(funcPkgPath(g)) || isSpecTypesPkg(funcPkgPath(g)) {
				continue
			}
			if a.isInlinable(g) || g.Signature.Results().Len() < 1 {
				continue
			}
			// an effect-free helper whose value cannot be stated as one term (a type switch returning a tuple per case)
			// is explored per return site like a value-verdict helper; other effect-free helpers keep their summaries
			pureHelper := a.effectFree[g]
			if pureHelper && g.Signature.Results().Len() < 2 {
				continue
			}
			if g.Object() != nil && g.Object().Exported() {
				continue // anchors keep their summaries
			}
			if call.Referrers() == nil || len(*call.Referrers()) == 0 {
				continue
			}
			sm := a.Summary(g)
			if sm == nil {
				continue
			}
			if sm.resIdx >= 0 && pureHelper {
				continue
			}
			if sm.resIdx < 0 {
				// no error / bool verdict: a helper that reports its outcome as a value (a result struct, an enum) from
				// several return sites is explored once per site as well, when the returned values tell the sites apart
				gc := a.NewFCtx(g, placeholderEnv(a, g), 0)
				var rets []*ssa.Return
				vals := map[string]bool{}
				closed := true
				for _, gb := range g.Blocks {
					ret, ok := gb.Instrs[len(gb.Instrs)-1].(*ssa.Return)
					if !ok {
						continue
					}
					rets = append(rets, ret)
					var ks []string
					for _, r := range ret.Results {
						t := gc.Term(r)
						if t.Contains(func(x *Term) bool { return x.Op == "phi" || x.Op == "unk" }) {
							closed = false
						}
						ks = append(ks, t.Key())
					}
					vals[strings.Join(ks, "|")] = true
				}
				if closed && len(rets) >= 2 && len(rets) <= 6 && len(vals) == len(rets) {
					return in, rets
				}
				continue
			}
			gc := a.NewFCtx(g, placeholderEnv(a, g), 0)
			var succ []*ssa.Return
			vals := map[string]bool{}
			for _, gb := range g.Blocks {
				ret, ok := gb.Instrs[len(gb.Instrs)-1].(*ssa.Return)
				if !ok || sm.resIdx >= len(ret.Results) {
					continue
				}
				rt := gc.Term(ret.Results[sm.resIdx])
				failing := false
				switch sm.resKind {
				case "error":
					// (a delegated verdict `return check(..)` is a possibly-successful site: explored with check(..) == nil assumed)
					delegated := false // (exploring delegated verdict sites as outcomes made other summaries coarser: not done)
					failing = isErrCtor(rt) || (rt.Key() != tNil.Key() && rt.Op != "phi" && !delegated && !(wrappedErr(rt) != nil && wrappedErr(rt).Key() == tNil.Key()))
				case "bool":
					failing = rt.Key() == tFalse.Key()
				}
				if failing {
					continue
				}
				succ = append(succ, ret)
				var ks []string
				for i, r := range ret.Results {
					if i != sm.resIdx {
						ks = append(ks, gc.Term(r).Key())
					}
				}
				vals[strings.Join(ks, "|")] = true
			}
			// several successful return sites: with different values (extract-method returning results), or - for a
			// verdict-only helper - reached under different conditions ("not my business" vs "checked and fine")
			if len(succ) < 2 || len(vals) < 2 || len(succ) > 4 {
				continue
			}
			if pureHelper && g.Signature.Results().Len() > 1 {
				continue
			}
			return in, append(succ, nil)
		}
	}
	return nil, nil
}


// PathConds: the conditions (as boolean terms, in entry-root terms) of every If that lies on some path to the effect,
// in the effect's function and in each caller on the call path.
func (e *Effect) PathConds() []*Term {
	var out []*Term
	collect := func(c *FCtx, target ssa.Instruction) {
		if c == nil || target == nil {
			return
		}
		tb := target.Block()
		// blocks from which tb is reachable
		reach := map[*ssa.BasicBlock]bool{tb: true}
		for changed := true; changed; {
			changed = false
			for _, b := range c.Fn.Blocks {
				if reach[b] {
					continue
				}
				for _, s := range b.Succs {
					if reach[s] {
						reach[b] = true
						changed = true
						break
					}
				}
			}
		}
		for _, b := range c.Fn.Blocks {
			if !reach[b] || b == tb {
				continue
			}
			if e.Arm != nil && c.Fn == e.Arm.Parent() && !e.Arm.Dominates(b) {
				continue // tests of other arms / earlier iterations of the event loop are not conditions of this arm
			}
			if ifi, ok := b.Instrs[len(b.Instrs)-1].(*ssa.If); ok {
				out = append(out, c.Term(ifi.Cond))
			}
		}
	}
	for _, f := range e.Path {
		collect(f.CallerC, f.Call)
	}
	collect(e.C, e.Instr)
	return out
}

// chanElemShort: short name of a channel's element type ("" if not a channel)
func chanElemShort(t types.Type) string {
	if ch, ok := t.Underlying().(*types.Chan); ok {
		return typeShort(ch.Elem())
	}
	return ""
}

// coverage bookkeeping (LH_COVERAGE): which library functions some walker has walked
var (
	visitedMu  sync.Mutex
	visitedAll = map[string]bool{}
)

func noteVisited(fn *ssa.Function) {
	visitedMu.Lock()
	visitedAll[funcID(fn)] = true
	visitedMu.Unlock()
}

// reachesQuorumTest: f (transitively, through library code) calls quorum.IsQuorum / quorum.HasHonest.
func (a *Analyzer) reachesQuorumTest(f *ssa.Function) bool {
	if a.quorumReach == nil {
		a.quorumReach = map[*ssa.Function]int{}
	}
	var visit func(g *ssa.Function, depth int) bool
	visit = func(g *ssa.Function, depth int) bool {
		if v, ok := a.quorumReach[g]; ok {
			return v == 1
		}
		a.quorumReach[g] = 2 // in progress: treated as "no" on cycles
		res := false
		sn := shortName(g)
		if sn == "quorum.IsQuorum" || sn == "quorum.HasHonest" {
			res = true
		} else if depth < 8 {
			for _, h := range a.calleesOf(g) {
				if visit(h, depth+1) {
					res = true
					break
				}
			}
		}
		if res {
			a.quorumReach[g] = 1
		} else {
			a.quorumReach[g] = 0
		}
		return res
	}
	return visit(f, 0)
}
