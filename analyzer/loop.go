package main

import (
	"go/token"
	"go/types"
	"strings"

	"golang.org/x/tools/go/ssa"
)

// Loop is a natural loop of one function with the iteration idiom that was recognised (DESIGN §2.7).
type Loop struct {
	Fn      *ssa.Function
	Header  *ssa.BasicBlock
	Body    map[*ssa.BasicBlock]bool // includes the header
	Latches []*ssa.BasicBlock
	ID      string

	Kind     string    // rangeindex | classic | iterator | maprange | other
	IndexVal ssa.Value // value used to index the collection inside the body (rangeindex/classic)
	Coll     ssa.Value // ranged slice / iterator receiver / ranged map
	RangeIt  ssa.Value // maprange: the *ssa.Range value
	NextVal  ssa.Value // maprange: the Next tuple

	NormalExits [][2]*ssa.BasicBlock // header -> outside
	Clean       bool                 // every other exit leaves the function without rejoining
}

type LoopInfo struct {
	Loops    []*Loop
	ByHeader map[*ssa.BasicBlock]*Loop
}

func (li *LoopInfo) Innermost(b *ssa.BasicBlock) *Loop {
	var best *Loop
	for _, l := range li.Loops {
		if l.Body[b] {
			if best == nil || len(l.Body) < len(best.Body) {
				best = l
			}
		}
	}
	return best
}

func analyzeLoops(fn *ssa.Function) *LoopInfo {
	li := &LoopInfo{ByHeader: map[*ssa.BasicBlock]*Loop{}}
	for _, b := range fn.Blocks {
		for _, s := range b.Succs {
			if s.Dominates(b) { // back edge b -> s
				l := li.ByHeader[s]
				if l == nil {
					l = &Loop{Fn: fn, Header: s, Body: map[*ssa.BasicBlock]bool{s: true}, ID: funcID(fn) + "#" + itoa(s.Index)}
					li.ByHeader[s] = l
					li.Loops = append(li.Loops, l)
				}
				l.Latches = append(l.Latches, b)
				// body: nodes reaching b without passing through s
				var stack []*ssa.BasicBlock
				if !l.Body[b] {
					l.Body[b] = true
					stack = append(stack, b)
				}
				for len(stack) > 0 {
					n := stack[len(stack)-1]
					stack = stack[:len(stack)-1]
					for _, p := range n.Preds {
						if !l.Body[p] {
							l.Body[p] = true
							stack = append(stack, p)
						}
					}
				}
			}
		}
	}
	for _, l := range li.Loops {
		classifyLoop(l)
	}
	return li
}

func classifyLoop(l *Loop) {
	l.Kind = "other"
	h := l.Header
	// exits
	var abnormal []*ssa.BasicBlock
	for b := range l.Body {
		for _, s := range b.Succs {
			if !l.Body[s] {
				if b == h {
					l.NormalExits = append(l.NormalExits, [2]*ssa.BasicBlock{b, s})
				} else {
					abnormal = append(abnormal, s)
				}
			}
		}
	}
	l.Clean = true
	for _, t := range abnormal {
		// t must not reach the header or any normal-exit target
		seen := map[*ssa.BasicBlock]bool{}
		stack := []*ssa.BasicBlock{t}
		for len(stack) > 0 && l.Clean {
			n := stack[len(stack)-1]
			stack = stack[:len(stack)-1]
			if seen[n] {
				continue
			}
			seen[n] = true
			if n == h {
				l.Clean = false
			}
			for _, ne := range l.NormalExits {
				if ne[1] == n {
					l.Clean = false
				}
			}
			stack = append(stack, n.Succs...)
		}
	}

	// the header must end in an If to be a recognised bounded idiom
	ifInstr, _ := h.Instrs[len(h.Instrs)-1].(*ssa.If)
	if ifInstr == nil {
		return
	}
	cond := ifInstr.Cond
	// rangeindex: phi(-1, phi+1); cond (phi+1) < len
	if bo, ok := cond.(*ssa.BinOp); ok && bo.Op == token.LSS {
		if lenCall, ok := bo.Y.(*ssa.Call); ok && isBuiltin(lenCall, "len") {
			if add, ok := bo.X.(*ssa.BinOp); ok && add.Op == token.ADD && isConstInt(add.Y, 1) {
				if phi, ok := add.X.(*ssa.Phi); ok && phi.Block() == h && phiInit(phi, l, -1) && phiStep(phi, l, add) {
					l.Kind = "rangeindex"
					l.IndexVal = add
					l.Coll = lenCall.Call.Args[0]
					return
				}
			}
			if phi, ok := bo.X.(*ssa.Phi); ok && phi.Block() == h && phiInit(phi, l, 0) {
				// classic: i = phi(0, i+1)
				for i, e := range phi.Edges {
					if l.Body[h.Preds[i]] {
						if add, ok := e.(*ssa.BinOp); ok && add.Op == token.ADD && add.X == phi && isConstInt(add.Y, 1) {
							l.Kind = "classic"
							l.IndexVal = phi
							l.Coll = lenCall.Call.Args[0]
						}
					}
				}
				if l.Kind == "classic" {
					return
				}
			}
		}
	}
	// maprange: cond = extract(next(range m)) #0
	if ex, ok := cond.(*ssa.Extract); ok && ex.Index == 0 {
		if nx, ok := ex.Tuple.(*ssa.Next); ok && !nx.IsString {
			if rg, ok := nx.Iter.(*ssa.Range); ok {
				l.Kind = "maprange"
				l.RangeIt = rg
				l.NextVal = nx
				l.Coll = rg.X
				return
			}
		}
	}
	// iterator: cond = it.HasNext() (possibly negated by successor order)
	var c ssa.Value = cond
	if u, ok := c.(*ssa.UnOp); ok && u.Op == token.NOT {
		c = u.X
	}
	if call, ok := c.(*ssa.Call); ok {
		if callee := call.Call.StaticCallee(); callee != nil && callee.Name() == "HasNext" && len(call.Call.Args) == 1 && isIteratorType(call.Call.Args[0].Type()) {
			recv := call.Call.Args[0]
			if !definedIn(recv, l) {
				l.Kind = "iterator"
				l.Coll = recv
				return
			}
		}
	}
}

func isIteratorType(t types.Type) bool {
	if p, ok := t.(*types.Pointer); ok {
		t = p.Elem()
	}
	n, ok := t.(*types.Named)
	if !ok {
		return false
	}
	return strings.HasSuffix(n.Obj().Name(), "Iterator") || n.Obj().Name() == "Iterator"
}

func definedIn(v ssa.Value, l *Loop) bool {
	if in, ok := v.(ssa.Instruction); ok {
		return l.Body[in.Block()]
	}
	return false
}

func isBuiltin(c *ssa.Call, name string) bool {
	b, ok := c.Call.Value.(*ssa.Builtin)
	return ok && b.Name() == name
}

func isConstInt(v ssa.Value, n int64) bool {
	c, ok := v.(*ssa.Const)
	if !ok || c.Value == nil {
		return false
	}
	return c.Int64() == n
}

func phiInit(phi *ssa.Phi, l *Loop, n int64) bool {
	for i, e := range phi.Edges {
		if !l.Body[phi.Block().Preds[i]] {
			if !isConstInt(e, n) {
				return false
			}
		}
	}
	return true
}

func phiStep(phi *ssa.Phi, l *Loop, step ssa.Value) bool {
	for i, e := range phi.Edges {
		if l.Body[phi.Block().Preds[i]] {
			if e != step {
				return false
			}
		}
	}
	return true
}

// dominatesAllLatches: block b is executed in every completed iteration of l.
func (l *Loop) dominatesAllLatches(b *ssa.BasicBlock) bool {
	for _, lt := range l.Latches {
		if !b.Dominates(lt) {
			return false
		}
	}
	return true
}
