package main

import (
	"fmt"
	"os"
	"go/types"
	"strings"

	"golang.org/x/tools/go/ssa"
)

// summary of a library function over parameter placeholders (DESIGN §2.6).
type summary struct {
	fn      *ssa.Function
	params  []*Term // placeholder per parameter then per free variable
	self    *Term   // the call term of fn applied to its placeholders
	succ    Facts   // hold when the designated result signals success
	fail    Facts   // hold when it signals failure
	post    Facts   // hold after any normal return
	resIdx  int     // index of the designated result (-1 none)
	resKind string  // "error" | "bool" | ""
	nres    int
	busy    bool
	specialised bool // computed for concrete arguments: no instantiation needed
}

func isErrorType(t types.Type) bool {
	n, ok := t.(*types.Named)
	return ok && n.Obj().Pkg() == nil && n.Obj().Name() == "error"
}

func isBoolType(t types.Type) bool {
	b, ok := t.Underlying().(*types.Basic)
	return ok && b.Kind() == types.Bool
}

// isErrCtor: a call that always yields a non-nil error. The Wrap family of pkg/errors is NOT one: errors.Wrap(nil, ..)
// is nil (see wrappedErr).
func isErrCtor(t *Term) bool {
	if t.Op != "call" {
		return false
	}
	if wrappedErr(t) != nil {
		return false
	}
	return strings.HasPrefix(t.Name, "errors.") || t.Name == "fmt.Errorf"
}

// wrappedErr: for errors.Wrap / Wrapf / WithMessage / WithMessagef / WithStack (err, ...) the wrapped error: the call is
// nil exactly when that error is nil.
func wrappedErr(t *Term) *Term {
	if t.Op != "call" || len(t.Args) == 0 {
		return nil
	}
	switch t.Name {
	case "errors.Wrap", "errors.Wrapf", "errors.WithMessage", "errors.WithMessagef", "errors.WithStack":
		return t.Args[0]
	}
	return nil
}

func (a *Analyzer) Summary(fn *ssa.Function) *summary {
	id := funcID(fn)
	if s, ok := a.summaries[id]; ok {
		if s.busy {
			return nil
		}
		return s
	}
	s := &summary{fn: fn, busy: true, resIdx: -1}
	a.summaries[id] = s
	env := map[ssa.Value]*Term{}
	for i, p := range fn.Params {
		var t *Term
		if sg := a.singletonOf(p.Type()); sg != "" {
			t = This(sg)
		} else {
			t = T("param", itoa(i))
		}
		env[p] = t
		s.params = append(s.params, t)
	}
	for i, fv := range fn.FreeVars {
		var t *Term
		if sg := a.singletonOf(fv.Type()); sg != "" {
			t = This(sg)
		} else {
			t = T("param", "f"+itoa(i))
		}
		env[fv] = t
		s.params = append(s.params, t)
	}
	s.self = mkCall(shortName(fn), s.params)
	a.fillSummary(s, env, Facts{}, nil)
	s.busy = false
	return s
}

// SummaryUnder: the summary of fn specialised to the actual arguments and to what the caller knows about them
// (context-sensitive: a validator that branches on a flag parameter is summarised for the flag's known value).
func (a *Analyzer) SummaryUnder(fn *ssa.Function, args []*Term, ctxFacts Facts, assume []*Atom) *summary {
	if a.ctxDepth >= 2 {
		return a.Summary(fn)
	}
	// only worth it when an argument is constrained by the context: a constant / assumed flag, or a fact about it
	init := Facts{}
	var argKeys []string
	for _, t := range args {
		if t.Op == "this" {
			continue
		}
		argKeys = append(argKeys, t.Key())
	}
	selfKey := mkCall(shortName(fn), args).Key()
	w := a.writes[fn]
	for k, f := range ctxFacts {
		if f.Pred == "done" || f.Pred == "forall" || f.Pred == "unique" {
			continue
		}
		// the context is consulted after the call ran: facts about state the callee writes, or about its own
		// result, describe the post-state and must not be fed back as its pre-state
		if strings.Contains(k, selfKey) {
			continue
		}
		post := false
		for l := range a.atomReads(f) {
			if w[l] {
				post = true
			}
		}
		if post {
			continue
		}
		for _, ak := range argKeys {
			if len(ak) > 6 && strings.Contains(k, ak) && len(k) < len(ak)+40 {
				init[k] = f
				break
			}
		}
	}
	for _, at := range assume {
		if !at.Mentions(func(t *Term) bool { return t.Op == "var" }) {
			for _, ak := range argKeys {
				if strings.Contains(at.Key(), ak) {
					init.Add(at)
				}
			}
		}
	}
	hasConst := false
	for _, t := range args {
		if t.Op == "const" && (t.Name == "true" || t.Name == "false") {
			hasConst = true
		}
	}
	hasPattern := false
	for _, at := range assume {
		if at.Mentions(func(t *Term) bool { return t.Op == "var" }) {
			hasPattern = true
		}
	}
	if len(init) == 0 && !hasConst && !hasPattern {
		return a.Summary(fn)
	}
	var kb strings.Builder
	kb.WriteString(funcID(fn))
	for _, t := range args {
		kb.WriteString("|" + t.Key())
	}
	kb.WriteString("#" + strings.Join(init.SortedKeys(), ";"))
	for _, at := range assume {
		kb.WriteString("~" + at.Key())
	}
	key := kb.String()
	if s, ok := a.ctxSummaries[key]; ok {
		if s.busy {
			return a.Summary(fn)
		}
		return s
	}
	if a.ctxSummaries == nil {
		a.ctxSummaries = map[string]*summary{}
	}
	s := &summary{fn: fn, busy: true, resIdx: -1, specialised: true}
	a.ctxSummaries[key] = s
	env := map[ssa.Value]*Term{}
	for i, p := range fn.Params {
		var t *Term
		if sg := a.singletonOf(p.Type()); sg != "" {
			t = This(sg)
		} else if i < len(args) {
			t = args[i]
		} else {
			t = T("param", itoa(i))
		}
		env[p] = t
		s.params = append(s.params, t)
	}
	for i, fv := range fn.FreeVars {
		var t *Term
		if sg := a.singletonOf(fv.Type()); sg != "" {
			t = This(sg)
		} else if len(fn.Params)+i < len(args) {
			t = args[len(fn.Params)+i]
		} else {
			t = T("param", "f"+itoa(i))
		}
		env[fv] = t
		s.params = append(s.params, t)
	}
	s.self = mkCall(shortName(fn), s.params)
	a.ctxDepth++
	a.fillSummary(s, env, init, assume)
	a.ctxDepth--
	s.busy = false
	return s
}

func (a *Analyzer) fillSummary(s *summary, env map[ssa.Value]*Term, init Facts, assume []*Atom) {
	fn := s.fn
	res := fn.Signature.Results()
	s.nres = res.Len()
	for i := res.Len() - 1; i >= 0; i-- {
		if isErrorType(res.At(i).Type()) {
			s.resIdx, s.resKind = i, "error"
			break
		}
	}
	if s.resIdx < 0 && res.Len() > 1 && isBoolType(res.At(res.Len()-1).Type()) {
		s.resIdx, s.resKind = res.Len()-1, "bool" // (value, ok) idiom
	}
	if s.resIdx < 0 && res.Len() > 0 && isBoolType(res.At(0).Type()) {
		s.resIdx, s.resKind = 0, "bool"
	}
	c := a.NewFCtx(fn, env, 0)
	fl := a.NewFlow(c, init.Clone(), assume...)
	if len(assume) > 0 || len(init) > 0 {
		if dead := fl.DeadEdges(); len(dead) > 0 {
			c = a.NewFCtx(fn, env, 0)
			c.DeadEdge = dead
			fl = a.NewFlow(c, init.Clone(), assume...)
		}
	}
	var succ, fail, post Facts
	for _, b := range fn.Blocks {
		ret, ok := b.Instrs[len(b.Instrs)-1].(*ssa.Return)
		if !ok || fl.In[b] == nil {
			continue
		}
		facts := fl.At(ret)
		// facts that were only inherited from the caller's context are not part of the summary
		for k := range init {
			delete(facts, k)
		}
		if post == nil {
			post = facts.Clone()
		} else {
			post = post.Intersect(facts)
		}
		if s.resIdx < 0 || s.resIdx >= len(ret.Results) {
			continue
		}
		rt := c.Term(ret.Results[s.resIdx])
		var okAtom *Atom
		failing := false
		switch s.resKind {
		case "error":
			if rt.Key() == tNil.Key() {
				okAtom = nil
			} else if isErrCtor(rt) {
				failing = true
			} else if w := wrappedErr(rt); w != nil {
				// nil exactly when the wrapped error is nil
				if w.Key() == tNil.Key() {
					okAtom = nil
				} else {
					okAtom = atomOf(Bin("==", w, tNil), a.P.InstrPos(ret))
				}
			} else {
				okAtom = atomOf(Bin("==", rt, tNil), a.P.InstrPos(ret))
			}
		case "bool":
			if rt.Key() == tTrue.Key() {
				okAtom = nil
			} else if rt.Key() == tFalse.Key() {
				failing = true
			} else {
				okAtom = atomOf(rt, a.P.InstrPos(ret))
			}
		}
		if okAtom != nil && facts.Has(okAtom.Negate()) != nil {
			failing, okAtom = true, nil
		} else if okAtom != nil && facts.Has(okAtom) != nil {
			okAtom = nil
		}
		if !failing {
			sf := facts.Clone()
			if okAtom != nil {
				sf.Add(okAtom)
				fl.addDerived(sf, okAtom)
			}
			// value equalities for the other results
			if len(ret.Results) > 1 {
				for i, r := range ret.Results {
					if i == s.resIdx {
						continue
					}
					sf.Add(atomOf(Bin("==", mkExt(itoa(i), s.self), c.Term(r)), a.P.InstrPos(ret)))
				}
			}
			if succ == nil {
				succ = sf
			} else {
				succ = succ.Intersect(sf)
			}
		}
		if failing || okAtom != nil {
			ff := facts.Clone()
			if okAtom != nil {
				ff.Add(okAtom.Negate())
				fl.addDerived(ff, okAtom.Negate())
			}
			if fail == nil {
				fail = ff
			} else {
				fail = fail.Intersect(ff)
			}
		}
	}
	strip := func(f Facts) Facts {
		r := Facts{}
		for k, v := range f {
			if v.Pred == "done" {
				continue
			}
			r[k] = v
		}
		return r
	}
	// no feasible return with that verdict (e.g. under the caller's case split every path ends in the error return):
	// the corresponding edge in the caller is infeasible
	if s.resIdx >= 0 && post != nil {
		if succ == nil && fail != nil {
			succ = Facts{deadAtom.Key(): deadAtom}
		} else if fail == nil && succ != nil && len(assume) > 0 {
			fail = Facts{deadAtom.Key(): deadAtom}
		}
	}
	// what every normal return has executed (done atoms) stays in post: a caller of a helper knows what the helper must have done
	s.succ, s.fail, s.post = strip(succ), strip(fail), post
	if s.post == nil {
		s.post = Facts{}
	}
}

// instantiate the summary facts for concrete argument terms.
func (s *summary) inst(f Facts, args []*Term) []*Atom {
	if s.specialised {
		var out []*Atom
		for _, a := range f {
			out = append(out, a)
		}
		return out
	}
	m := map[string]*Term{}
	for i, p := range s.params {
		if p.Op == "param" && i < len(args) {
			m[p.Key()] = args[i]
		}
	}
	var out []*Atom
	for _, a := range f {
		out = append(out, a.Subst(m))
	}
	return out
}

// calleeOf finds the library function a call term refers to (non-inlined static calls only).
func (a *Analyzer) calleeOf(t *Term) *ssa.Function {
	if t.Op != "call" {
		return nil
	}
	fs := a.funcsByShort()[t.Name]
	if len(fs) == 1 {
		return fs[0]
	}
	// disambiguate by arity / receiver singleton
	var cands []*ssa.Function
	for _, f := range fs {
		if len(f.Params)+len(f.FreeVars) == len(t.Args) {
			ok := true
			if len(f.Params) > 0 && len(t.Args) > 0 && t.Args[0].Op == "this" {
				if a.singletonOf(f.Params[0].Type()) != t.Args[0].Name {
					ok = false
				}
			}
			if ok {
				cands = append(cands, f)
			}
		}
	}
	if len(cands) == 1 {
		return cands[0]
	}
	return nil
}

// Close expands validator results into the facts they imply (recursively, bounded).
func (a *Analyzer) Close(f Facts, depth int) Facts {
	if f == nil {
		return nil
	}
	res := f.Clone()
	if depth <= 0 {
		return res
	}
	work := make([]*Atom, 0, len(res))
	for _, at := range res {
		work = append(work, at)
	}
	for len(work) > 0 {
		at := work[len(work)-1]
		work = work[:len(work)-1]
		for _, d := range a.expand(at) {
			if _, ok := res[d.Key()]; !ok {
				if d.Site == "" {
					d.Site = at.Site
				}
				res[d.Key()] = d
				work = append(work, d)
			}
		}
	}
	return res
}

type sumCtx struct {
	facts  Facts
	assume []*Atom
}

func (a *Analyzer) summaryFor(fn *ssa.Function, args []*Term, ctx *sumCtx) *summary {
	if ctx != nil {
		return a.SummaryUnder(fn, args, ctx.facts, ctx.assume)
	}
	return a.Summary(fn)
}

func (a *Analyzer) expand(at *Atom) []*Atom { return a.expandCtx(at, nil) }

func (a *Analyzer) expandCtx(at *Atom, ctx *sumCtx) []*Atom {
	switch at.Pred {
	case "forall":
		inner := termAtom(at.Args[1], at.Site)
		var out []*Atom
		// a literal table (e.g. a slice of check closures run in a loop): the statement holds for each listed element
		if coll := at.Args[0]; coll.Op == "array" && len(coll.Args) > 0 && len(coll.Args) <= 16 {
			for _, el := range coll.Args {
				m := map[string]*Term{bound.Key(): el}
				inst := inner.Subst(m)
				// a call through a listed closure is a call of that function with its captured values
				dyn := map[string]*Term{}
				for _, t := range inst.Args {
					t.Walk(func(x *Term) {
						if x.Op == "calldyn" && len(x.Args) > 0 && (x.Args[0].Op == "closure" || x.Args[0].Op == "func") {
							if f := a.P.FuncByID[x.Args[0].Name]; f != nil {
								args := append(append([]*Term{}, x.Args[1:]...), x.Args[0].Args...)
								dyn[x.Key()] = mkCall(shortName(f), args)
							}
						}
					})
				}
				if len(dyn) > 0 {
					inst = inst.Subst(dyn)
				}
				inst.Site = at.Site
				out = append(out, inst)
			}
			return out
		}
		for _, d := range a.expandCtx(inner, nil) {
			out = append(out, &Atom{Pred: "forall", Args: []*Term{at.Args[0], atomTerm(d)}, Site: at.Site})
		}
		return out
	case "eq":
		// eq(call, nil) / eq(ext:k(call), nil)
		var other *Term
		if at.Args[0].Key() == tNil.Key() {
			other = at.Args[1]
		} else if at.Args[1].Key() == tNil.Key() {
			other = at.Args[0]
		} else {
			return nil
		}
		call := other
		idx := -1
		if other.Op == "ext" {
			call = other.Args[0]
			idx = atoi(other.Name)
		}
		fn := a.calleeOf(call)
		if fn == nil {
			return nil
		}
		s := a.summaryFor(fn, call.Args, ctx)
		if s == nil || s.resKind != "error" {
			return nil
		}
		if (idx >= 0 && idx != s.resIdx) || (idx < 0 && s.nres != 1) {
			return nil
		}
		if os.Getenv("LH_DEBUG_EXPAND") != "" && strings.Contains(call.Name, os.Getenv("LH_DEBUG_EXPAND")) {
			fmt.Fprintf(os.Stderr, "expand %s neg=%v specialised=%v succ=%d fail=%d\n", call.Name, at.Neg, s.specialised, len(s.succ), len(s.fail))
			for _, k := range s.succ.SortedKeys() {
				fmt.Fprintf(os.Stderr, "   succ %s\n", k)
			}
		}
		if at.Neg {
			return s.inst(s.fail, call.Args)
		}
		return s.inst(s.succ, call.Args)
	case "truth":
		other := at.Args[0]
		call := other
		idx := -1
		if other.Op == "ext" {
			call = other.Args[0]
			idx = atoi(other.Name)
		}
		fn := a.calleeOf(call)
		if fn == nil {
			return nil
		}
		s := a.summaryFor(fn, call.Args, ctx)
		if s == nil || s.resKind != "bool" {
			return nil
		}
		if (idx >= 0 && idx != s.resIdx) || (idx < 0 && s.nres != 1) {
			return nil
		}
		if at.Neg {
			return s.inst(s.fail, call.Args)
		}
		return s.inst(s.succ, call.Args)
	case "done":
		fn := a.calleeOf(at.Args[0])
		if fn == nil {
			return nil
		}
		s := a.Summary(fn)
		if s == nil {
			return nil
		}
		return s.inst(s.post, at.Args[0].Args)
	}
	return nil
}

func atoi(s string) int {
	n := 0
	for _, c := range s {
		if c < '0' || c > '9' {
			return -1
		}
		n = n*10 + int(c-'0')
	}
	return n
}
