package main

import (
	"go/token"
	"go/types"
	"strings"

	"golang.org/x/tools/go/ssa"
)

// Second-generation rules, added after the round-2 seeded changes showed gaps (DESIGN §9).

// ---------------------------------------------------------------- effect-site rules (called from ingest.onEffect)

func (ig *ingest) moreGates(e *Effect) {
	if e.Config != "" && e.Config != "vc-proof-and-block" {
		return
	}
	a, k := ig.a, ig.k
	pl := Field(k.TIC, "preparedLocally")
	isPrepared := T("and", "", Not(Bin("==", pl, tNil)), Field(pl, "isPreparedLocally"))
	switch {
	// LK0: becoming prepared sets the latch before the COMMIT is created / sent
	case e.Config == "" && e.Kind == "call" && e.Name == "messagesfactory.CreateCommitMessage" && len(e.Args) == 4:
		ev := a.NewEval(e, ig.r)
		h, v, x := ev.Arg(1), ev.Arg(2), ev.Arg(3)
		prepared := ev.Has(k.Quorum(T("append", "", Call("interfaces.GetPrepareSendersIds", k.ST, h, v, x), mid(snd(Ext(0, Call("interfaces.GetPreprepareMessage", k.ST, h, v))))))) != nil
		committed := ev.Has(k.Quorum(Call("interfaces.GetCommitSendersIds", k.ST, h, v, x))) != nil
		if prepared && !committed {
			ev.Require("LK0", props("C01", "C09", "C10"), "when the node becomes prepared in view v the prepared latch (latestView = v) is set before its COMMIT is signed (a failed send or a later step must not leave a node that sent COMMIT unlocked)", "",
				Eq(Field(pl, "latestView"), v), Truth(Field(pl, "isPreparedLocally")))
		}
	// L7.prepared: the prepared-quorum evaluation is not conditioned on the node being unprepared in every view
	case e.Config == "" && e.Kind == "call" && e.Name == "interfaces.GetPrepareSendersIds" && pathHas(e, "termincommittee"):
		ev := a.NewEval(e, ig.r)
		has := func(at *Atom) bool { return ev.Has(at) != nil }
		ev.Verdict("L7.prepared", props("C05", "C11"), "the prepared-quorum test for (h, v, hash) is not skipped merely because the node is already prepared in some other view (it must be able to prepare, and send COMMIT, again in a later view)", "",
			evalBool(isPrepared, has) != -1, "the path to the prepared test requires the node to be unprepared in every view")
		// ... and the only thing that may skip it is being prepared in exactly this view: no order comparison between
		// the view the node is prepared in and the view under test
		lv := Field(pl, "latestView").Key()
		var extra []string
		for _, ct := range ev.E.PathConds() {
			unsnap(ct).Walk(func(t *Term) {
				if t.Op == "bin" && (t.Name == "<" || t.Name == "<=") && len(t.Args) == 2 && (t.Args[0].ContainsKey(lv) || t.Args[1].ContainsKey(lv)) {
					extra = append(extra, PP(t))
				}
			})
		}
		extra = dedupSorted(extra)
		ev.Verdict("L7.prepared.exact", props("C05", "C09", "C11"), "the prepared-quorum test for view v is skipped only when the node is already prepared in exactly view v (being prepared in an older or newer view must not stop it from preparing, and locking, again)", "",
			len(extra) == 0, "the path to the prepared test orders the prepared view against another view: "+strings.Join(extra, ", "))
	// VC9: a non-empty proof is bound to the vote's instance
	case e.Config == "vc-proof-and-block" && e.Kind == "call" && e.Name == "interfaces.StoreViewChange" && len(e.Args) == 2 && isNetMsg(e.Args[1]):
		ev := a.NewEval(e, ig.r)
		H := hdr(ev.Arg(1))
		ev.Require("VC9", props("C08", "C04", "C11", "C01", "C07", "C09"), "a vote's non-empty prepared proof belongs to the vote's own instance", "net", Eq(inst(Call("protocol.PreprepareBlockRef", proofOf(H))), inst(H)))
	}
	// L7.NV: NEW_VIEW acceptance does not depend on the node's own prepared state
	if e.Config == "" && e.Kind == "store" && e.Name == "termincommittee.TermInCommittee.latestViewThatProcessedVCMOrNVM" {
		ev := a.NewEval(e, ig.r)
		if isNVPath(ev) {
			var bad []string
			for _, key := range ev.facts.SortedKeys() {
				f := ev.facts[key]
				if f.Pred == "done" {
					continue
				}
				if strings.Contains(key, pl.Key()) {
					bad = append(bad, PPAtom(f))
				}
			}
			ev.Verdict("L7.NV", props("C11", "C05"), "whether a NEW_VIEW is accepted does not depend on the receiver's own prepared state (a correct leader's NEW_VIEW is valid for every correct member)", "net", len(bad) == 0, "acceptance path tests the node's own lock: "+strings.Join(bad, ", "))
		}
	}
}

// proofInstanceInNV (NV9.inst): every embedded vote with a non-empty proof has the proof bound to the vote's instance.
// Decided semantically on the per-vote facts: assume the antecedents, propagate, look for the consequent.
func (ig *ingest) proofInstanceInNV(ev *Eval, votes *Term) {
	vh := Call("protocol.SignedHeader", bound)
	proof := Call("protocol.PreparedProof", vh)
	goal := Eq(inst(Call("protocol.PreprepareBlockRef", proof)), inst(vh))
	if ev.Has(ForAll(votes, goal)) != nil {
		ev.Verdict("NV9.inst", props("C07", "C04", "C08", "C11", "C01", "C09"), "every embedded vote that carries a non-empty prepared proof has that proof bound to the vote's own instance", "net", true, "")
		return
	}
	facts := Facts{}
	for _, key := range ev.facts.SortedKeys() {
		f := ev.facts[key]
		if f.Pred == "forall" && f.Args[0].Key() == votes.Key() {
			facts.Add(termAtom(f.Args[1], f.Site))
		}
	}
	facts.Add(Ne(proof, tNil))
	facts.Add(Lt(Const("0"), Len(raw(proof))))
	// propagate through negated conjunctions
	for i := 0; i < 4; i++ {
		for _, key := range facts.SortedKeys() {
			f := facts[key]
			if f.Pred != "truth" || !f.Neg || f.Args[0].Op != "and" {
				continue
			}
			has := func(at *Atom) bool { return facts.Has(at) != nil }
			var open []*Term
			dead := false
			for _, x := range f.Args[0].Args {
				switch evalBool(x, has) {
				case 1:
				case -1:
					dead = true
				default:
					open = append(open, x)
				}
			}
			if !dead && len(open) == 1 {
				if c := atomOf(open[0], f.Site); c != nil {
					facts.Add(c.Negate())
				}
			}
		}
	}
	ev.Verdict("NV9.inst", props("C07", "C04", "C08", "C11", "C01", "C09"), "every embedded vote that carries a non-empty prepared proof has that proof bound to the vote's own instance", "net", facts.Has(goal) != nil,
		"no per-vote fact yields PreprepareBlockRef.InstanceId == vote.InstanceId for a non-empty proof")
}

// ---------------------------------------------------------------- structural rules

// instrReaches: is `to` reachable from the point right after `from` (same function)?
func instrReaches(from, to ssa.Instruction) bool {
	b := from.Block()
	after := false
	for _, in := range b.Instrs {
		if after && in == to {
			return true
		}
		if in == from {
			after = true
		}
	}
	seen := map[*ssa.BasicBlock]bool{}
	stack := append([]*ssa.BasicBlock{}, b.Succs...)
	for len(stack) > 0 {
		n := stack[len(stack)-1]
		stack = stack[:len(stack)-1]
		if seen[n] {
			continue
		}
		seen[n] = true
		if n == to.Block() {
			// reached the block from its start: every instruction of it, including `to`
			return true
		}
		stack = append(stack, n.Succs...)
	}
	return false
}

func runMore(a *Analyzer, r *Results) {
	k := a.Anchors()
	// ---- consumer callbacks: each is invoked synchronously (not deferred, not in a goroutine) and at most once per
	// pass through the function that invokes it; the new-round callback runs before the future cache is drained
	{
		cbText := map[string]string{
			"interfaces.OnCommitCallback":            "G6.once",
			"interfaces.OnNewConsensusRoundCallback": "H6.cb.once",
		}
		count := map[string]int{}
		for _, f := range a.P.Funcs {
			var sites []ssa.Instruction
			var kinds []string
			var drains []ssa.Instruction
			for _, b := range f.Blocks {
				for _, in := range b.Instrs {
					ci, ok := in.(ssa.CallInstruction)
					if !ok {
						continue
					}
					cc := ci.Common()
					if g := cc.StaticCallee(); g != nil && funcID(g) == idE2 {
						drains = append(drains, in)
					}
					if cc.IsInvoke() || cc.StaticCallee() != nil {
						continue
					}
					if _, isB := cc.Value.(*ssa.Builtin); isB {
						continue
					}
					vt := typeShort(cc.Value.Type())
					if cbText[vt] == "" {
						continue
					}
					sites = append(sites, in)
					kinds = append(kinds, vt)
				}
			}
			for i, in := range sites {
				rule := cbText[kinds[i]]
				count[rule]++
				_, isCall := in.(*ssa.Call)
				why := ""
				if !isCall {
					why = "the callback is deferred or started in a goroutine: it runs after what follows in " + shortName(f)
				}
				for j, other := range sites {
					if kinds[j] == kinds[i] && why == "" && instrReaches(in, other) {
						why = "the callback can be invoked again at " + a.P.InstrPos(other) + " in the same pass (the same height is reported twice)"
					}
				}
				if kinds[i] == "interfaces.OnNewConsensusRoundCallback" && why == "" {
					for _, d := range drains {
						if instrReaches(d, in) {
							why = "the callback is reachable after the future cache was drained at " + a.P.InstrPos(d) + ": a cached message may already have started a later round"
						}
					}
				}
				text := "the commit callback is invoked synchronously and at most once per decided block (a height is never handed to the consumer twice)"
				pr := props("C13")
				if rule == "H6.cb.once" {
					text = "the new-round callback is invoked synchronously, at most once per round and before the future cache is drained (rounds are announced in increasing height order)"
					pr = props("C13")
				}
				r.Check(rule, pr, text, shortName(f), a.P.InstrPos(in), why == "", why, "P")
			}
		}
		// H7.drain: a round that installed a new term always goes on to drain the future cache into it (the messages
		// received ahead of time for this height are delivered when the node starts it, whatever its role in it)
		nTerm := 0
		for _, f := range a.P.Funcs {
			for _, b := range f.Blocks {
				for _, in := range b.Instrs {
					st, ok := in.(*ssa.Store)
					if !ok || a.addrLoc(st.Addr) != "leanhelix.WorkerLoop.leanHelixTerm" {
						continue
					}
					if kc, isConst := st.Val.(*ssa.Const); isConst && kc.IsNil() {
						continue
					}
					nTerm++
					ok2 := mustReach(in, func(i2 ssa.Instruction) bool {
						ci, ok := i2.(ssa.CallInstruction)
						if !ok {
							return false
						}
						g := ci.Common().StaticCallee()
						return g != nil && funcID(g) == idE2
					})
					r.Check("H7.drain", props("C17", "C08", "C10", "C07"), "once a round has installed its term, every path goes on to drain the future cache into it (messages cached for this height are delivered when the node starts it)", shortName(f), a.P.InstrPos(in), ok2,
						"a path after the new term is installed returns without draining the future cache", "P")
				}
			}
		}
		if nTerm == 0 {
			r.Undecided = append(r.Undecided, "H7.drain: no store of a new term found (anchor)")
		}
		for _, rule := range []string{"G6.once", "H6.cb.once"} {
			if count[rule] == 0 {
				r.Undecided = append(r.Undecided, rule+": no invocation of the consumer callback found (anchor)")
			}
		}
	}
	// ---- LK2.reset: the prepared latch (the node's lock) lives as long as the term: it is cleared only while a term is
	// constructed. Clearing it when a view changes would let the node vote without its prepared proof.
	{
		loc := "termincommittee.TermInCommittee.preparedLocally"
		ctor := a.P.Func("services/termincommittee.NewTermInCommittee")
		nClear := 0
		for _, f := range a.P.Funcs {
			for _, b := range f.Blocks {
				for _, in := range b.Instrs {
					st, ok := in.(*ssa.Store)
					if !ok || a.addrLoc(st.Addr) != loc {
						continue
					}
					c := a.NewFCtx(f, a.EntryEnv(f, nil), 0)
					v := c.Term(st.Val)
					sets := v.Op == "struct" && Field(v, "isPreparedLocally").Key() == tTrue.Key()
					if sets {
						continue
					}
					nClear++
					// every way to reach this store starts in the constructor
					bad := ""
					seen := map[*ssa.Function]bool{}
					var up func(g *ssa.Function, depth int)
					up = func(g *ssa.Function, depth int) {
						if seen[g] || bad != "" || g == ctor {
							return
						}
						seen[g] = true
						nd := a.P.CHA().Nodes[g]
						if depth > 4 || nd == nil || len(nd.In) == 0 || (g.Object() != nil && g.Object().Exported()) {
							bad = funcID(g)
							return
						}
						for _, e := range nd.In {
							if e.Caller.Func == nil || !inLibraryScope(funcPkgPath(e.Caller.Func)) {
								continue
							}
							up(e.Caller.Func, depth+1)
						}
					}
					up(f, 0)
					r.Check("LK2.reset", props("C01", "C09"), "the prepared latch (the node's lock on its prepared block) is cleared only while a term is constructed: it survives every view change of the height", shortName(f), a.P.InstrPos(in), bad == "",
						"the latch is cleared on a path that starts in "+bad+" (value "+PP(v)+")", "W")
				}
			}
		}
		if nClear == 0 {
			r.Check("LK2.reset", props("C01", "C09"), "the prepared latch (the node's lock on its prepared block) is cleared only while a term is constructed: it survives every view change of the height", "none", a.P.Pos(ctor.Pos()), true, "", "W")
		}
	}
	// ---- L9: every store into a message log is followed, on all paths, by the evaluation of the gate that log feeds
	gates := []struct{ store, gate, text string }{
		{"StorePrepare", "GetPrepareSendersIds", "prepared quorum"},
		{"StoreCommit", "GetCommitSendersIds", "commit quorum"},
		{"StoreViewChange", "GetViewChangeMessages", "election quorum"},
	}
	for _, f := range a.P.Funcs {
		if !strings.HasPrefix(funcPkgPath(f), modPath+"/services/termincommittee") {
			continue
		}
		for _, b := range f.Blocks {
			for _, in := range b.Instrs {
				ci, ok := in.(ssa.CallInstruction)
				if !ok {
					continue
				}
				cc := ci.Common()
				if !cc.IsInvoke() || typeShort(cc.Value.Type()) != "interfaces.Storage" {
					continue
				}
				for _, g := range gates {
					if cc.Method.Name() != g.store {
						continue
					}
					gatePred := func(i2 ssa.Instruction) bool { return callReaches(a, i2, "interfaces.Storage", g.gate) }
					ok2 := false
					if call, isCall := in.(*ssa.Call); isCall {
						// (a helper that stores and returns hands the obligation to its callers)
						ok2, _ = mustReachAfterSuccess(a, call, gatePred)
					} else {
						ok2 = mustReach(in, gatePred)
					}
					r.Check("L9", props("C05", "C11"), "every store into a message log is followed on every path by a re-evaluation of the quorum that log feeds (otherwise the message that completes the quorum is never acted upon)", shortName(f)+"|"+g.store, a.P.InstrPos(in), ok2,
						"a path from "+g.store+" returns without evaluating the "+g.text, "P")
				}
			}
		}
	}

	// ---- L2/L3/L5: a message the node has signed is sent (or, for the leader's own vote, stored and counted) on every path
	for _, f := range a.P.Funcs {
		if !strings.HasPrefix(funcPkgPath(f), modPath+"/services/termincommittee") {
			continue
		}
		for _, b := range f.Blocks {
			for _, in := range b.Instrs {
				call, ok := in.(*ssa.Call)
				if !ok {
					continue
				}
				sc := call.Call.StaticCallee()
				if sc == nil || sc.Signature.Recv() == nil || typeShort(sc.Signature.Recv().Type()) != "messagesfactory.MessageFactory" {
					continue
				}
				var alt string
				switch sc.Name() {
				case "CreatePrepareMessage", "CreateCommitMessage", "CreateNewViewMessage", "CreatePreprepareMessage":
				case "CreateViewChangeMessage":
					alt = "StoreViewChange" // the leader of the new view keeps its own vote instead of sending it
				default:
					continue
				}
				// (a helper that only builds the message hands it back to its caller: judged there)
				ok2, _ := mustReachAfterSuccess(a, call, func(i2 ssa.Instruction) bool {
					// the send must be unconditional once its helper is entered (no "already disposed" / "muted" switch in between)
					if callMustReach(a, i2, "interfaces.Communication", "SendConsensusMessage", 0) {
						return true
					}
					return alt != "" && callReaches(a, i2, "interfaces.Storage", alt)
				})
				r.Check("L2.sent", props("C05", "C09", "C11"), "a consensus message the node has signed is broadcast (the leader's own vote: stored and counted) on every path that follows its creation", shortName(f)+"|"+sc.Name(), a.P.InstrPos(in), ok2,
					"a path after "+sc.Name()+" returns without sending the message", "P")
			}
		}
	}

	// ---- NV13 / LK6: selection of the highest-proof vote (follower) and of the block to re-propose (leader)
	checkSelection(a, r, idVoteSel, "NV13", props("C07", "C09", "C01", "C05"), false)
	checkSelection(a, r, "services/blockextractor.GetLatestBlockFromViewChangeMessages", "LK6", props("C09", "C11", "C07", "C05", "C01"), true)

	// ---- LK4: ExtractPreparedMessages
	{
		id := "services/preparedmessages.ExtractPreparedMessages"
		fn := a.P.Func(id)
		if len(fn.Params) != 4 {
			broken("unresolved anchor: ExtractPreparedMessages no longer has 4 parameters")
		}
		h, v, cmt := Root(fn.Params[0].Name()), Root(fn.Params[1].Name()), Root(fn.Params[3].Name())
		st := k.ST
		effs, und := a.effectsOf(id, nil, true)
		r.Undecided = append(r.Undecided, und...)
		n := 0
		for _, e := range effs {
			if e.Kind != "return" || len(e.Args) != 1 || e.Args[0].Key() == tNil.Key() {
				continue
			}
			n++
			ev := a.NewEval(e, r)
			val := ev.Arg(0)
			ppm := Field(val, "PreprepareMessage")
			pms := Field(val, "PrepareMessages")
			okP := false
			var hashT *Term
			for _, getter := range []string{"interfaces.GetPreprepareFromView", "interfaces.GetPreprepareMessage"} {
				cand := Ext(0, Call(getter, st, h, v))
				if ev.Same(ppm, cand) && ev.Has(Truth(Ext(1, Call(getter, st, h, v)))) != nil {
					okP = true
					hashT = hash(hdr(cand))
				}
			}
			ev.Verdict("LK4.proposal", props("C09", "C11", "C01"), "the prepared messages packed into a vote contain the stored proposal of exactly the requested (height, prepared view)", "", okP, "proposal is "+PP(ppm))
			if okP {
				ev.Verdict("LK4.prepares", props("C09", "C11", "C05", "C20"), "the packed PREPAREs are those stored for (height, prepared view, that proposal's hash)", "", ev.Same(pms, Ext(0, Call("interfaces.GetPrepareMessages", st, h, v, hashT))), "prepares are "+PP(pms))
				ev.Require("LK4.quorum", props("C09", "C11", "C01"), "prepared messages are packed only if the prepare senders of that hash plus the proposer reach quorum in the given committee", "",
					Truth(Ext(0, Call("quorum.IsQuorum", T("append", "", Call("interfaces.GetPrepareSendersIds", st, h, v, hashT), mid(snd(ppm))), cmt))))
			}
		}
		if n == 0 {
			r.Undecided = append(r.Undecided, id+": no non-nil return")
		}
	}

	// ---- H5.snapshot: a State method that reads several guarded fields does so in one critical section
	for _, f := range a.P.Funcs {
		if f.Signature.Recv() == nil || typeShort(f.Signature.Recv().Type()) != "state.State" || f.Parent() != nil {
			continue
		}
		reads := a.readsOf(f)
		if !(reads["state.State.height"] && reads["state.State.view"]) {
			continue
		}
		// read events of f: its own field reads, and each call with what the callee reads. A method whose only read event
		// is one call that covers both fields delegates the snapshot to that callee (which is judged itself).
		{
			nEvents, coversBoth := 0, false
			for _, b := range f.Blocks {
				for _, in := range b.Instrs {
					switch x := in.(type) {
					case *ssa.UnOp:
						if fa, ok := x.X.(*ssa.FieldAddr); ok {
							if l := a.fieldLoc(fa); l == "state.State.height" || l == "state.State.view" {
								nEvents++
							}
						}
					case ssa.CallInstruction:
						if sc := x.Common().StaticCallee(); sc != nil && sc.Blocks != nil {
							rr := a.readsOf(sc)
							if rr["state.State.height"] || rr["state.State.view"] {
								nEvents++
								if rr["state.State.height"] && rr["state.State.view"] {
									coversBoth = true
								}
							}
						}
					}
				}
			}
			if nEvents == 1 && coversBoth {
				continue
			}
		}
		locked := false
		if len(f.Blocks) > 0 {
			for _, in := range f.Blocks[0].Instrs {
				if c, ok := in.(*ssa.Call); ok {
					if sc := c.Call.StaticCallee(); sc != nil && (sc.Name() == "Lock" || sc.Name() == "RLock") && funcPkgPath(sc) == "sync" {
						locked = true
					}
				}
			}
		}
		if !locked {
			// a helper whose callers all hold the lock is fine
			callers := a.staticCallers(f)
			locked = len(callers) > 0
			for _, cf := range callers {
				ok := false
				if len(cf.Blocks) > 0 {
					for _, in := range cf.Blocks[0].Instrs {
						if c, isC := in.(*ssa.Call); isC {
							if sc := c.Call.StaticCallee(); sc != nil && (sc.Name() == "Lock" || sc.Name() == "RLock") && funcPkgPath(sc) == "sync" {
								ok = true
							}
						}
					}
				}
				if !ok {
					locked = false
				}
			}
		}
		r.Check("H5.snapshot", props("C13"), "a State method that reads both height and view does so inside a single critical section (the observable (height, view) pair is never torn)", shortName(f), a.P.Pos(f.Pos()), locked,
			funcID(f)+" reads height and view without holding the lock across both reads", "L")
	}

	// ---- U9.send: the main loop never blocks on a send
	{
		fn := a.P.Func(idMainRun)
		seen := map[*ssa.Function]bool{}
		var visit func(f *ssa.Function)
		visit = func(f *ssa.Function) {
			if seen[f] || f.Blocks == nil || !inLibraryScope(funcPkgPath(f)) {
				return
			}
			seen[f] = true
			c := a.NewFCtx(f, a.EntryEnv(f, nil), 0)
			for _, b := range f.Blocks {
				for _, in := range b.Instrs {
					switch x := in.(type) {
					case *ssa.Select:
						for _, st := range x.States {
							if st.Dir != types.SendOnly {
								continue
							}
							elem := typeShort(st.Chan.Type().Underlying().(*types.Chan).Elem())
							handoff := elem == "interfaces.ElectionTrigger" || elem == syncMsgType
							ok := !x.Blocking || handoff
							r.Check("U9.send", props("C14", "C15", "C16", "C12"), "a send performed by the main loop is either non-blocking (select with default) or the single-producer overwrite hand-off: the main loop must stay able to cancel the worker's contexts", funcID(f)+"|"+chanLabel(c, st.Chan), a.P.InstrPos(in), ok,
								"blocking send on "+chanLabel(c, st.Chan)+" in the main loop", "X")
						}
					case *ssa.Send:
						r.Check("U9.send", props("C14", "C15", "C16", "C12"), "a send performed by the main loop is either non-blocking (select with default) or the single-producer overwrite hand-off", funcID(f)+"|"+chanLabel(c, x.Chan), a.P.InstrPos(in), false, "bare send in the main loop", "X")
					case ssa.CallInstruction:
						if _, isDefer := in.(*ssa.Defer); isDefer {
							continue
						}
						if sc := x.Common().StaticCallee(); sc != nil && !isLoggingCall(x.Common()) {
							visit(sc)
						}
					}
				}
			}
		}
		visit(fn)
	}

	// ---- Z9: unbounded loops observe their context
	for _, f := range a.P.Funcs {
		pp := funcPkgPath(f)
		if isSpecTypesPkg(pp) || strings.HasPrefix(pp, modPath+"/services/logger") {
			continue
		}
		for _, l := range a.Loops(f).Loops {
			if l.Kind != "other" {
				continue
			}
			// a loop whose header tests a simple flag set inside the loop (for !shutdown) or that selects on ctx.Done is checked by Z1
			hasCtxExit := false
			hasSPI := false
			for b := range l.Body {
				for _, in := range b.Instrs {
					if ci, ok := in.(ssa.CallInstruction); ok {
						cc := ci.Common()
						if cc.IsInvoke() {
							ts := typeShort(cc.Value.Type())
							if strings.HasPrefix(ts, "interfaces.") && ts != "interfaces.Block" && ts != "interfaces.ConsensusMessage" && !isLoggerType(cc.Value.Type()) {
								hasSPI = true
							}
						}
					}
					if sel, ok := in.(*ssa.Select); ok {
						for _, st := range sel.States {
							if st.Dir == types.RecvOnly && isCtxDone(st.Chan) {
								hasCtxExit = true
							}
						}
					}
				}
				// if ctx.Err() != nil { leave }
				if ifi, ok := b.Instrs[len(b.Instrs)-1].(*ssa.If); ok {
					if cmp, ok := ifi.Cond.(*ssa.BinOp); ok && (cmp.Op == token.NEQ || cmp.Op == token.EQL) {
						isErrCall := func(v ssa.Value) bool {
							c, ok := v.(*ssa.Call)
							if !(ok && c.Call.IsInvoke() && c.Call.Method.Name() == "Err" && typeShort(c.Call.Value.Type()) == "context.Context") {
								return false
							}
							// the loop's own context, not one derived inside the loop (a per-iteration timeout context is
							// "done" after every wait: leaving on it gives up after the first failed attempt)
							if def, isInstr := c.Call.Value.(ssa.Instruction); isInstr && def.Block() != nil && l.Body[def.Block()] {
								return false
							}
							return true
						}
						isNil := func(v ssa.Value) bool { k, ok := v.(*ssa.Const); return ok && k.IsNil() }
						if (isErrCall(cmp.X) && isNil(cmp.Y)) || (isErrCall(cmp.Y) && isNil(cmp.X)) {
							leave := b.Succs[0]
							if cmp.Op == token.EQL {
								leave = b.Succs[1]
							}
							if !l.Body[leave] && l.dominatesAllLatches(b) {
								hasCtxExit = true
							}
						}
					}
				}
			}
			if !hasSPI {
				continue
			}
			r.Check("Z9", props("C16", "C15", "C14", "C11", "C05"), "a retry / polling loop around an SPI call tests its context in every iteration and leaves when it is done (ctx.Err() != nil on a block that dominates the back edge, or a select with ctx.Done())", funcID(f)+"#loop"+itoa(l.Header.Index), a.P.Pos(f.Pos()), hasCtxExit,
				"the loop in "+funcID(f)+" calls an SPI repeatedly and has no context-based exit that every iteration passes", "X")
		}
	}

	// ---- F4.order: the cached backlog is replayed in arrival order (no sorting / reordering of cache slices)
	for _, f := range a.P.Funcs {
		if funcPkgPath(f) != modPath+"/services/rawmessagesfilter" {
			continue
		}
		for _, b := range f.Blocks {
			for _, in := range b.Instrs {
				if c, ok := in.(*ssa.Call); ok {
					if sc := c.Call.StaticCallee(); sc != nil && funcPkgPath(sc) == "sort" {
						r.Check("F4.order", props("C17"), "cached messages are delivered in the order they were received (the filter never sorts or reorders a backlog)", funcID(f), a.P.InstrPos(in), false, "sort."+sc.Name()+" in the raw message filter", "C")
					}
				}
			}
		}
	}
	r.Check("F4.order", props("C17"), "cached messages are delivered in the order they were received (the filter never sorts or reorders a backlog)", "rawmessagesfilter", "-", true, "", "C")

	// ---- I1.total / I3.same
	if k.leaderFn != nil {
		lf := k.leaderFn
		rets, und := a.Returns(funcID(lf), nil)
		r.Undecided = append(r.Undecided, und...)
		var v, cm *Term
		for _, p := range lf.Params {
			if typeShort(p.Type()) == "primitives.View" {
				v = Root(p.Name())
			}
			if isCommitteeSlice(p.Type()) {
				cm = Root(p.Name())
			}
		}
		if v != nil && cm != nil {
			want := Field(T("index", "", cm, Bin("%", v, Len(cm))), "Id")
			for _, e := range rets {
				r.Check("I1.total", props("C18", "C12"), "the leader function returns members[view mod n].Id on every path (no reserved or special-cased view values)", shortName(lf), e.Pos(a), e.Args[0].Key() == want.Key(), "returns "+PP(e.Args[0]), "N")
			}
		}
	}
	{
		ctor := a.P.Func("services/termincommittee.NewTermInCommittee")
		var cmParam *Term
		for _, p := range ctor.Params {
			if isCommitteeSlice(p.Type()) {
				cmParam = Root(p.Name())
			}
		}
		c := a.NewFCtx(ctor, a.EntryEnv(ctor, nil), 0)
		for _, b := range ctor.Blocks {
			for _, in := range b.Instrs {
				if st, ok := in.(*ssa.Store); ok && a.addrLoc(st.Addr) == "termincommittee.TermInCommittee.committeeMembers" {
					val := c.Term(st.Val)
					r.Check("I3.same", props("C18", "C01"), "the term's committee is exactly the ordered committee handed to the constructor (no filtering or reordering: every node must index the same list)", "NewTermInCommittee", a.P.InstrPos(in), cmParam != nil && val.Key() == cmParam.Key(), "stores "+PP(val), "A")
				}
			}
		}
	}

	// ---- T8.timer: Stop leaves no timer behind
	{
		id := "(*services/electiontrigger.TimerBasedElectionTrigger).Stop"
		effs, und := a.effectsOf(id, nil, false)
		r.Undecided = append(r.Undecided, und...)
		trg := This("Electiontrigger.TimerBasedElectionTrigger")
		for _, e := range effs {
			if e.Kind == "return" {
				ev := a.NewEval(e, r)
				ev.Require("T8.timer", props("C19", "C16", "C14", "C12"), "after Stop the trigger holds no timer (the next registration or Stop cannot stop / cancel the old one twice)", "", Eq(Field(trg, "timer"), tNil))
			}
		}
	}

	// ---- W5.fresh: a (non-byte) slice stored into a protocol builder is never shared between the builders of different
	// elements: where the store (or the call chain leading to it) sits in a loop, the backing array is allocated in that
	// same iteration. Judged for every such store, wherever a refactoring puts it (loop body or helper called from it).
	for _, f := range a.P.Funcs {
		if isSpecTypesPkg(funcPkgPath(f)) {
			continue
		}
		for _, b := range f.Blocks {
			for _, in := range b.Instrs {
				st, ok := in.(*ssa.Store)
				if !ok {
					continue
				}
				fa, ok := st.Addr.(*ssa.FieldAddr)
				if !ok {
					continue
				}
				al, ok := fa.X.(*ssa.Alloc)
				if !ok {
					continue
				}
				nt, ok := al.Type().(*types.Pointer).Elem().(*types.Named)
				if !ok || nt.Obj().Pkg() == nil || nt.Obj().Pkg().Path() != modPath+"/spec/types/go/protocol" || !strings.HasSuffix(nt.Obj().Name(), "Builder") {
					continue
				}
				if _, isSlice := st.Val.Type().Underlying().(*types.Slice); !isSlice {
					continue
				}
				if _, isByte := st.Val.Type().Underlying().(*types.Slice).Elem().Underlying().(*types.Basic); isByte {
					continue // byte strings copied from readers are immutable views
				}
				why := a.sharedAcrossIterations(st.Val, in, 0)
				if why != "" {
					why = "the slice stored into " + nt.Obj().Name() + "." + fieldName(fa.X.Type(), fa.Field) + " " + why
				}
				r.Check("W5.fresh", props("C20", "C11", "C09", "C05"), "a slice stored into a protocol builder is never shared between the builders of different elements: where the store, or a call chain leading to it, sits in a loop, the backing array is allocated in that same iteration", shortName(f)+"|"+nt.Obj().Name()+"."+fieldName(fa.X.Type(), fa.Field), a.P.InstrPos(in), why == "", why, "D")
			}
		}
	}
}

// sharedAcrossIterations: "" when the slice value v used at instruction `at` cannot be one backing array seen by
// several iterations of a loop around `at` (or around a call chain leading to it); otherwise the reason.
func (a *Analyzer) sharedAcrossIterations(v ssa.Value, at ssa.Instruction, depth int) string {
	f := at.Parent()
	l := a.Loops(f).Innermost(at.Block())
	if c, ok := v.(*ssa.Const); ok && c.IsNil() {
		return ""
	}
	root := sliceRoot(v, map[ssa.Value]bool{})
	if root == nil {
		// not an allocation we can see: a parameter, a global, a captured variable or a call result
		switch x := stripSlice(v).(type) {
		case *ssa.Parameter:
			if depth > 4 {
				return ""
			}
			idx := -1
			for i, p := range f.Params {
				if p == x {
					idx = i
				}
			}
			for _, g := range a.P.Funcs {
				for _, gb := range g.Blocks {
					for _, gi := range gb.Instrs {
						ci, ok := gi.(ssa.CallInstruction)
						if !ok || ci.Common().StaticCallee() != f || idx < 0 || idx >= len(ci.Common().Args) {
							continue
						}
						if l != nil {
							return "is a parameter stored inside a loop (shared between iterations)"
						}
						if w := a.sharedAcrossIterations(ci.Common().Args[idx], gi, depth+1); w != "" {
							return w
						}
					}
				}
			}
			return ""
		case *ssa.Global, *ssa.FreeVar:
			return "is backed by a variable that outlives the call (shared between builders)"
		case *ssa.Call:
			if l == nil {
				return ""
			}
			// a call made in this iteration: fresh when the callee allocates what it returns
			if sc := x.Call.StaticCallee(); sc != nil && len(sc.Blocks) > 0 {
				for _, sb := range sc.Blocks {
					for _, si := range sb.Instrs {
						if ret, ok := si.(*ssa.Return); ok && len(ret.Results) > 0 {
							rr := sliceRoot(ret.Results[0], map[ssa.Value]bool{})
							if rr == nil {
								if rc, ok := ret.Results[0].(*ssa.Const); ok && rc.IsNil() {
									continue
								}
								return "comes from " + shortName(sc) + ", which does not allocate the slice it returns"
							}
						}
					}
				}
			}
			if ri, ok := ssa.Value(x).(ssa.Instruction); ok && !l.Body[ri.Block()] {
				return "is computed before the loop (shared between iterations)"
			}
			return ""
		}
		if l != nil {
			if vi, ok := v.(ssa.Instruction); ok && !l.Body[vi.Block()] {
				return "is computed before the loop (shared between iterations)"
			}
		}
		return ""
	}
	if l != nil {
		if ri, isI := root.(ssa.Instruction); isI && !l.Body[ri.Block()] {
			return "is backed by an allocation made outside the loop (shared between iterations)"
		}
		return ""
	}
	// allocated in this function, outside any loop: one allocation per call; the function may itself be called in a loop,
	// which still gives one allocation per iteration
	return ""
}

func stripSlice(v ssa.Value) ssa.Value {
	for {
		switch x := v.(type) {
		case *ssa.Slice:
			v = x.X
		case *ssa.Call:
			if isBuiltin(x, "append") {
				v = x.Call.Args[0]
				continue
			}
			return v
		case *ssa.Phi:
			if len(x.Edges) > 0 {
				// a loop-carried accumulator: follow the edge that enters the loop
				v = x.Edges[0]
				continue
			}
			return v
		default:
			return v
		}
	}
}

// sliceRoot follows a slice value back through append / re-slicing / loop phis to its allocation.
func sliceRoot(v ssa.Value, seen map[ssa.Value]bool) ssa.Value {
	if seen[v] {
		return nil
	}
	seen[v] = true
	switch x := v.(type) {
	case *ssa.MakeSlice, *ssa.Alloc:
		return v
	case *ssa.Slice:
		return sliceRoot(x.X, seen)
	case *ssa.Call:
		if isBuiltin(x, "append") {
			return sliceRoot(x.Call.Args[0], seen)
		}
	case *ssa.Phi:
		var outside ssa.Value
		for _, e := range x.Edges {
			if r := sliceRoot(e, seen); r != nil {
				if ri, ok := r.(ssa.Instruction); ok {
					// prefer the allocation that is outside (the suspicious one)
					if outside == nil || !x.Block().Dominates(ri.Block()) {
						outside = r
					}
				}
			}
		}
		return outside
	case *ssa.UnOp:
		return sliceRoot(x.X, seen)
	}
	return nil
}

// checkSelection: the function must pick the element with the HIGHEST prepared-proof view among the candidates.
// Accepted idioms: (a) filter, sort descending by the key, take [0]  (or ascending and take the last);
// (b) a linear scan keeping `best` with the test  best == nil || key(e) > key(best).
func checkSelection(a *Analyzer, r *Results, id, rule string, pr []string, leader bool) {
	fn := a.P.Func(id)
	text := "the vote selected for re-proposal is the one with the highest prepared-proof view among the candidates (recognised idioms: sort by that key and take the extreme element; linear scan with `best == nil || key(e) > key(best)`)"
	keyName := "call:protocol.View(call:protocol.PreprepareBlockRef(call:protocol.PreparedProof("
	okAny := false
	why := "no recognised maximum-selection idiom"
	// collect: sort.Slice calls with comparator closures, in fn and its static callees (one level)
	fns := []*ssa.Function{fn}
	{
		seenF := map[*ssa.Function]bool{fn: true}
		level := []*ssa.Function{fn}
		for depth := 0; depth < 3; depth++ {
			var next []*ssa.Function
			for _, h := range level {
				for _, g := range a.calleesOf(h) {
					if funcPkgPath(g) == funcPkgPath(fn) && !seenF[g] && g.Parent() == nil {
						seenF[g] = true
						fns = append(fns, g)
						next = append(next, g)
					}
				}
			}
			level = next
		}
	}
	desc, asc := false, false
	for _, g := range fns {
		for _, b := range g.Blocks {
			for _, in := range b.Instrs {
				c, ok := in.(*ssa.Call)
				if !ok {
					continue
				}
				sc := c.Call.StaticCallee()
				if sc == nil || funcPkgPath(sc) != "sort" || !strings.HasPrefix(sc.Name(), "Slice") || len(c.Call.Args) != 2 {
					continue
				}
				var less *ssa.Function
				if mc, ok := c.Call.Args[1].(*ssa.MakeClosure); ok {
					less = mc.Fn.(*ssa.Function)
				} else if f2, ok := c.Call.Args[1].(*ssa.Function); ok {
					less = f2
				}
				if less == nil || len(less.Params) != 2 {
					continue
				}
				lc := a.NewFCtx(less, a.EntryEnv(less, nil), 0)
				// what the comparator captures (e.g. a local key-function closure) is bound to its value at the sort call
				roots := map[string]*Term{}
				if mc, ok := c.Call.Args[1].(*ssa.MakeClosure); ok {
					gc := a.NewFCtx(g, a.EntryEnv(g, nil), 0)
					for i, fv := range less.FreeVars {
						if i < len(mc.Bindings) {
							bt := gc.Term(mc.Bindings[i])
							if bt.Contains(func(t *Term) bool { return t.Op == "closure" || t.Op == "func" }) {
								roots[fv.Name()] = bt
							}
						}
					}
				}
				rets, _ := a.Returns(funcID(less), roots)
				for _, e := range rets {
					t := e.Args[0]
					_ = lc
					if t.Op != "bin" || t.Name != "<" || len(t.Args) != 2 {
						why = "sort comparator is " + PP(t)
						continue
					}
					l, rr := t.Args[0].Key(), t.Args[1].Key()
					pi, pj := "root:"+less.Params[0].Name(), "root:"+less.Params[1].Name()
					if !strings.Contains(l, keyName) || !strings.Contains(rr, keyName) {
						why = "sort comparator does not compare the prepared-proof views: " + PP(t)
						continue
					}
					// less(i,j) = key(x[j]) < key(x[i])  => descending ;  key(x[i]) < key(x[j]) => ascending
					if strings.Contains(l, pj) && strings.Contains(rr, pi) {
						desc = true
					} else if strings.Contains(l, pi) && strings.Contains(rr, pj) {
						asc = true
					}
				}
			}
		}
	}
	// which element is taken
	var rets []*Effect
	for _, g := range fns {
		// (the element may be picked in the helper that sorts, or in a selector between it and the anchored function)
		rs, _ := a.Returns(funcID(g), nil)
		for _, e := range rs {
			if e.Instr.Parent() == g {
				rets = append(rets, e)
			}
		}
	}
	takesFirst, takesLast := false, false
	for _, e := range rets {
		for _, t := range e.Args {
			t.Walk(func(s *Term) {
				if s.Op == "index" && len(s.Args) == 2 {
					if s.Args[1].Key() == Const("0").Key() {
						takesFirst = true
					}
					if s.Args[1].Op == "bin" && s.Args[1].Name == "-" {
						takesLast = true
					}
				}
			})
		}
	}
	if (desc && takesFirst && !asc) || (asc && takesLast && !desc) {
		okAny = true
	} else if desc || asc {
		why = fmtf("sorted descending=%v ascending=%v but takes first=%v last=%v", desc, asc, takesFirst, takesLast)
	}
	if !okAny {
		// linear scan idiom: a loop with a phi `best` updated under  or(best == nil, key(best) < key(e))
		for _, g := range fns {
			gc := a.NewFCtx(g, a.EntryEnv(g, nil), 0)
			for _, l := range a.Loops(g).Loops {
				for _, in := range l.Header.Instrs {
					phi, ok := in.(*ssa.Phi)
					if !ok {
						break
					}
					if _, isPtr := phi.Type().Underlying().(*types.Pointer); !isPtr {
						continue
					}
					// the update block: an If whose condition mentions the phi and the loop element
					for b := range l.Body {
						ifi, ok := b.Instrs[len(b.Instrs)-1].(*ssa.If)
						if !ok {
							continue
						}
						ct := gc.Term(ifi.Cond)
						if ct.Op != "or" || len(ct.Args) != 2 {
							continue
						}
						pk := gc.Term(phi).Key()
						isNilTest := ct.Args[0].Key() == Bin("==", gc.Term(phi), tNil).Key()
						cmp := ct.Args[1]
						if isNilTest && cmp.Op == "bin" && cmp.Name == "<" && strings.Contains(cmp.Args[0].Key(), pk) && strings.Contains(cmp.Args[0].Key(), keyName) &&
							strings.Contains(cmp.Args[1].Key(), "elem:") && strings.Contains(cmp.Args[1].Key(), keyName) {
							okAny = true
						}
					}
				}
			}
		}
	}
	r.Check(rule, pr, text, shortName(fn), a.P.Pos(fn.Pos()), okAny, why, "S")
}
