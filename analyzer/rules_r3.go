package main

import (
	"go/token"
	"go/types"
	"sort"
	"strings"

	"golang.org/x/tools/go/ssa"
)

// Third-generation rules, added after the round-3 seeded changes (DESIGN §6).

// W9.stateless: the message factory is a pure function of its inputs and the term's constants: nothing it built before
// can leak into a later message (a cached certificate would make a node keep reporting its first lock).
func runFactoryStateless(a *Analyzer, r *Results) {
	var writers []string
	pos := "-"
	n := 0
	for _, f := range a.P.Funcs {
		for loc := range a.ownWrites[f] {
			if !strings.HasPrefix(loc, "messagesfactory.MessageFactory.") {
				continue
			}
			n++
			// the constructor (the function that allocates the factory) fills the fields
			isCtor := false
			for _, b := range f.Blocks {
				for _, in := range b.Instrs {
					if al, ok := in.(*ssa.Alloc); ok && al.Heap {
						if pt, ok := al.Type().Underlying().(*types.Pointer); ok && typeShort(pt.Elem()) == "messagesfactory.MessageFactory" {
							isCtor = true
						}
					}
				}
			}
			if !isCtor {
				writers = append(writers, shortName(f)+" writes "+loc)
				pos = a.P.Pos(f.Pos())
			}
		}
	}
	if n == 0 {
		r.Undecided = append(r.Undecided, "no write of a MessageFactory field found (W9.stateless anchor)")
		return
	}
	writers = dedupSorted(writers)
	r.Check("W9.stateless", props("C01", "C03", "C09", "C11", "C07", "C20", "C10"), "the message factory keeps no state between messages: its fields are written by its constructor only, so every message is built from the current arguments (never from a remembered earlier certificate)", "MessageFactory", pos, len(writers) == 0, strings.Join(writers, "; "), "W")
}

// K6.members: the committee a term decides with - members, weights and, through the order, the leader of every view - is
// exactly what Membership.RequestOrderedCommittee answered for this height and seed: no remembered committee, no
// substitute from another SPI method, no local reordering. All nodes must use the same ordered list.
func runCommitteeSource(a *Analyzer, r *Results) {
	pr := props("C18", "C03", "C08", "C01", "C06")
	isOrderedCall := func(v ssa.Value) bool {
		c, ok := v.(*ssa.Call)
		return ok && c.Call.IsInvoke() && c.Call.Method.Name() == "RequestOrderedCommittee" && typeShort(c.Call.Value.Type()) == "interfaces.Membership"
	}
	// (b) the function that asks the SPI hands back the answer of a successful call, nothing else
	var askers []*ssa.Function
	for _, f := range a.P.Funcs {
		for _, b := range f.Blocks {
			for _, in := range b.Instrs {
				if v, ok := in.(ssa.Value); ok && isOrderedCall(v) {
					askers = append(askers, f)
				}
			}
		}
	}
	if len(askers) == 0 {
		r.Undecided = append(r.Undecided, "no call of Membership.RequestOrderedCommittee found (K6.members anchor)")
		return
	}
	asker := map[*ssa.Function]bool{}
	for _, f := range askers {
		if asker[f] {
			continue
		}
		asker[f] = true
		nOK := 0
		for _, b := range f.Blocks {
			ret, ok := b.Instrs[len(b.Instrs)-1].(*ssa.Return)
			if !ok || len(ret.Results) < 1 {
				continue
			}
			cidx := -1
			for i, rv := range ret.Results {
				if isCommitteeSlice(rv.Type()) {
					cidx = i
				}
			}
			if cidx < 0 {
				continue
			}
			if k, isK := ret.Results[cidx].(*ssa.Const); isK && k.IsNil() {
				continue // a refusal
			}
			nOK++
			ex, isEx := ret.Results[cidx].(*ssa.Extract)
			good := isEx && ex.Index == 0 && isOrderedCall(ex.Tuple)
			why := "returns a committee that is not the answer of RequestOrderedCommittee"
			if good {
				// ... of a call that succeeded: the return is dominated by the `err == nil` branch of that call
				good = false
				why = "returns the answer of RequestOrderedCommittee without testing its error"
				call := ex.Tuple.(*ssa.Call)
				for _, db := range f.Blocks {
					if !db.Dominates(b) {
						continue
					}
					if skip := errFailingSucc(db, call); skip >= 0 && len(db.Succs) == 2 {
						succ := db.Succs[1-skip]
						if succ == b || succ.Dominates(b) {
							good, why = true, ""
						}
					}
				}
			}
			r.Check("K6.members", pr, "the committee of a term is the answer of a successful Membership.RequestOrderedCommittee call for this height and seed: never a remembered one, never one obtained from another method", shortName(f)+"|source", a.P.InstrPos(ret), good, why, "P")
		}
		if nOK == 0 {
			r.Undecided = append(r.Undecided, shortName(f)+": no return handing back a committee (K6.members)")
		}
	}
	// a function that hands the results of an asker straight back (`return req.askUntilAnswered(ctx)`) is an asker too
	for changed := true; changed; {
		changed = false
		for _, f := range a.P.Funcs {
			if asker[f] || f.Parent() != nil {
				continue
			}
			fwd, any := true, false
			for _, b := range f.Blocks {
				ret, ok := b.Instrs[len(b.Instrs)-1].(*ssa.Return)
				if !ok {
					continue
				}
				for _, rv := range ret.Results {
					if !isCommitteeSlice(rv.Type()) {
						continue
					}
					if k, isK := rv.(*ssa.Const); isK && k.IsNil() {
						continue
					}
					any = true
					ex, isEx := rv.(*ssa.Extract)
					if !isEx {
						fwd = false
						continue
					}
					call, isCall := ex.Tuple.(*ssa.Call)
					if !isCall || call.Call.StaticCallee() == nil || !asker[call.Call.StaticCallee()] {
						fwd = false
						continue
					}
					// ... the committee result of that call (whatever else the function returns next to it)
					if ex.Index >= call.Call.StaticCallee().Signature.Results().Len() || !isCommitteeSlice(call.Call.StaticCallee().Signature.Results().At(ex.Index).Type()) {
						fwd = false
					}
				}
			}
			if any && fwd {
				asker[f] = true
				changed = true
			}
		}
	}
	// (a) what is handed to the term constructor is that answer, untouched
	n := 0
	for _, f := range a.P.Funcs {
		c := a.NewFCtx(f, a.EntryEnv(f, nil), 0)
		for _, b := range f.Blocks {
			for _, in := range b.Instrs {
				call, ok := in.(*ssa.Call)
				if !ok {
					continue
				}
				sc := call.Call.StaticCallee()
				if sc == nil || shortName(sc) != "termincommittee.NewTermInCommittee" {
					continue
				}
				for _, arg := range call.Call.Args {
					if !isCommitteeSlice(arg.Type()) {
						continue
					}
					n++
					t := c.Term(arg)
					good := false
					if t.Op == "ext" && len(t.Args) == 1 && t.Args[0].Op == "call" {
						if g := a.calleeOf(t.Args[0]); g != nil && asker[g] {
							good = true
						}
						if t.Args[0].Name == "interfaces.RequestOrderedCommittee" {
							good = true
						}
					}
					r.Check("K6.members", pr, "the committee of a term is the answer of a successful Membership.RequestOrderedCommittee call for this height and seed: never a remembered one, never one obtained from another method", shortName(f)+"|term", a.P.InstrPos(in), good, "the term is built with "+PP(t)+", not with the ordered committee as it was answered (copied, reordered or replaced)", "D")
				}
			}
		}
	}
	if n == 0 {
		r.Undecided = append(r.Undecided, "no committee argument of NewTermInCommittee found (K6.members anchor)")
	}
}

// W6.nil: a factory function declines to build (returns nil) only for an absent input as a whole; it never drops a
// partially filled input, whose present parts must be encoded (the readers tell absent parts apart themselves).
func runFactoryNil(a *Analyzer, r *Results) {
	n := 0
	for _, f := range a.P.Funcs {
		if !strings.HasSuffix(funcPkgPath(f), "services/messagesfactory") || f.Parent() != nil || f.Object() == nil || !f.Object().Exported() {
			continue
		}
		res := f.Signature.Results()
		if res.Len() != 1 || !strings.HasSuffix(typeShort(res.At(0).Type()), "Builder") {
			continue
		}
		rets, und := a.Returns(funcID(f), nil)
		r.Undecided = append(r.Undecided, und...)
		for _, e := range rets {
			if len(e.Args) != 1 || e.Args[0].Key() != tNil.Key() || e.Instr.Parent() != f {
				continue
			}
			n++
			bad := ""
			for _, ct := range e.PathConds() {
				u := unsnap(ct)
				u.Walk(func(x *Term) {
					if x.Op == "field" || x.Op == "len" || x.Op == "call" {
						bad = PP(u)
					}
				})
			}
			r.Check("W6.nil", props("C20", "C09", "C11"), "a factory function returns no builder only when its whole input is absent (nil): an input with some parts present is encoded with those parts, never dropped", shortName(f), e.Pos(a), bad == "", "returns nil depending on "+bad, "A")
		}
	}
	if n == 0 {
		r.Undecided = append(r.Undecided, "no nil-returning factory function found (W6.nil anchor)")
	}
}

// W6.pass: what a factory method is given as the node's prepared certificate is what it encodes: the argument is handed
// on to the proof builder as it came in (no filter deciding that the certificate is "not worth sending").
func runFactoryPass(a *Analyzer, r *Results) {
	n := 0
	for _, f := range a.P.Funcs {
		if !strings.HasSuffix(funcPkgPath(f), "services/messagesfactory") || f.Parent() != nil {
			continue
		}
		hasParam := false
		for _, p := range f.Params {
			if typeShort(p.Type()) == "preparedmessages.PreparedMessages" {
				hasParam = true
			}
		}
		if !hasParam {
			continue
		}
		for _, b := range f.Blocks {
			for _, in := range b.Instrs {
				call, ok := in.(*ssa.Call)
				if !ok {
					continue
				}
				g := call.Call.StaticCallee()
				if g == nil || !strings.HasSuffix(funcPkgPath(g), "services/messagesfactory") {
					continue
				}
				for i, gp := range g.Params {
					if typeShort(gp.Type()) != "preparedmessages.PreparedMessages" || i >= len(call.Call.Args) {
						continue
					}
					n++
					_, isParam := call.Call.Args[i].(*ssa.Parameter)
					r.Check("W6.pass", props("C09", "C01", "C11", "C20", "C05"), "a factory method encodes the prepared certificate it was given: the argument reaches the proof builder unchanged (the factory never decides to leave a certificate out)", shortName(f)+"|"+shortName(g), a.P.InstrPos(in), isParam,
						"the prepared messages handed to "+shortName(g)+" are not the caller's own argument (filtered or replaced)", "D")
				}
			}
		}
	}
	if n == 0 {
		r.Undecided = append(r.Undecided, "no hand-over of prepared messages inside the message factory found (W6.pass anchor)")
	}
}

// F9.entry: consensus messages reach a term only through the height / instance filter. Nothing else in the library hands a
// message to the term's HandleConsensusMessage (a shortcut skips the instance, own-sender and height checks and the cache).
func runTermEntry(a *Analyzer, r *Results) {
	n := 0
	var bad []string
	pos := "-"
	for _, f := range a.P.Funcs {
		pk := funcPkgPath(f)
		inside := strings.HasSuffix(pk, "services/rawmessagesfilter") || strings.HasSuffix(pk, "services/leanhelixterm")
		for _, b := range f.Blocks {
			for _, in := range b.Instrs {
				ci, ok := in.(ssa.CallInstruction)
				if !ok {
					continue
				}
				cc := ci.Common()
				hit := false
				if cc.IsInvoke() && cc.Method.Name() == "HandleConsensusMessage" {
					ts := typeShort(cc.Value.Type())
					hit = strings.HasPrefix(ts, "rawmessagesfilter.") || strings.HasPrefix(ts, "leanhelixterm.")
				} else if sc := cc.StaticCallee(); sc != nil && sc.Name() == "HandleConsensusMessage" && sc.Signature.Recv() != nil {
					hit = strings.HasPrefix(typeShort(sc.Signature.Recv().Type()), "leanhelixterm.")
				}
				if !hit {
					continue
				}
				n++
				if !inside {
					bad = append(bad, shortName(f))
					pos = a.P.InstrPos(in)
				}
			}
		}
	}
	if n == 0 {
		r.Undecided = append(r.Undecided, "no delivery of a consensus message to a term found (F9.entry anchor)")
		return
	}
	bad = dedupSorted(bad)
	r.Check("F9.entry", props("C07", "C08", "C17", "C01", "C10"), "a consensus message is handed to a term only by the raw-message filter (own-sender, instance and height checks, future cache): no other library code calls the term's HandleConsensusMessage", "HandleConsensusMessage", pos, len(bad) == 0, "delivered to the term directly from "+strings.Join(bad, ", "), "W")
}

// U9.who: the worker's inbound channels have one producer: the main loop goroutine. A second route into them (a public API
// method sending directly) lets a later message overtake an earlier one that is still travelling through the main loop,
// and breaks the single-producer assumption of the overwrite hand-off.
func runWorkerProducers(a *Analyzer, r *Results) {
	mainRun := a.P.Func(idMainRun)
	onlyFromMain := func(f *ssa.Function) (bool, string) {
		seen := map[*ssa.Function]bool{}
		var up func(g *ssa.Function, d int) (bool, string)
		up = func(g *ssa.Function, d int) (bool, string) {
			if g == mainRun {
				return true, ""
			}
			if seen[g] {
				return true, ""
			}
			seen[g] = true
			if d > 5 {
				return false, shortName(g)
			}
			if g.Object() != nil && g.Object().Exported() && g.Parent() == nil {
				return false, shortName(g) + " (public API, runs on the caller's goroutine)"
			}
			cs := a.staticCallers(g)
			if len(cs) == 0 {
				return false, shortName(g) + " (no caller in the main loop)"
			}
			for _, c := range cs {
				if ok, w := up(c, d+1); !ok {
					return false, w
				}
			}
			return true, ""
		}
		return up(f, 0)
	}
	isWorkerChan := func(c *FCtx, v ssa.Value) bool {
		t := c.Term(v)
		return strings.Contains(t.Key(), "(this:leanhelix.WorkerLoop)") && t.Op == "field"
	}
	n := 0
	for _, op := range a.chanOps() {
		f := op.fn
		if funcPkgPath(f) != modPath {
			continue
		}
		c := a.NewFCtx(f, a.EntryEnv(f, nil), 0)
		var chans []ssa.Value
		switch x := op.in.(type) {
		case *ssa.Send:
			chans = append(chans, x.Chan)
		case *ssa.Select:
			for _, st := range x.States {
				if st.Dir == types.SendOnly {
					chans = append(chans, st.Chan)
				}
			}
		}
		for _, ch := range chans {
			if !isWorkerChan(c, ch) {
				continue
			}
			n++
			ok, who := onlyFromMain(f)
			r.Check("U9.who", props("C17", "C14", "C05", "C19"), "only the main loop's goroutine sends into the worker's inbound channels (messages, election triggers, syncs): one producer, one order", shortName(f)+"|"+PP(c.Term(ch)), a.P.InstrPos(op.in), ok,
				"the send in "+shortName(f)+" can run outside the main loop: reached from "+who, "W")
		}
	}
	if n == 0 {
		r.Undecided = append(r.Undecided, "no send into a worker channel found (U9.who anchor)")
	}
}

func runR3(a *Analyzer, r *Results) {
	runRecoverVerdict(a, r)
	runQuorumWrapper(a, r)
	runCommitThenRound(a, r)
	runMutableState(a, r)
	runWorkerProducers(a, r)
	runTermEntry(a, r)
	runFactoryPass(a, r)
	runFactoryNil(a, r)
	runFactoryStateless(a, r)
	runCommitteeSource(a, r)
	runArming(a, r)
	runStorageLog(a, r)
	runConsumers(a, r)
	runBuildersFrozen(a, r)
	runFactoryCollections(a, r)
	runSPIImplementations(a, r)
	runStorageSlots(a, r)
	runStorageShape(a, r)
	runSingletons(a, r)
	runInPlace(a, r)
	runRoundBookkeeping(a, r)
}

// ---------------------------------------------------------------- L1.start / L1.setview: no live view without an armed timer

// isRegisterCall: an invoke of ElectionScheduler.RegisterOnElection (or a static call of an implementation of it).
func isRegisterCall(in ssa.Instruction) bool {
	ci, ok := in.(ssa.CallInstruction)
	if !ok {
		return false
	}
	cc := ci.Common()
	if cc.IsInvoke() {
		return cc.Method.Name() == "RegisterOnElection"
	}
	if sc := cc.StaticCallee(); sc != nil {
		return sc.Name() == "RegisterOnElection"
	}
	return false
}

// setViewFailedAt: the facts at `at` say that a State.SetView call returned an error (directly, or through the failing
// verdict of a helper whose failure summary says so).
func setViewFailed(facts Facts) bool {
	for _, f := range facts {
		if f.Pred == "eq" && f.Neg && len(f.Args) == 2 {
			for _, t := range f.Args {
				if t.Op == "ext" && t.Name == "1" && len(t.Args) == 1 && t.Args[0].Op == "call" && t.Args[0].Name == "state.SetView" {
					return true
				}
			}
		}
	}
	return false
}

type armInfo struct {
	covers bool
	why    string
	pos    string
}

// armCovers: every normal return of f is either beyond a failed SetView or preceded, on every path from the entry, by an
// arming of the election timer (RegisterOnElection itself or a call of a function that covers).
func (a *Analyzer) armCovers(f *ssa.Function, memo map[*ssa.Function]*armInfo, depth int) *armInfo {
	if m, ok := memo[f]; ok {
		return m
	}
	res := &armInfo{covers: false, why: "recursion"}
	memo[f] = res
	if len(f.Blocks) == 0 || depth > 8 {
		res.why = "no body"
		return res
	}
	var innerWhy *armInfo
	hit := func(in ssa.Instruction) bool {
		if isRegisterCall(in) {
			return true
		}
		if ci, ok := in.(*ssa.Call); ok {
			if sc := ci.Call.StaticCallee(); sc != nil && a.P.IsLib(sc) && sc != f {
				// only worth descending into functions that can reach an arming at all
				if a.reachesRegister(sc, map[*ssa.Function]bool{}) {
					inner := a.armCovers(sc, memo, depth+1)
					if !inner.covers && innerWhy == nil {
						innerWhy = inner
					}
					return inner.covers
				}
			}
		}
		return false
	}
	// blocks reachable from the entry without passing a hit
	type pt struct {
		b *ssa.BasicBlock
	}
	reach := map[*ssa.BasicBlock]bool{}
	var stack []*ssa.BasicBlock
	stack = append(stack, f.Blocks[0])
	unarmedReturn := map[*ssa.Return]bool{}
	for len(stack) > 0 {
		b := stack[len(stack)-1]
		stack = stack[:len(stack)-1]
		if reach[b] {
			continue
		}
		reach[b] = true
		cut := false
		for _, in := range b.Instrs {
			if hit(in) {
				cut = true
				break
			}
			if ret, ok := in.(*ssa.Return); ok {
				unarmedReturn[ret] = true
			}
		}
		if !cut {
			stack = append(stack, b.Succs...)
		}
	}
	res.covers, res.why = true, ""
	if len(unarmedReturn) > 0 {
		c := a.NewFCtx(f, a.EntryEnv(f, nil), 0)
		fl := a.NewFlow(c, nil)
		for ret := range unarmedReturn {
			if fl.In[ret.Block()] == nil {
				continue // infeasible
			}
			if setViewFailed(fl.At(ret)) {
				continue
			}
			res.covers = false
			if innerWhy != nil {
				res.pos, res.why = innerWhy.pos, innerWhy.why
				continue
			}
			if p := a.P.InstrPos(ret); res.pos == "" || p < res.pos {
				res.pos = p
				res.why = shortName(f) + " can return at " + p + " without having armed the election timer (and not because SetView failed)"
			}
		}
	}
	return res
}

func (a *Analyzer) reachesRegister(f *ssa.Function, seen map[*ssa.Function]bool) bool {
	if seen[f] {
		return false
	}
	seen[f] = true
	for _, b := range f.Blocks {
		for _, in := range b.Instrs {
			if isRegisterCall(in) {
				return true
			}
			if ci, ok := in.(ssa.CallInstruction); ok {
				if sc := ci.Common().StaticCallee(); sc != nil && a.P.IsLib(sc) && a.reachesRegister(sc, seen) {
					return true
				}
			}
		}
	}
	return false
}

func runArming(a *Analyzer, r *Results) {
	memo := map[*ssa.Function]*armInfo{}
	ctor := a.P.Func("services/termincommittee.NewTermInCommittee")
	ai := a.armCovers(ctor, memo, 0)
	pos := a.P.Pos(ctor.Pos())
	if ai.pos != "" {
		pos = ai.pos
	}
	r.Check("L1.start", props("C05", "C19"), "a term never starts without its view-0 election timer: every path through the term constructor arms the election scheduler unless the state refused view 0 (a member that joined by sync, or that is not the leader, must still time out and vote)", "NewTermInCommittee", pos, ai.covers, ai.why, "P")

	// every successful SetView in protocol code is followed by an arming for the view entered
	n := 0
	for _, f := range a.P.Funcs {
		if strings.HasPrefix(funcPkgPath(f), "state") || !strings.Contains(funcPkgPath(f), "termincommittee") {
			continue
		}
		for _, b := range f.Blocks {
			for _, in := range b.Instrs {
				ci, ok := in.(*ssa.Call)
				if !ok {
					continue
				}
				sc := ci.Call.StaticCallee()
				if sc == nil || shortName(sc) != "state.SetView" {
					continue
				}
				n++
				c := a.NewFCtx(f, a.EntryEnv(f, nil), 0)
				fl := a.NewFlow(c, nil)
				okAll := true
				why := ""
				// every return reachable from the call without passing an arming is beyond the failing edge
				seen := map[*ssa.BasicBlock]bool{}
				var walk func(blk *ssa.BasicBlock, idx int)
				walk = func(blk *ssa.BasicBlock, idx int) {
					for i := idx; i < len(blk.Instrs); i++ {
						x := blk.Instrs[i]
						if instrMustDo(a, x, isRegisterCall, 0) { // (the arming may be a helper's unconditional job)
							return
						}
						if ret, isRet := x.(*ssa.Return); isRet {
							if fl.In[blk] != nil && !setViewFailed(fl.At(ret)) {
								okAll = false
								why = "after SetView succeeded " + shortName(f) + " can return at " + a.P.InstrPos(ret) + " without arming the election timer for the view entered"
							}
							return
						}
					}
					for _, s := range blk.Succs {
						if !seen[s] {
							seen[s] = true
							walk(s, 0)
						}
					}
				}
				idx := 0
				for i, x := range b.Instrs {
					if x == in {
						idx = i + 1
					}
				}
				walk(b, idx)
				r.Check("L1.setview", props("C05", "C19"), "whenever the term enters a view (SetView succeeded) it arms the election timer before doing anything that can return", shortName(f), a.P.InstrPos(in), okAll, why, "P")
			}
		}
	}
	if n == 0 {
		r.Undecided = append(r.Undecided, "no State.SetView call in the term code (L1.setview anchor)")
	}
}

// ---------------------------------------------------------------- ST.*: the in-memory message log keeps what it accepted

// The protocol rules treat the Storage SPI by its contract (first-wins per key, nothing disappears during a height).
// These rules decide that contract for the implementation the library ships: inside a height the four logs only grow.
func runStorageLog(a *Analyzer, r *Results) {
	const typ = "storage.InMemoryStorage"
	logs := map[string]bool{"preprepareStorage": true, "prepareStorage": true, "commitStorage": true, "viewChangeStorage": true}
	var fns []*ssa.Function
	for _, f := range a.P.Funcs {
		if strings.HasSuffix(funcPkgPath(f), "services/storage") {
			fns = append(fns, f)
		}
	}
	// functions that run only as part of ClearBlockHeightLogs (the end-of-height disposal)
	var clear *ssa.Function
	for _, f := range fns {
		if f.Name() == "ClearBlockHeightLogs" && f.Signature.Recv() != nil {
			clear = f
		}
	}
	if clear == nil {
		r.Undecided = append(r.Undecided, "InMemoryStorage.ClearBlockHeightLogs not found (ST anchor)")
		return
	}
	var tainted func(v ssa.Value, seen map[ssa.Value]bool) bool
	tainted = func(v ssa.Value, seen map[ssa.Value]bool) bool {
		if seen[v] {
			return false
		}
		seen[v] = true
		switch x := v.(type) {
		case *ssa.UnOp:
			if fa, ok := x.X.(*ssa.FieldAddr); ok {
				if pt, ok := fa.X.Type().Underlying().(*types.Pointer); ok && typeShort(pt.Elem()) == typ {
					return logs[fieldName(fa.X.Type(), fa.Field)]
				}
			}
			return tainted(x.X, seen)
		case *ssa.Lookup:
			return tainted(x.X, seen)
		case *ssa.Extract:
			return tainted(x.Tuple, seen)
		case *ssa.Next:
			return tainted(x.Iter, seen) // a value met while ranging over a level of a log
		case *ssa.Range:
			return tainted(x.X, seen)
		case *ssa.Phi:
			for _, e := range x.Edges {
				if tainted(e, seen) {
					return true
				}
			}
		case *ssa.Call:
			if sc := x.Call.StaticCallee(); sc != nil && a.P.IsLib(sc) && strings.HasSuffix(funcPkgPath(sc), "services/storage") {
				for _, b := range sc.Blocks {
					if ret, ok := b.Instrs[len(b.Instrs)-1].(*ssa.Return); ok {
						for _, rv := range ret.Results {
							if _, isMap := rv.Type().Underlying().(*types.Map); isMap && tainted(rv, seen) {
								return true
							}
						}
					}
				}
			}
		case *ssa.Parameter:
			// a level of a log handed to a helper of the storage package
			g := x.Parent()
			if _, isMap := x.Type().Underlying().(*types.Map); !isMap || g == nil || !strings.HasSuffix(funcPkgPath(g), "services/storage") {
				return false
			}
			pidx := -1
			for i, p := range g.Params {
				if p == x {
					pidx = i
				}
			}
			for _, cf := range a.staticCallers(g) {
				for _, cb := range cf.Blocks {
					for _, ci := range cb.Instrs {
						if call, ok := ci.(ssa.CallInstruction); ok && call.Common().StaticCallee() == g && pidx >= 0 && pidx < len(call.Common().Args) {
							if tainted(call.Common().Args[pidx], seen) {
								return true
							}
						}
					}
				}
			}
		case *ssa.MakeMap:
			// a fresh map becomes part of the log once it is stored into it
			for _, ref := range *x.Referrers() {
				if mu, ok := ref.(*ssa.MapUpdate); ok && mu.Value == v && tainted(mu.Map, seen) {
					return true
				}
			}
		}
		return false
	}
	onlyFromClear := func(f *ssa.Function) bool {
		seen := map[*ssa.Function]bool{}
		var ok func(g *ssa.Function, d int) bool
		ok = func(g *ssa.Function, d int) bool {
			if g == clear {
				return true
			}
			if seen[g] || d > 5 {
				return false
			}
			seen[g] = true
			cs := a.staticCallers(g)
			if len(cs) == 0 {
				return false
			}
			for _, c := range cs {
				if !ok(c, d+1) {
					return false
				}
			}
			return true
		}
		return ok(f, 0)
	}
	// absentAt: the instruction is reached only after a comma-ok lookup of (mapKey, keyKey) said "absent"
	absentAt := func(c *FCtx, at ssa.Instruction, mapKey, keyKey string) bool {
		f := at.Parent()
		for _, b := range f.Blocks {
			ifi, ok := b.Instrs[len(b.Instrs)-1].(*ssa.If)
			if !ok {
				continue
			}
			cond := ifi.Cond
			neg := false
			if u, ok := cond.(*ssa.UnOp); ok && u.Op == token.NOT {
				cond, neg = u.X, true
			}
			ex, ok := cond.(*ssa.Extract)
			if !ok || ex.Index != 1 {
				continue
			}
			lk, ok := ex.Tuple.(*ssa.Lookup)
			if !ok || !lk.CommaOk {
				continue
			}
			if c.Term(lk.X).Key() != mapKey || c.Term(lk.Index).Key() != keyKey {
				continue
			}
			absent := b.Succs[1] // cond true = present
			if neg {
				absent = b.Succs[0]
			}
			if len(absent.Preds) == 1 && absent.Dominates(at.Block()) {
				return true
			}
		}
		return false
	}
	nDel, nUpd := 0, 0
	for _, f := range fns {
		c := a.NewFCtx(f, a.EntryEnv(f, nil), 0)
		for _, b := range f.Blocks {
			for _, in := range b.Instrs {
				switch x := in.(type) {
				case *ssa.Call:
					if !isBuiltin(x, "delete") || !tainted(x.Call.Args[0], map[ssa.Value]bool{}) {
						continue
					}
					nDel++
					okc := onlyFromClear(f)
					r.Check("ST.keep", props("C09", "C01", "C03", "C05", "C10", "C11"), "entries of the message logs (proposals, PREPAREs, COMMITs, votes) are removed only by the end-of-height disposal (ClearBlockHeightLogs): within a height a stored message, and with it a prepared certificate or a vote, never disappears", shortName(f)+"|delete", a.P.InstrPos(in), okc, "log entries are deleted in "+shortName(f)+", which runs outside ClearBlockHeightLogs", "W")
				case *ssa.MapUpdate:
					if !tainted(x.Map, map[ssa.Value]bool{}) {
						continue
					}
					nUpd++
					okc := onlyFromClear(f)
					why := ""
					if !okc {
						mk, kk := c.Term(x.Map).Key(), c.Term(x.Key).Key()
						okc = absentAt(c, in, mk, kk)
						if !okc {
							// a helper that (re)creates one level of the log for a key it is given: every caller outside the
							// disposal calls it only after that key was found absent
							if p, isParam := x.Key.(*ssa.Parameter); isParam {
								idx := -1
								for i, q := range f.Params {
									if q == p {
										idx = i
									}
								}
								okc = idx >= 0
								nSites := 0
								for _, g := range fns {
									gc := a.NewFCtx(g, a.EntryEnv(g, nil), 0)
									for _, gb := range g.Blocks {
										for _, gi := range gb.Instrs {
											ci, isCall := gi.(ssa.CallInstruction)
											if !isCall || ci.Common().StaticCallee() != f {
												continue
											}
											nSites++
											if onlyFromClear(g) {
												continue
											}
											if idx >= len(ci.Common().Args) || !absentAt(gc, gi, mk, gc.Term(ci.Common().Args[idx]).Key()) {
												okc = false
												why = "called from " + shortName(g) + " at " + a.P.InstrPos(gi) + " without a preceding 'key absent' test"
											}
										}
									}
								}
								if nSites == 0 {
									okc = false
								}
							}
						}
						if !okc && why == "" {
							why = "the entry at this key may already exist and is overwritten (no preceding comma-ok lookup of the same map and key on the 'absent' branch)"
						}
					}
					r.Check("ST.firstwins", props("C10", "C01", "C09", "C03"), "a log entry is written only under a key that a preceding lookup found absent (first message wins per key; an accepted proposal, PREPARE, COMMIT or vote is never replaced), except by the end-of-height disposal", shortName(f)+"|"+PP(c.Term(x.Map)), a.P.InstrPos(in), okc, why, "A")
				}
			}
		}
	}
	if nDel == 0 || nUpd == 0 {
		r.Undecided = append(r.Undecided, fmtf("storage log: %d delete sites, %d update sites found (ST anchors)", nDel, nUpd))
	}
}

// ---------------------------------------------------------------- U7.consumer: who may take values out of the loops' inbound channels

// A value parked in one of the event loops' inbound channels (sync hand-off slot, election hand-off slot, message queues)
// is taken out only by the event loop that acts on it, or by the producer's "make room for the newer value" receive
// that is followed by its own send. Any other receive silently discards the newest sync / trigger / message.
func runConsumers(a *Analyzer, r *Results) {
	inbound := map[string]bool{syncMsgType: true, "interfaces.ElectionTrigger": true, "interfaces.ConsensusRawMessage": true}
	n := 0
	for _, op := range a.chanOps() {
		f := op.fn
		c := a.NewFCtx(f, a.EntryEnv(f, nil), 0)
		type rcv struct {
			ch       ssa.Value
			blocking bool
			nStates  int
		}
		var rs []rcv
		switch x := op.in.(type) {
		case *ssa.Select:
			for _, st := range x.States {
				if st.Dir == types.RecvOnly {
					rs = append(rs, rcv{st.Chan, x.Blocking, len(x.States)})
				}
			}
		case *ssa.UnOp:
			rs = append(rs, rcv{x.X, true, 1})
		}
		for _, rc := range rs {
			ch, ok := rc.ch.Type().Underlying().(*types.Chan)
			if !ok || !inbound[typeShort(ch.Elem())] {
				continue
			}
			n++
			lbl := PP(c.Term(rc.ch))
			okc, why := false, ""
			inLoop := a.Loops(f).Innermost(op.in.Block()) != nil
			if !inLoop {
				// the select of a loop written as `for x.step(ctx) {}` lives in the step method
				for _, id := range []string{"(*leanhelix.WorkerLoop).Run", idMainRun} {
					if lb := a.loopBodyOf(id); lb.call != nil && lb.body == f {
						inLoop = true
					}
				}
			}
			switch {
			case rc.blocking && inLoop && rc.nStates >= 2:
				okc = true // an event loop's own blocking select
			case !rc.blocking && rc.nStates == 1:
				// the producer's overwrite: followed on every path by a send to the same channel in this function
				chKey := c.Term(rc.ch).Key()
				okc = mustReach(op.in, func(in ssa.Instruction) bool {
					switch y := in.(type) {
					case *ssa.Send:
						return c.Term(y.Chan).Key() == chKey
					case *ssa.Select:
						for _, st := range y.States {
							if st.Dir == types.SendOnly && c.Term(st.Chan).Key() == chKey {
								return true
							}
						}
					}
					return false
				})
				if !okc {
					// a "make room" helper that only receives: every caller must go on to send to the channel it passed
					if prm, isPrm := rc.ch.(*ssa.Parameter); isPrm && !token.IsExported(f.Name()) {
						pidx := -1
						for i, p := range f.Params {
							if p == prm {
								pidx = i
							}
						}
						nSites, all := 0, true
						for _, g := range a.P.Funcs {
							cg := a.NewFCtx(g, a.EntryEnv(g, nil), 0)
							for _, gb := range g.Blocks {
								for _, gi := range gb.Instrs {
									gc, isCall := gi.(*ssa.Call)
									if !isCall || gc.Call.StaticCallee() != f || pidx >= len(gc.Call.Args) {
										continue
									}
									nSites++
									key := cg.Term(gc.Call.Args[pidx]).Key()
									sends := func(in ssa.Instruction) bool {
										switch y := in.(type) {
										case *ssa.Send:
											return in.Parent() == g && cg.Term(y.Chan).Key() == key
										case *ssa.Select:
											for _, st := range y.States {
												if st.Dir == types.SendOnly && in.Parent() == g && cg.Term(st.Chan).Key() == key {
													return true
												}
											}
										}
										return false
									}
									if !mustReach(gi, sends) {
										all = false
									}
								}
							}
						}
						okc = nSites > 0 && all
					}
				}
				if !okc {
					why = "a non-blocking receive from " + lbl + " in " + shortName(f) + " is not followed by this function's own send to that channel: it discards a pending value instead of replacing it"
				}
			default:
				why = "receive from " + lbl + " in " + shortName(f) + " outside an event loop's select"
			}
			r.Check("U7.consumer", props("C14", "C05", "C19", "C17"), "a value waiting in an event loop's inbound channel (pending sync, pending election trigger, queued message) is taken out only by that loop's own select or by the producer's replace-the-older-value receive that is followed by its send: nothing else may drain it", shortName(f)+"|"+lbl, a.P.InstrPos(op.in), okc, why, "X")
		}
	}
	if n == 0 {
		r.Undecided = append(r.Undecided, "no receive from an inbound channel found (U7.consumer anchor)")
	}
}

// ---------------------------------------------------------------- effect-site rules of round 3 (called from ingest.onEffect)

const k8useText = "a method is invoked on the block returned by RequestNewBlockProposal only after ctx.Err() == nil (or block != nil) was established: the SPI may return a nil block when its context is cancelled, and a nil dereference on the election or term-start path unwinds the worker past its cleanup"

func (ig *ingest) r3Gates(e *Effect) {
	if e.Config != "" || e.Kind != "call" || len(e.Args) == 0 {
		return
	}
	if e.Name == "proofsvalidator.ValidatePreparedProof" && len(e.Args) == 6 && pathHas(e, "termincommittee") {
		ev := ig.a.NewEval(e, ig.r)
		lt := ev.Arg(5)
		ev.Verdict("I4.closure", props("C18", "C12"), "the leader function handed to ValidatePreparedProof is LeaderOf over the term's committee", "path", ig.isLeaderClosure(lt), "argument is "+PP(lt))
	}
	ci, ok := e.Instr.(ssa.CallInstruction)
	if !ok || !ci.Common().IsInvoke() {
		return
	}
	b := map[string]*Term{}
	if !Match(Ext(0, Call("interfaces.RequestNewBlockProposal", Var("bu"), Var("ctx"), Var("h"), Var("id"), Var("prev"))), e.Args[0], b) {
		return
	}
	ig.k8use++
	ev := ig.a.NewEval(e, ig.r)
	ev.RequireAny("K8.use", props("C15", "C16", "C12"), k8useText, "",
		[]*Atom{ErrNil(Call("context.Err", b["ctx"]))}, []*Atom{Ne(e.Args[0], tNil)})
}

// cacheInsertExact (F5.exact): whether an accepted future message ends up in the cache depends on nothing but the
// one-height bound. Every condition on the way to the insert that looks at the cache or at its high-water mark must be
// one of: key < mark (drop a lower height), mark < key (evict older heights), cache[key] == nil (choice of value form).
func (ig *ingest) cacheInsertExact(ev *Eval, key *Term) {
	rmf := This("rawmessagesfilter.RawMessageFilter")
	fc, mark := Field(rmf, "futureCache"), Field(rmf, "latestFutureBlockHeight")
	fcK, markK := fc.Key(), mark.Key()
	keyK := unfreeze(key).Key()
	var extra []string
	var check func(t *Term)
	check = func(t *Term) {
		switch {
		case t.Op == "and" || t.Op == "or" || (t.Op == "un" && t.Name == "!"):
			for _, x := range t.Args {
				check(x)
			}
			return
		}
		if !t.ContainsKey(fcK) && !t.ContainsKey(markK) {
			return
		}
		if t.Op == "bin" && len(t.Args) == 2 {
			l, r := unfreeze(t.Args[0]), unfreeze(t.Args[1])
			switch t.Name {
			case "<", "<=", "==", "!=", ">", ">=":
				if (l.Key() == keyK && r.Key() == markK) || (l.Key() == markK && r.Key() == keyK) {
					return
				}
			}
			isSlot := func(x *Term) bool {
				return x.Op == "lookup" && len(x.Args) == 2 && x.Args[0].Key() == fcK && unfreeze(x.Args[1]).Key() == keyK
			}
			if (t.Name == "==" || t.Name == "!=") && ((isSlot(l) && r.Key() == tNil.Key()) || (isSlot(r) && l.Key() == tNil.Key())) {
				return
			}
		}
		extra = append(extra, PP(t))
	}
	for _, ct := range ev.E.PathConds() {
		check(unsnap(ct))
	}
	extra = dedupSorted(extra)
	ev.Verdict("F5.exact", props("C17"), "whether an accepted future-height message is cached depends only on the one-height bound (drop it when a higher height is already cached, evict lower heights otherwise): no other test of the cache's content or of its high-water mark decides it, so a message of the newest cached height is never dropped, merged or reordered", "net",
		len(extra) == 0, "the path to the cache insert also depends on: "+strings.Join(extra, "; "))
}

// ---------------------------------------------------------------- W5.frozen: builders are written once, by the code that allocates them

func runBuildersFrozen(a *Analyzer, r *Results) {
	isBuilder := func(t types.Type) bool {
		p, ok := t.Underlying().(*types.Pointer)
		if !ok {
			return false
		}
		nt, ok := p.Elem().(*types.Named)
		return ok && nt.Obj().Pkg() != nil && nt.Obj().Pkg().Path() == modPath+"/spec/types/go/protocol" && strings.HasSuffix(nt.Obj().Name(), "Builder")
	}
	n := 0
	for _, f := range a.P.Funcs {
		if isSpecTypesPkg(funcPkgPath(f)) {
			continue
		}
		for _, b := range f.Blocks {
			for _, in := range b.Instrs {
				st, ok := in.(*ssa.Store)
				if !ok {
					continue
				}
				fa, ok := st.Addr.(*ssa.FieldAddr)
				if !ok || !isBuilder(fa.X.Type()) {
					continue
				}
				n++
				_, fresh := fa.X.(*ssa.Alloc)
				label := shortName(f) + "|" + typeShort(fa.X.Type().Underlying().(*types.Pointer).Elem()) + "." + fieldName(fa.X.Type(), fa.Field)
				r.Check("W5.frozen", props("C20", "C11", "C05", "C09"), "hand-written code assigns the fields of a protocol builder only on the builder it has just allocated (its literal or field-wise initialisation): a builder that was copied from a received message is never edited afterwards, so what is re-encoded is what was signed", label, a.P.InstrPos(in), fresh,
					"a field of a builder that this function did not allocate is overwritten (the re-encoded structure no longer matches the signed bytes it was copied from)", "D")
			}
		}
	}
	if n == 0 {
		r.Undecided = append(r.Undecided, "no builder field store found (W5.frozen anchor)")
	}
}

// ---------------------------------------------------------------- S0.spi: nobody interposes on the consumer's trust-critical SPIs

// The ingestion rules read `KeyManager.Verify*`, `BlockUtils.Validate*` and `Membership` calls at their contract
// meaning, i.e. as calls of the consumer's objects. That premise is decided here: library scope contains no
// implementation of those interfaces (a caching / filtering decorator would change what "verified" means without any
// call site changing), and the only implementations of Storage and ElectionScheduler are the inventoried ones.
func runSPIImplementations(a *Analyzer, r *Results) {
	ifaces := map[string]map[string]bool{
		"KeyManager":        {},
		"BlockUtils":        {},
		"Membership":        {},
		"Communication":     {},
		"Storage":           {"storage.InMemoryStorage": true},
		"ElectionScheduler": {"Electiontrigger.TimerBasedElectionTrigger": true},
	}
	ipkg := a.P.ByPath[modPath+"/services/interfaces"]
	if ipkg == nil {
		r.Undecided = append(r.Undecided, "package services/interfaces not loaded (S0.spi anchor)")
		return
	}
	var names []string
	for n := range ifaces {
		names = append(names, n)
	}
	sort.Strings(names)
	for _, n := range names {
		obj := ipkg.Types.Scope().Lookup(n)
		if obj == nil {
			r.Undecided = append(r.Undecided, "interface "+n+" not found (S0.spi anchor)")
			continue
		}
		it, ok := obj.Type().Underlying().(*types.Interface)
		if !ok {
			continue
		}
		var impls []string
		for path, pkg := range a.P.ByPath {
			if isSpecTypesPkg(path) {
				continue
			}
			sc := pkg.Types.Scope()
			for _, tn := range sc.Names() {
				to, isT := sc.Lookup(tn).(*types.TypeName)
				if !isT || to.IsAlias() {
					continue
				}
				if _, isI := to.Type().Underlying().(*types.Interface); isI {
					continue
				}
				if types.Implements(to.Type(), it) || types.Implements(types.NewPointer(to.Type()), it) {
					impls = append(impls, typeShort(to.Type()))
				}
			}
		}
		sort.Strings(impls)
		var bad []string
		for _, im := range impls {
			if !ifaces[n][im] {
				bad = append(bad, im)
			}
		}
		r.Check("S0.spi", props("C01", "C02", "C03", "C04", "C07", "C08"), "the library contains no implementation of the consumer's trust-critical SPI interfaces (KeyManager, BlockUtils, Membership, Communication) and no message log or election scheduler other than the inventoried ones: every Verify/Validate call the other rules count is a call of the consumer's object, not of an interposed cache or filter", "interfaces."+n, a.P.Pos(obj.Pos()), len(bad) == 0,
			"library type(s) "+strings.Join(bad, ", ")+" implement interfaces."+n+": calls the rules attribute to the consumer's SPI may be answered by library code", "W")
	}
}

// ---------------------------------------------------------------- ST.slot: every accessor of the log addresses its own log by its own key

func runStorageSlots(a *Analyzer, r *Results) {
	const typ = "storage.InMemoryStorage"
	fieldOf := func(name string) string {
		switch {
		case strings.Contains(name, "Preprepare"):
			return "preprepareStorage"
		case strings.Contains(name, "Prepare"):
			return "prepareStorage"
		case strings.Contains(name, "Commit"):
			return "commitStorage"
		case strings.Contains(name, "ViewChange"):
			return "viewChangeStorage"
		}
		return ""
	}
	logs := map[string]bool{"preprepareStorage": true, "prepareStorage": true, "commitStorage": true, "viewChangeStorage": true}
	n := 0
	for _, f := range a.P.Funcs {
		if !strings.HasSuffix(funcPkgPath(f), "services/storage") || f.Signature.Recv() == nil || f.Parent() != nil {
			continue
		}
		if typeShort(f.Signature.Recv().Type()) != typ || !token.IsExported(f.Name()) {
			continue
		}
		want := fieldOf(f.Name())
		if want == "" {
			continue
		}
		// fields touched and values used as lookup keys, through static helpers of the package (parameters bound)
		touched := map[string]bool{}
		usedKey := map[ssa.Value]bool{} // parameters of f that end up as a lookup / update key of the log
		type frame struct {
			fn   *ssa.Function
			bind map[*ssa.Parameter]ssa.Value // helper parameter -> value in f
		}
		var visit func(fr frame, depth int)
		rootParam := func(fr frame, v ssa.Value) ssa.Value {
			for i := 0; i < 6; i++ {
				switch x := v.(type) {
				case *ssa.Convert:
					v = x.X
					continue
				case *ssa.ChangeType:
					v = x.X
					continue
				case *ssa.Parameter:
					if b, ok := fr.bind[x]; ok {
						return b
					}
					return x
				}
				break
			}
			return v
		}
		// a key may be one of the parameters or a composite key struct built from several of them
		markKey := func(fr frame, k ssa.Value) {
			usedKey[rootParam(fr, k)] = true
			if ld, ok := k.(*ssa.UnOp); ok && ld.Op == token.MUL {
				if al, ok := ld.X.(*ssa.Alloc); ok {
					for _, ref := range *al.Referrers() {
						if fa, ok := ref.(*ssa.FieldAddr); ok {
							for _, r2 := range *fa.Referrers() {
								if st, ok := r2.(*ssa.Store); ok && st.Addr == ssa.Value(fa) {
									usedKey[rootParam(fr, st.Val)] = true
								}
							}
						}
					}
				}
			}
		}
		visit = func(fr frame, depth int) {
			if depth > 4 {
				return
			}
			for _, b := range fr.fn.Blocks {
				for _, in := range b.Instrs {
					switch x := in.(type) {
					case *ssa.FieldAddr:
						if pt, ok := x.X.Type().Underlying().(*types.Pointer); ok && typeShort(pt.Elem()) == typ {
							if fn := fieldName(x.X.Type(), x.Field); logs[fn] {
								touched[fn] = true
							}
						}
					case *ssa.Lookup:
						if _, isMap := x.X.Type().Underlying().(*types.Map); isMap {
							markKey(fr, x.Index)
						}
					case *ssa.MapUpdate:
						markKey(fr, x.Key)
					case ssa.CallInstruction:
						sc := x.Common().StaticCallee()
						if sc == nil || !a.P.IsLib(sc) || !strings.HasSuffix(funcPkgPath(sc), "services/storage") || sc == fr.fn {
							continue
						}
						nb := map[*ssa.Parameter]ssa.Value{}
						args := x.Common().Args
						for i, p := range sc.Params {
							if i < len(args) {
								nb[p] = rootParam(fr, args[i])
							}
						}
						visit(frame{sc, nb}, depth+1)
					}
				}
			}
		}
		visit(frame{f, map[*ssa.Parameter]ssa.Value{}}, 0)
		n++
		var wrong []string
		for fld := range touched {
			if fld != want {
				wrong = append(wrong, fld)
			}
		}
		sort.Strings(wrong)
		why := ""
		if len(wrong) > 0 {
			why = f.Name() + " also reads or writes " + strings.Join(wrong, ", ")
		} else if !touched[want] {
			why = f.Name() + " does not touch " + want
		}
		for _, p := range f.Params[1:] {
			switch typeShort(p.Type()) {
			case "primitives.BlockHeight", "primitives.View", "primitives.BlockHash":
				if !usedKey[p] && why == "" {
					why = "parameter " + p.Name() + " of " + f.Name() + " is never used as a key of the log: the result does not depend on it"
				}
			}
		}
		r.Check("ST.slot", props("C01", "C03", "C05", "C09", "C10", "C11", "C20"), "every accessor of the in-memory message log touches only the log its name says (proposals / PREPAREs / COMMITs / votes are never mixed: a commit quorum is counted on COMMITs) and uses each of its (height, view, hash) parameters as a key of that log", f.Name(), a.P.Pos(f.Pos()), why == "", why, "D")
	}
	if n == 0 {
		r.Undecided = append(r.Undecided, "no accessor of InMemoryStorage found (ST.slot anchor)")
	}
}

// ---------------------------------------------------------------- S0.single: the objects the rules treat as one live instance are built once

func runSingletons(a *Analyzer, r *Results) {
	perNode := []string{"state.State", "state.ViewContexts", "rawmessagesfilter.RawMessageFilter", "leanhelix.WorkerLoop", "leanhelix.MainLoop", "Electiontrigger.TimerBasedElectionTrigger"}
	// (LeanHelixTerm and its message filter are built on two alternative branches - in / not in the committee - and are not listed)
	perTerm := []string{"termincommittee.TermInCommittee", "messagesfactory.MessageFactory", "storage.InMemoryStorage"}
	for _, group := range [][]string{perNode, perTerm} {
		for _, ts := range group {
			var allocs []*ssa.Alloc
			for _, f := range a.P.Funcs {
				for _, b := range f.Blocks {
					for _, in := range b.Instrs {
						if al, ok := in.(*ssa.Alloc); ok && al.Heap {
							if pt, ok := al.Type().Underlying().(*types.Pointer); ok && typeShort(pt.Elem()) == ts {
								if _, isStruct := pt.Elem().Underlying().(*types.Struct); isStruct {
									allocs = append(allocs, al)
								}
							}
						}
					}
				}
			}
			why := ""
			pos := "-"
			if len(allocs) != 1 {
				why = fmtf("%d allocation sites of %s (expected one constructor)", len(allocs), ts)
			} else {
				ctor := allocs[0].Parent()
				pos = a.P.InstrPos(allocs[0])
				if a.Loops(ctor).Innermost(allocs[0].Block()) != nil {
					why = ts + " is allocated in a loop"
				}
				nSites := 0
				for _, g := range a.P.Funcs {
					for _, b := range g.Blocks {
						for _, in := range b.Instrs {
							if ci, ok := in.(ssa.CallInstruction); ok && ci.Common().StaticCallee() == ctor {
								nSites++
								if a.Loops(g).Innermost(b) != nil && why == "" {
									why = shortName(ctor) + " is called in a loop in " + shortName(g)
								}
							}
						}
					}
				}
				if ts == "leanhelix.MainLoop" && nSites == 0 {
					nSites = 1 // the root object: built by the consumer
				}
				if nSites != 1 && why == "" {
					why = fmtf("%s is called at %d sites: several %s objects can be live, the components no longer share one (the rules assume a single instance)", shortName(ctor), nSites, ts)
				}
			}
			r.Check("S0.single", props("C13", "C17", "C15", "C10"), "each component the library wires together (state, context registry, height filter, loops, election trigger; per term: term, filter, factory, log) is allocated by one constructor that is called at exactly one site, outside any loop: all parts of a node read and write the same state object", ts, pos, why == "", why, "W")
		}
	}
}

// ---------------------------------------------------------------- A1.inplace: slices that belong to somebody else are not rewritten

// A slice that a function received as a parameter (or obtained from a call / a field) shares its backing array with
// its owner. Filtering or compacting it in place (append(s[:0], ...), s[i] = ...) silently rewrites the owner's view:
// the votes a leader counted are no longer the votes it embeds. Judged for slices of messages, builders and ids.
func runInPlace(a *Analyzer, r *Results) {
	interesting := func(t types.Type) bool {
		sl, ok := t.Underlying().(*types.Slice)
		if !ok {
			return false
		}
		if b, isB := sl.Elem().Underlying().(*types.Basic); isB && b.Kind() == types.Byte {
			return false
		}
		if isCommitteeSlice(t) {
			return false // I3.inplace
		}
		// slices of messages / builders / blocks (pointers and interfaces): the things whose identity and order matter
		switch sl.Elem().Underlying().(type) {
		case *types.Pointer, *types.Interface:
			return true
		}
		return false
	}
	var foreign func(v ssa.Value, seen map[ssa.Value]bool) (bool, string)
	foreign = func(v ssa.Value, seen map[ssa.Value]bool) (bool, string) {
		if seen[v] {
			return false, ""
		}
		seen[v] = true
		switch x := v.(type) {
		case *ssa.Parameter:
			return true, "parameter " + x.Name()
		case *ssa.FreeVar:
			return true, "captured variable " + x.Name()
		case *ssa.Slice:
			return foreign(x.X, seen)
		case *ssa.Phi:
			for _, e := range x.Edges {
				if f, w := foreign(e, seen); f {
					return f, w
				}
			}
		case *ssa.UnOp:
			if _, isFA := x.X.(*ssa.FieldAddr); isFA {
				return true, "a field"
			}
			return foreign(x.X, seen)
		case *ssa.Call:
			if isBuiltin(x, "append") {
				return foreign(x.Call.Args[0], seen)
			}
			if sc := x.Call.StaticCallee(); sc != nil && a.P.IsLib(sc) {
				return true, "the result of " + shortName(sc)
			}
			if x.Call.IsInvoke() {
				return true, "the result of " + x.Call.Method.Name()
			}
		}
		return false, ""
	}
	n := 0
	for _, f := range a.P.Funcs {
		if isSpecTypesPkg(funcPkgPath(f)) || strings.HasPrefix(funcPkgPath(f), modPath+"/services/logger") {
			continue
		}
		for _, b := range f.Blocks {
			for _, in := range b.Instrs {
				switch x := in.(type) {
				case *ssa.Call:
					if !isBuiltin(x, "append") || !interesting(x.Call.Args[0].Type()) {
						continue
					}
					// append through a reslice of foreign memory
					base := x.Call.Args[0]
					viaReslice := false
					seenPhi := map[ssa.Value]bool{}
					for steps := 0; steps < 8; steps++ {
						ph, ok := base.(*ssa.Phi)
						if !ok || seenPhi[ph] {
							break
						}
						seenPhi[ph] = true
						// accumulator: follow the edge that enters the loop (not the appended values)
						var next ssa.Value
						for _, e := range ph.Edges {
							if c, isCall := e.(*ssa.Call); isCall && isBuiltin(c, "append") {
								continue
							}
							if e != ssa.Value(ph) {
								next = e
							}
						}
						if next == nil {
							break
						}
						base = next
					}
					if sl, ok := base.(*ssa.Slice); ok {
						viaReslice = true
						base = sl.X
					}
					if !viaReslice {
						continue
					}
					if fo, what := foreign(base, map[ssa.Value]bool{}); fo {
						n++
						r.Check("A1.inplace", props("C09", "C07", "C11", "C17", "C20"), "a slice received from somebody else (parameter, field, call result) is never compacted or filtered in place: appending through a reslice of it (s[:0], s[:n]) overwrites the elements its owner still reads", shortName(f), a.P.InstrPos(in), false,
							"append through a reslice of "+what+" rewrites the backing array shared with its owner", "W")
					}
				case *ssa.Store:
					ia, ok := x.Addr.(*ssa.IndexAddr)
					if !ok || !interesting(ia.X.Type()) {
						continue
					}
					if fo, what := foreign(ia.X, map[ssa.Value]bool{}); fo {
						if _, isParam := ia.X.(*ssa.Parameter); isParam || strings.HasPrefix(what, "the result") || what == "a field" || strings.HasPrefix(what, "parameter") {
							n++
							r.Check("A1.inplace", props("C09", "C07", "C11", "C17", "C20"), "a slice received from somebody else (parameter, field, call result) is never compacted or filtered in place: appending through a reslice of it (s[:0], s[:n]) overwrites the elements its owner still reads", shortName(f), a.P.InstrPos(in), false,
								"element store into "+what+" rewrites the slice its owner still reads", "W")
						}
					}
				}
			}
		}
	}
	if n == 0 {
		r.Check("A1.inplace", props("C09", "C07", "C11", "C17", "C20"), "a slice received from somebody else (parameter, field, call result) is never compacted or filtered in place: appending through a reslice of it (s[:0], s[:n]) overwrites the elements its owner still reads", "none", a.P.Pos(a.P.Func("services/termincommittee.NewTermInCommittee").Pos()), true, "", "W")
	}
}

// ---------------------------------------------------------------- H6.atomic / Z2.sites: the worker's round bookkeeping is all-or-nothing

// errFailingSucc: if block b ends in an If that tests the error result of `call` against nil, the index of the successor
// taken when the call FAILED (-1 otherwise).
func errFailingSucc(b *ssa.BasicBlock, call *ssa.Call) int {
	ifi, ok := b.Instrs[len(b.Instrs)-1].(*ssa.If)
	if !ok {
		return -1
	}
	fromCall := func(v ssa.Value) bool {
		if v == ssa.Value(call) {
			return true
		}
		ex, ok := v.(*ssa.Extract)
		return ok && ex.Tuple == ssa.Value(call)
	}
	cond := ifi.Cond
	// bool verdict: if ok {..} / if !ok {..}
	neg := false
	if u, isU := cond.(*ssa.UnOp); isU && u.Op == token.NOT {
		cond, neg = u.X, true
	}
	if fromCall(cond) && isBoolType(cond.Type()) {
		if neg {
			return 0 // !ok is true: failed
		}
		return 1
	}
	bo, ok := ifi.Cond.(*ssa.BinOp)
	if !ok || (bo.Op != token.NEQ && bo.Op != token.EQL) {
		return -1
	}
	x, y := bo.X, bo.Y
	if c, isC := x.(*ssa.Const); isC && c.IsNil() {
		x, y = y, x
	}
	if c, isC := y.(*ssa.Const); !isC || !c.IsNil() {
		return -1
	}
	if !fromCall(x) || !isErrorType(x.Type()) {
		return -1
	}
	if bo.Op == token.NEQ {
		return 0
	}
	return 1
}

// mustReachAfterSuccess: every path from `call` (having succeeded) to a return of its function passes an instruction
// satisfying pred; returns the position of an offending return otherwise.
func mustReachAfterSuccess(a *Analyzer, call *ssa.Call, pred func(ssa.Instruction) bool) (bool, string) {
	return mustReachAfterSuccessN(a, call, pred, 0)
}

func mustReachAfterSuccessN(a *Analyzer, call *ssa.Call, pred func(ssa.Instruction) bool, depth int) (bool, string) {
	blk := call.Block()
	start := 0
	for i, in := range blk.Instrs {
		if in == ssa.Instruction(call) {
			start = i + 1
		}
	}
	seen := map[*ssa.BasicBlock]bool{}
	bad := ""
	escapes := false
	var walk func(b *ssa.BasicBlock, idx int) bool
	walk = func(b *ssa.BasicBlock, idx int) bool {
		for i := idx; i < len(b.Instrs); i++ {
			in := b.Instrs[i]
			if instrMustDo(a, in, pred, 0) {
				return true
			}
			switch in.(type) {
			case *ssa.Return:
				bad = a.P.InstrPos(in)
				escapes = true
				return true // judged at the callers below
			case *ssa.Panic:
				return true
			}
		}
		skip := errFailingSucc(b, call)
		for si, s := range b.Succs {
			if si == skip || seen[s] {
				continue
			}
			seen[s] = true
			if !walk(s, 0) {
				return false
			}
		}
		return true
	}
	walk(blk, start)
	if !escapes {
		return true, ""
	}
	// the function hands the successful outcome back to its callers (a helper that returns a verdict): each caller must
	// do what is required after ITS call succeeded
	f := call.Parent()
	if depth >= 3 || token.IsExported(f.Name()) {
		return false, bad
	}
	n := 0
	for _, g := range a.P.Funcs {
		for _, gb := range g.Blocks {
			for _, gi := range gb.Instrs {
				gc, isCall := gi.(*ssa.Call)
				if !isCall || gc.Call.StaticCallee() != f {
					continue
				}
				n++
				if ok, b2 := mustReachAfterSuccessN(a, gc, pred, depth+1); !ok {
					return false, b2
				}
			}
		}
	}
	if n == 0 {
		return false, bad
	}
	return true, ""
}

func runRoundBookkeeping(a *Analyzer, r *Results) {
	termField := func(addr ssa.Value) bool {
		fa, ok := addr.(*ssa.FieldAddr)
		if !ok {
			return false
		}
		pt, ok := fa.X.Type().Underlying().(*types.Pointer)
		if !ok || typeShort(pt.Elem()) != "leanhelix.WorkerLoop" {
			return false
		}
		st, ok := pt.Elem().Underlying().(*types.Struct)
		if !ok {
			return false
		}
		return strings.Contains(typeShort(st.Field(fa.Field).Type()), "LeanHelixTerm")
	}
	isTermStore := func(in ssa.Instruction) bool {
		st, ok := in.(*ssa.Store)
		return ok && termField(st.Addr)
	}
	isNewTermStore := func(in ssa.Instruction) bool {
		st, ok := in.(*ssa.Store)
		if !ok || !termField(st.Addr) {
			return false
		}
		if c, isC := st.Val.(*ssa.Const); isC && c.IsNil() {
			return false
		}
		return true
	}
	isDrain := func(in ssa.Instruction) bool {
		ci, ok := in.(ssa.CallInstruction)
		if !ok {
			return false
		}
		sc := ci.Common().StaticCallee()
		return sc != nil && funcID(sc) == idE2
	}
	nSet := 0
	for _, f := range a.P.Funcs {
		if funcPkgPath(f) != modPath {
			continue
		}
		for _, b := range f.Blocks {
			for _, in := range b.Instrs {
				call, ok := in.(*ssa.Call)
				if !ok {
					continue
				}
				sc := call.Call.StaticCallee()
				if sc == nil {
					continue
				}
				switch {
				case shortName(sc) == "state.SetHeightAndResetView":
					nSet++
					ok1, bad1 := mustReachAfterSuccess(a, call, isNewTermStore)
					ok2, bad2 := mustReachAfterSuccess(a, call, isDrain)
					why := ""
					if !ok1 {
						why = "after the height was advanced, " + shortName(f) + " can return at " + bad1 + " without having installed a term for the new height (the old term stays the handler of a height it does not belong to)"
					} else if !ok2 {
						why = "after the height was advanced, " + shortName(f) + " can return at " + bad2 + " without switching the height filter to the new term (ConsumeCacheMessages)"
					}
					r.Check("H6.atomic", props("C13", "C16", "C17", "C14", "C08", "C10", "C07"), "starting a round is all-or-nothing: once the height has been advanced every path installs the term built for the new height and hands it to the height filter; every refusal (stale context, failed increment) comes before the state changes, so a term that was built (and has armed its timer) is never dropped uninstalled", shortName(f), a.P.InstrPos(in), ok1 && ok2, why, "P")
				}
			}
		}
	}
	if nSet == 0 {
		r.Undecided = append(r.Undecided, "no SetHeightAndResetView call in the worker (H6.atomic anchor)")
	}
	// Z2.sites: a term is disposed only on the way out of the worker or when it is being replaced
	wlb := a.loopBodyOf("(*leanhelix.WorkerLoop).Run")
	run := wlb.body
	nDisp := 0
	var judge func(site ssa.Instruction, depth int) (bool, string)
	judge = func(site ssa.Instruction, depth int) (bool, string) {
		f := site.Parent()
		okHere := mustReach(site, func(in ssa.Instruction) bool {
			if isTermStore(in) {
				return true
			}
			if ret, isRet := in.(*ssa.Return); isRet && f == run {
				return !wlb.stepContinues(ret) // leaving the event loop
			}
			return false
		})
		if okHere {
			return true, ""
		}
		if f == run || depth > 3 {
			return false, shortName(f) + " goes on with the disposed term still installed"
		}
		// a helper that only disposes: judged at each of its call sites
		n := 0
		for _, g := range a.P.Funcs {
			for _, gb := range g.Blocks {
				for _, gi := range gb.Instrs {
					if ci, isCall := gi.(ssa.CallInstruction); isCall && ci.Common().StaticCallee() == f {
						n++
						if ok, why := judge(gi, depth+1); !ok {
							return false, why + " (after " + shortName(f) + " at " + a.P.InstrPos(gi) + ")"
						}
					}
				}
			}
		}
		if n == 0 {
			return false, shortName(f) + " disposes the term and has no caller that replaces it or leaves the loop"
		}
		return true, ""
	}
	for _, f := range a.P.Funcs {
		if funcPkgPath(f) != modPath {
			continue
		}
		for _, b := range f.Blocks {
			for _, in := range b.Instrs {
				ci, ok := in.(ssa.CallInstruction)
				if !ok {
					continue
				}
				sc := ci.Common().StaticCallee()
				if sc == nil || sc.Name() != "Dispose" || !strings.Contains(funcID(sc), "LeanHelixTerm") {
					continue
				}
				nDisp++
				ok2, why := judge(in, 0)
				r.Check("Z2.sites", props("C10", "C16", "C13"), "the current term is disposed (its election timer stopped, its message log cleared) only when the worker leaves its loop or when the term is replaced right afterwards: a term that stays installed keeps its log, so nothing it accepted is accepted or answered a second time", shortName(f), a.P.InstrPos(in), ok2, why, "P")
			}
		}
	}
	if nDisp == 0 {
		r.Undecided = append(r.Undecided, "no LeanHelixTerm.Dispose call in the worker (Z2.sites anchor)")
	}
}

// callMustReach: the instruction is the SPI invoke itself, or a static call of a library function every path of which
// (entry to normal return) passes such an instruction: the send is unconditional once the helper is entered.
// instrMustDo: the instruction satisfies pred, or is a static call of a library function every path of which (from entry
// to return) passes an instruction that does.
func instrMustDo(a *Analyzer, in ssa.Instruction, pred func(ssa.Instruction) bool, depth int) bool {
	if pred(in) {
		return true
	}
	ci, ok := in.(*ssa.Call)
	if !ok {
		return false
	}
	sc := ci.Call.StaticCallee()
	if sc == nil || !a.P.IsLib(sc) || len(sc.Blocks) == 0 || depth > 3 {
		return false
	}
	seen := map[*ssa.BasicBlock]bool{sc.Blocks[0]: true}
	var walk func(b *ssa.BasicBlock) bool
	walk = func(b *ssa.BasicBlock) bool {
		for _, x := range b.Instrs {
			if instrMustDo(a, x, pred, depth+1) {
				return true
			}
			switch x.(type) {
			case *ssa.Return:
				return false
			case *ssa.Panic:
				return true
			}
		}
		for _, s := range b.Succs {
			if seen[s] {
				continue
			}
			seen[s] = true
			if !walk(s) {
				return false
			}
		}
		return true
	}
	return walk(sc.Blocks[0])
}

func callMustReach(a *Analyzer, in ssa.Instruction, recvType, method string, depth int) bool {
	ci, ok := in.(ssa.CallInstruction)
	if !ok {
		return false
	}
	cc := ci.Common()
	if cc.IsInvoke() && cc.Method.Name() == method && typeShort(cc.Value.Type()) == recvType {
		return true
	}
	sc := cc.StaticCallee()
	if sc == nil || !a.P.IsLib(sc) || depth > 4 {
		return false
	}
	// every path entry -> return of sc passes a must-reaching instruction
	seen := map[*ssa.BasicBlock]bool{}
	var walk func(b *ssa.BasicBlock) bool
	walk = func(b *ssa.BasicBlock) bool {
		for _, x := range b.Instrs {
			if callMustReach(a, x, recvType, method, depth+1) {
				return true
			}
			switch x.(type) {
			case *ssa.Return:
				return false
			case *ssa.Panic:
				return true
			}
		}
		for _, s := range b.Succs {
			if seen[s] {
				continue
			}
			seen[s] = true
			if !walk(s) {
				return false
			}
		}
		return true
	}
	seen[sc.Blocks[0]] = true
	return walk(sc.Blocks[0])
}

// cacheBookkeeping (F2.side): on the receive path the cache's bookkeeping - the high-water mark and the eviction of
// lower heights - is driven only by messages that are themselves accepted for caching (own instance, not our own,
// future height). A message that will be dropped must not be able to evict the backlog or raise the bound.
func (ig *ingest) cacheBookkeeping(e *Effect) {
	if e.Config != "" || len(e.Splits) > 0 || e.Entry != idE1 {
		return
	}
	for _, fr := range e.Path {
		if fr.Fn == idE2 {
			return // the drain of a round started by this message: judged by F3 / F6 / F7
		}
	}
	rmf := This("rawmessagesfilter.RawMessageFilter")
	text := "on the receive path the future cache's bookkeeping (eviction of lower heights, raising the one-height bound) is driven only by a message that is itself accepted for caching: own instance, not the node's own, future height"
	var hExpr *Term
	switch {
	case e.Kind == "store" && e.Name == "rawmessagesfilter.RawMessageFilter.latestFutureBlockHeight":
		hExpr = unfreeze(e.Args[0])
	case e.Kind == "mapdelete" && e.Name == "rawmessagesfilter.RawMessageFilter.futureCache" && len(e.Args) == 2:
		ev0 := ig.a.NewEval(e, ig.r)
		for _, b := range ev0.Find(Lt(ev0.Arg(1), Var("bound"))) {
			hExpr = unfreeze(b["bound"])
		}
	default:
		return
	}
	ev := ig.a.NewEval(e, ig.r)
	b := map[string]*Term{}
	if hExpr == nil || !Match(Call("protocol.BlockHeight", Call("protocol.SignedHeader", Var("C"))), hExpr, b) {
		ev.Verdict("F2.side", props("C17", "C08", "C09", "C10"), text, "", false, "the bookkeeping is not driven by the height of the received message: "+PP(hExpr))
		return
	}
	C := b["C"]
	H := Call("protocol.SignedHeader", C)
	ev.Require("F2.side", props("C17", "C08", "C09", "C10"), text, "",
		Eq(inst(H), Field(rmf, "instanceId")), Ne(mid(Call("protocol.Sender", C)), Field(rmf, "myMemberId")), Lt(ig.k.SHeight, ht(H)))
}

// ---------------------------------------------------------------- ST.shape: what the log can tell apart

// A vote is identified by (height, view[, block hash], sender). Whatever the in-memory log looks like (nested maps,
// composite key structs, helper records), every per-sender level of a log must sit below keys for all the other
// components: otherwise "already have this sender's message" is decided on a coarser key and a correct member's
// message for another view or block is dropped as a duplicate.
func runStorageShape(a *Analyzer, r *Results) {
	n := a.P.LibType("services/storage.InMemoryStorage")
	st, ok := n.Underlying().(*types.Struct)
	if !ok {
		r.Undecided = append(r.Undecided, "InMemoryStorage is not a struct (ST.shape anchor)")
		return
	}
	need := map[string][]string{
		"prepareStorage":    {"BlockHeight", "View", "Hash"},
		"commitStorage":     {"BlockHeight", "View", "Hash"},
		"viewChangeStorage": {"BlockHeight", "View"},
	}
	keyName := func(t types.Type) string {
		s := typeShort(t)
		if i := strings.LastIndex(s, "."); i >= 0 {
			s = s[i+1:]
		}
		return s
	}
	for i := 0; i < st.NumFields(); i++ {
		fname := canonicalField(n, st.Field(i).Name())
		req, isLog := need[fname]
		if !isLog {
			continue
		}
		var bad []string
		nMember := 0
		var walk func(t types.Type, keys []string, depth int, seen map[types.Type]bool)
		walk = func(t types.Type, keys []string, depth int, seen map[types.Type]bool) {
			if depth > 8 || seen[t] {
				return
			}
			switch x := t.Underlying().(type) {
			case *types.Pointer:
				walk(x.Elem(), keys, depth+1, seen)
			case *types.Slice:
				walk(x.Elem(), keys, depth+1, seen)
			case *types.Struct:
				if nt, isNamed := t.(*types.Named); isNamed && nt.Obj().Pkg() != nil && !strings.HasSuffix(nt.Obj().Pkg().Path(), "services/storage") {
					return // a message: the leaf
				}
				seen[t] = true
				for j := 0; j < x.NumFields(); j++ {
					walk(x.Field(j).Type(), keys, depth+1, seen)
				}
				delete(seen, t)
			case *types.Map:
				var ks []string
				if ks2, isStruct := x.Key().Underlying().(*types.Struct); isStruct {
					for j := 0; j < ks2.NumFields(); j++ {
						ks = append(ks, keyName(ks2.Field(j).Type()))
					}
				} else {
					ks = []string{keyName(x.Key())}
				}
				isMember := false
				for _, kn := range ks {
					if strings.Contains(kn, "MemberId") {
						isMember = true
					}
				}
				all := append(append([]string{}, keys...), ks...)
				if isMember {
					nMember++
					for _, rq := range req {
						found := false
						for _, kn := range all {
							if strings.Contains(kn, rq) {
								found = true
							}
						}
						if !found {
							bad = append(bad, "a per-sender level is keyed by ["+strings.Join(all, ", ")+"]: no "+rq+" component")
						}
					}
				}
				walk(x.Elem(), all, depth+1, seen)
			}
		}
		walk(st.Field(i).Type(), nil, 0, map[types.Type]bool{})
		why := ""
		if nMember == 0 {
			why = "the log has no per-sender level (duplicates of one sender cannot be told from votes of different senders)"
		} else if len(bad) > 0 {
			why = dedupSorted(bad)[0]
		}
		r.Check("ST.shape", props("C11", "C03", "C01", "C05", "C10"), "every per-sender level of a message log lies below keys for height, view and (for PREPARE / COMMIT) block hash: 'this sender already voted' is never decided on a coarser key, so a correct member's vote for another view or block is not dropped as a duplicate", fname, a.P.Pos(st.Field(i).Pos()), why == "", why, "D")
	}
}

// ---------------------------------------------------------------- W6.args: the factory embeds the collections it is given, all of them

func runFactoryCollections(a *Analyzer, r *Results) {
	n := 0
	for _, f := range a.P.Funcs {
		if !strings.HasSuffix(funcPkgPath(f), "services/messagesfactory") {
			continue
		}
		c := a.NewFCtx(f, a.EntryEnv(f, nil), 0)
		for _, b := range f.Blocks {
			for _, in := range b.Instrs {
				st, ok := in.(*ssa.Store)
				if !ok {
					continue
				}
				fa, ok := st.Addr.(*ssa.FieldAddr)
				if !ok {
					continue
				}
				pt, ok := fa.X.Type().Underlying().(*types.Pointer)
				if !ok {
					continue
				}
				nt, ok := pt.Elem().(*types.Named)
				if !ok || nt.Obj().Pkg() == nil || nt.Obj().Pkg().Path() != modPath+"/spec/types/go/protocol" || !strings.HasSuffix(nt.Obj().Name(), "Builder") {
					continue
				}
				sl, isSlice := st.Val.Type().Underlying().(*types.Slice)
				if !isSlice {
					continue
				}
				if bt, isB := sl.Elem().Underlying().(*types.Basic); isB && bt.Kind() == types.Byte {
					continue
				}
				n++
				t := c.Term(st.Val)
				why := "the collection stored into " + nt.Obj().Name() + "." + fieldName(fa.X.Type(), fa.Field) + " is " + PP(t)
				var okVal func(v ssa.Value, depth int) bool
				okVal = func(v ssa.Value, depth int) bool {
					if k, isC := v.(*ssa.Const); isC && k.IsNil() {
						return true
					}
					tv := c.Term(v)
					switch {
					case tv.Op == "root": // the caller's collection, as is
						return true
					case tv.Op == "map": // one element per element of the source, in order
						return true
					case tv.Key() == tNil.Key():
						return true
					}
					if ph, isPhi := v.(*ssa.Phi); isPhi && depth < 3 {
						for _, e := range ph.Edges {
							if !okVal(e, depth+1) {
								return false
							}
						}
						return true
					}
					// an empty slice that the function then fills unconditionally, element by element, through the field
					if ms, isMS := v.(*ssa.MakeSlice); isMS {
						if k, isC := ms.Len.(*ssa.Const); isC && k.Int64() == 0 {
							return true
						}
					}
					if ap, isCall := v.(*ssa.Call); isCall && isBuiltin(ap, "append") {
						if ld, isLd := ap.Call.Args[0].(*ssa.UnOp); isLd {
							if fa2, isFA := ld.X.(*ssa.FieldAddr); isFA && fa2.Field == fa.Field && fa2.X == fa.X {
								if l := a.Loops(f).Innermost(st.Block()); l != nil && l.dominatesAllLatches(st.Block()) {
									return true
								}
							}
						}
					}
					// one of the results of a helper: judged on what the helper returns
					if ex, isEx := v.(*ssa.Extract); isEx && depth < 2 {
						if hc, isCall := ex.Tuple.(*ssa.Call); isCall {
							if g := hc.Call.StaticCallee(); g != nil && a.P.IsLib(g) && strings.HasSuffix(funcPkgPath(g), "services/messagesfactory") {
								gc := a.NewFCtx(g, a.EntryEnv(g, nil), 0)
								okAll := true
								for _, gb := range g.Blocks {
									if ret, isRet := gb.Instrs[len(gb.Instrs)-1].(*ssa.Return); isRet && ex.Index < len(ret.Results) {
										rv := ret.Results[ex.Index]
										if k, isC := rv.(*ssa.Const); isC && k.IsNil() {
											continue
										}
										tv2 := gc.Term(rv)
										if tv2.Op != "root" && tv2.Op != "map" {
											okAll = false
										}
									}
								}
								return okAll
							}
						}
					}
					return false
				}
				okv := okVal(st.Val, 0)
				if ph, isPhi := st.Val.(*ssa.Phi); isPhi && !okv {
					for _, e := range ph.Edges {
						why += " | edge " + PP(c.Term(e))
					}
				}
				if !okv {
					why += ": not the argument itself nor an element-wise copy of it (elements may be dropped, added or reordered)"
				}
				r.Check("W6.args", props("C20", "C09", "C11", "C07"), "the message factory embeds the collections it is handed (votes of a NEW_VIEW, PREPARE senders of a proof) completely and in order: the argument itself or an element-by-element copy, never a filtered one", shortName(f)+"|"+nt.Obj().Name()+"."+fieldName(fa.X.Type(), fa.Field), a.P.InstrPos(in), okv, why, "D")
			}
		}
	}
	if n == 0 {
		r.Undecided = append(r.Undecided, "no builder collection field is set in the message factory (W6.args anchor)")
	}
}
