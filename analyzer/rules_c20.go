package main

import (
	"go/ast"
	"go/types"
	"strings"

	"golang.org/x/tools/go/ssa"
)

// Engine D: writer/reader agreement (DESIGN §2.12) for C20 (and the proof assembly clause of C03).

var msgKinds = []struct {
	goType, tag, field, fromRaw, reader, isMsg string
	block                                      bool
	mtype                                      string
}{
	{"interfaces.PreprepareMessage", "LEANHELIX_CONTENT_MESSAGE_PREPREPARE_MESSAGE", "PreprepareMessage", "protocol.PreprepareContentBuilderFromRaw", "protocol.PreprepareMessage", "protocol.IsMessagePreprepareMessage", true, "LEAN_HELIX_PREPREPARE"},
	{"interfaces.PrepareMessage", "LEANHELIX_CONTENT_MESSAGE_PREPARE_MESSAGE", "PrepareMessage", "protocol.PrepareContentBuilderFromRaw", "protocol.PrepareMessage", "protocol.IsMessagePrepareMessage", false, "LEAN_HELIX_PREPARE"},
	{"interfaces.CommitMessage", "LEANHELIX_CONTENT_MESSAGE_COMMIT_MESSAGE", "CommitMessage", "protocol.CommitContentBuilderFromRaw", "protocol.CommitMessage", "protocol.IsMessageCommitMessage", false, "LEAN_HELIX_COMMIT"},
	{"interfaces.ViewChangeMessage", "LEANHELIX_CONTENT_MESSAGE_VIEW_CHANGE_MESSAGE", "ViewChangeMessage", "protocol.ViewChangeMessageContentBuilderFromRaw", "protocol.ViewChangeMessage", "protocol.IsMessageViewChangeMessage", true, "LEAN_HELIX_VIEW_CHANGE"},
	{"interfaces.NewViewMessage", "LEANHELIX_CONTENT_MESSAGE_NEW_VIEW_MESSAGE", "NewViewMessage", "protocol.NewViewMessageContentBuilderFromRaw", "protocol.NewViewMessage", "protocol.IsMessageNewViewMessage", true, "LEAN_HELIX_NEW_VIEW"},
}

func runC20(a *Analyzer, r *Results) {
	pr := props("C20")
	k := a.Anchors()

	// ---- B3: block proof assembly
	{
		id := "services/blockproof.GenerateLeanHelixBlockProof"
		fn := a.P.Func(id)
		cms := Root(fn.Params[1].Name())
		first := T("index", "", cms, Const("0"))
		H0 := hdr(first)
		ref := Struct("protocol.BlockRefBuilder", []string{"MessageType", "InstanceId", "BlockHeight", "View", "BlockHash"},
			[]*Term{k.ProtoConst("LEAN_HELIX_COMMIT"), inst(H0), ht(H0), vw(H0), hash(H0)})
		node := Struct("protocol.SenderSignatureBuilder", []string{"MemberId", "Signature"}, []*Term{mid(snd(bound)), Call("protocol.Signature", snd(bound))})
		share := Call("protocol.Build", Struct("protocol.SenderSignatureBuilder", []string{"MemberId", "Signature"}, []*Term{mid(snd(bound)), Call("protocol.Share", content(bound))}))
		want := Call("protocol.Build", Struct("protocol.BlockProofBuilder", []string{"BlockRef", "Nodes", "RandomSeedSignature"},
			[]*Term{ref, T("map", "", cms, node), Call("interfaces.AggregateRandomSeed", k.KM, ht(H0), T("map", "", cms, share))}))
		rets, und := a.Returns(id, nil)
		r.Undecided = append(r.Undecided, und...)
		for _, e := range rets {
			got := e.Args[0]
			why := ""
			if got.Key() != want.Key() {
				why = diffTerms(got, want)
			}
			r.Check("B3", props("C03", "C20"), "the block proof is {COMMIT-typed BlockRef of the commits' (instance, height, view, hash); Nodes = one {sender id, sender signature} per commit, all commits, in order; seed = aggregate of every commit's {sender id, share}}", "GenerateLeanHelixBlockProof", e.Pos(a), got.Key() == want.Key(), why, "D")
		}
		if len(rets) == 0 {
			r.Undecided = append(r.Undecided, id+": no return found")
		}
	}

	// ---- W8.members: the signer list of a block proof has one entry per node of the proof, in order, unfiltered
	{
		id := "leanhelix.GetMemberIdsFromBlockProof"
		fn := a.P.Func(id)
		rets, und := a.Returns(id, nil)
		r.Undecided = append(r.Undecided, und...)
		bytesArg := Root(fn.Params[0].Name())
		want := T("map", "", Call("protocol.NodesIterator", Call("protocol.BlockProofReader", bytesArg)), mid(bound))
		n := 0
		for _, e := range rets {
			if len(e.Args) != 2 || e.Args[1].Key() != tNil.Key() {
				continue
			}
			n++
			got := e.Args[0]
			r.Check("W8.members", props("C20", "C02"), "GetMemberIdsFromBlockProof returns the member id of every node entry of the proof, in order (no entry is skipped or rewritten)", "GetMemberIdsFromBlockProof", e.Pos(a), got.Key() == want.Key(), "returns "+PP(got), "D")
		}
		if n == 0 {
			r.Undecided = append(r.Undecided, id+": no successful return found")
		}
	}

	// ---- W5.guard / W5.fresh.ptr: a nested builder that is present only sometimes (phi of nil and a literal)
	for _, f := range a.P.Funcs {
		if isSpecTypesPkg(funcPkgPath(f)) {
			continue
		}
		isBuilderPtr := func(t types.Type) bool {
			p, ok := t.Underlying().(*types.Pointer)
			if !ok {
				return false
			}
			nt, ok := p.Elem().(*types.Named)
			return ok && nt.Obj().Pkg() != nil && nt.Obj().Pkg().Path() == modPath+"/spec/types/go/protocol" && strings.HasSuffix(nt.Obj().Name(), "Builder")
		}
		li := a.Loops(f)
		var fc *FCtx
		for _, b := range f.Blocks {
			for _, in := range b.Instrs {
				st, ok := in.(*ssa.Store)
				if !ok {
					continue
				}
				fa, ok := st.Addr.(*ssa.FieldAddr)
				if !ok || !isBuilderPtr(fa.X.Type()) || !isBuilderPtr(st.Val.Type()) {
					continue
				}
				phi, ok := st.Val.(*ssa.Phi)
				if !ok {
					continue
				}
				if fc == nil {
					fc = a.NewFCtx(f, a.EntryEnv(f, nil), 0)
				}
				label := shortName(f) + "|" + typeShort(fa.X.Type().Underlying().(*types.Pointer).Elem()) + "." + fieldName(fa.X.Type(), fa.Field)
				// leaves of the phi
				var allocs []*ssa.Alloc
				carried := false
				other := false
				seen := map[ssa.Value]bool{}
				l := li.Innermost(b)
				var walk func(v ssa.Value)
				walk = func(v ssa.Value) {
					if seen[v] {
						return
					}
					seen[v] = true
					switch x := v.(type) {
					case *ssa.Const:
					case *ssa.Alloc:
						allocs = append(allocs, x)
					case *ssa.Phi:
						if l != nil && x.Block() == l.Header {
							carried = true
							return
						}
						for _, e := range x.Edges {
							walk(e)
						}
					default:
						other = true
					}
				}
				walk(phi)
				why := ""
				if carried {
					why = "the nested builder can be one that was built for an earlier element of the loop (shared between elements)"
				}
				for _, al := range allocs {
					if l != nil && !l.Body[al.Block()] {
						why = "the nested builder is allocated outside the loop and shared between elements"
					}
				}
				r.Check("W5.fresh.ptr", props("C20", "C11"), "an optional nested builder stored inside a loop is nil or a literal built in that same iteration (never one carried over from another element)", label, a.P.InstrPos(in), why == "", why, "D")
				if other || len(allocs) == 0 {
					continue
				}
				// guards of each literal: from its block up to the branch point that dominates the join
				join := phi.Block()
				for _, al := range allocs {
					base := readerBase(a, fc, al, 0)
					var conds []*Term
					for blk := al.Block(); blk != nil && blk != join.Idom() && blk.Idom() != nil; blk = blk.Idom() {
						d := blk.Idom()
						if ifi, ok := d.Instrs[len(d.Instrs)-1].(*ssa.If); ok && !d.Dominates(join) || ok && d == join.Idom() {
							conds = append(conds, fc.Term(ifi.Cond))
						}
						if d == join.Idom() {
							break
						}
					}
					why2 := ""
					if base == nil {
						why2 = "cannot identify the reader the nested literal copies from"
					} else {
						for _, ct := range conds {
							rest := unsnap(ct).Subst(map[string]*Term{base.Key(): Const("R")})
							rest.Walk(func(t *Term) {
								switch t.Op {
								case "root", "elem", "this", "phi", "unk", "param", "lookup", "index", "field", "global", "make":
									if base.ContainsKey(t.Key()) {
										return // part of the access path that leads to the reader
									}
									if why2 == "" {
										why2 = "whether the nested builder is built depends on " + PP(t) + ", not only on the presence of " + PP(base)
									}
								}
							})
						}
					}
					r.Check("W5.guard", props("C20", "C09", "C11", "C05"), "an optional nested structure is re-encoded exactly when the source carries it: the test that guards building the nested literal depends only on the reader it copies from", label, a.P.InstrPos(al), why2 == "", why2, "D")
				}
			}
		}
	}

	// ---- W5: field-copy completeness and name alignment of protocol builders in hand-written code
	nLits := 0
	allowUnset := map[string]string{
		"protocol.SenderSignatureBuilder|randomseed.ValidateRandomSeed": "MemberId nil = master key (explicit)",
	}
	for _, f := range a.P.Funcs {
		pp := funcPkgPath(f)
		if isSpecTypesPkg(pp) {
			continue
		}
		for _, b := range f.Blocks {
			for _, in := range b.Instrs {
				al, ok := in.(*ssa.Alloc)
				if !ok {
					continue
				}
				elem := al.Type().(*types.Pointer).Elem()
				nt, ok := elem.(*types.Named)
				if !ok || nt.Obj().Pkg() == nil || nt.Obj().Pkg().Path() != modPath+"/spec/types/go/protocol" || !strings.HasSuffix(nt.Obj().Name(), "Builder") {
					continue
				}
				st := nt.Underlying().(*types.Struct)
				nLits++
				readerName := strings.TrimSuffix(nt.Obj().Name(), "Builder")
				set := map[string]bool{}
				fc := a.NewFCtx(f, a.EntryEnv(f, nil), 0)
				recvTerms := map[string]string{} // receiver term key -> example field
				for _, ref := range *al.Referrers() {
					fa, ok := ref.(*ssa.FieldAddr)
					if !ok {
						continue
					}
					fname := st.Field(fa.Field).Name()
					for _, r2 := range *fa.Referrers() {
						s2, ok := r2.(*ssa.Store)
						if !ok || s2.Addr != fa {
							continue
						}
						set[fname] = true
						// source: a reader accessor of the corresponding reader type?
						v := s2.Val
						for {
							if cv, ok := v.(*ssa.Convert); ok {
								v = cv.X
								continue
							}
							if ct, ok := v.(*ssa.ChangeType); ok {
								v = ct.X
								continue
							}
							break
						}
						if call, ok := v.(*ssa.Call); ok {
							if sc := call.Call.StaticCallee(); sc != nil && sc.Signature.Recv() != nil && funcPkgPath(sc) == modPath+"/spec/types/go/protocol" {
								recv := typeShort(sc.Signature.Recv().Type())
								if recv == "protocol."+readerName {
									recvTerms[fc.Term(call.Call.Args[0]).Key()] = fname
									okName := sc.Name() == fname
									r.Check("W5.name", props("C20", "C09", "C11"), "a builder field copied from a reader of the same schema type is sourced from the accessor of the same name", shortName(f)+"|"+nt.Obj().Name()+"."+fname, a.P.InstrPos(s2), okName,
										"field "+fname+" is copied from accessor "+sc.Name()+"()", "D")
								}
							}
						}
					}
				}
				// source consistency: all reader-sourced fields of one literal come from one reader value,
				// and a literal nested as field F of a parent literal reads from accessor F of the parent's reader
				if len(recvTerms) > 0 {
					var srcs []string
					for k, fld := range recvTerms {
						srcs = append(srcs, fld+" <- "+prettyKeyShort(k))
					}
					sortStrings(srcs)
					r.Check("W5.source", props("C20", "C09", "C11", "C05", "C07"), "all fields that a builder literal copies from a reader come from one and the same reader value (no field borrowed from a sibling structure)", shortName(f)+"|"+nt.Obj().Name()+"@"+a.P.InstrPos(al), a.P.InstrPos(al), len(recvTerms) == 1, "fields read from different readers: "+strings.Join(srcs, " ; "), "D")
					if len(recvTerms) == 1 {
						var child *Term
						var childRecv ssa.Value
						for _, ref := range *al.Referrers() {
							if fa, ok := ref.(*ssa.FieldAddr); ok {
								for _, r2 := range *fa.Referrers() {
									if s2, ok := r2.(*ssa.Store); ok && s2.Addr == fa {
										v := s2.Val
										for {
											if cv, ok := v.(*ssa.Convert); ok {
												v = cv.X
												continue
											}
											break
										}
										if call, ok := v.(*ssa.Call); ok && call.Call.StaticCallee() != nil && call.Call.StaticCallee().Signature.Recv() != nil && typeShort(call.Call.StaticCallee().Signature.Recv().Type()) == "protocol."+readerName {
											child = fc.Term(call.Call.Args[0])
											childRecv = call.Call.Args[0]
										}
									}
								}
							}
						}
						// is this literal stored into a field of a parent builder literal?
						for _, ref := range *al.Referrers() {
							st2, ok := ref.(*ssa.Store)
							if !ok || st2.Val != ssa.Value(al) {
								continue
							}
							pfa, ok := st2.Addr.(*ssa.FieldAddr)
							if !ok {
								continue
							}
							pal, ok := pfa.X.(*ssa.Alloc)
							if !ok {
								continue
							}
							pst, ok := pal.Type().(*types.Pointer).Elem().Underlying().(*types.Struct)
							if !ok {
								continue
							}
							pfield := pst.Field(pfa.Field).Name()
							// only a re-encoding of the parent's own schema type is constrained: the child's reader must itself
							// have been obtained from a reader of the parent's schema type
							parentReader := "protocol." + strings.TrimSuffix(typeShortName(pal.Type()), "Builder")
							fromParentSchema := false
							if cc, ok := childRecv.(*ssa.Call); ok && cc.Call.StaticCallee() != nil && cc.Call.StaticCallee().Signature.Recv() != nil {
								fromParentSchema = typeShort(cc.Call.StaticCallee().Signature.Recv().Type()) == parentReader
							}
							if fromParentSchema && child != nil && child.Op == "call" && strings.HasPrefix(child.Name, "protocol.") {
								okP := child.Name == "protocol."+pfield
								r.Check("W5.nested", props("C20", "C09", "C11"), "a builder literal nested as field F of a parent literal copies from accessor F() of the parent's reader", shortName(f)+"|"+pfield, a.P.InstrPos(st2), okP, "field "+pfield+" is built from "+PP(child), "D")
							}
						}
					}
				}
				// completeness
				var missing []string
				for i := 0; i < st.NumFields(); i++ {
					fn := st.Field(i)
					if !fn.Exported() || set[fn.Name()] {
						continue
					}
					missing = append(missing, fn.Name())
				}
				key := "protocol." + nt.Obj().Name() + "|" + shortName(f)
				okAll := len(missing) == 0
				if !okAll {
					if _, ok := allowUnset[key]; ok {
						okAll = true
					}
					// union builders set only the selected alternative; builders created FromRaw carry no fields
					if nt.Obj().Name() == "LeanhelixContentBuilder" && len(set) == 2 && set["Message"] {
						okAll = true
					}
				}
				r.Check("W5.complete", props("C20", "C09"), "every composite literal of a protocol builder in hand-written code sets all of the builder's fields (a dropped field silently encodes as empty)", key, a.P.InstrPos(al), okAll, "unset fields: "+strings.Join(missing, ", "), "D")
			}
		}
	}
	r.Stats["C20.builder_literals"] = nLits
	if nLits < 20 {
		r.Undecided = append(r.Undecided, fmtf("only %d protocol builder literals found in hand-written code (30+ confirmed by reading)", nLits))
	}

	// ---- W2..W4: the two converters agree on type <-> tag, block carriage and raw pass-through
	{
		id := "services/interfaces.CreateConsensusRawMessage"
		fn := a.P.Func(id)
		m := Root(fn.Params[0].Name())
		for _, mk := range msgKinds {
			rets, und := a.ReturnsSplit(id, nil, Truth(T("istype", mk.goType, m)))
			r.Undecided = append(r.Undecided, und...)
			n := 0
			for _, e := range rets {
				n++
				got := e.Args[0]
				var evH *Eval
				if got.Contains(func(t *Term) bool { return t.Op == "call" && a.calleeOf(t) != nil }) {
					// built through a helper: use what the helper is known to return on this path
					evH = a.NewEval(e, r)
					got = evH.Arg(0)
				}
				blockWant := tNil
				if mk.block {
					blockWant = Field(m, "block")
				}
				lc := Struct("protocol.LeanhelixContentBuilder", []string{"Message", mk.field}, []*Term{k.ProtoConst(mk.tag), Call(mk.fromRaw, Call("protocol.Raw", Field(m, "content")))})
				want := Struct("interfaces.ConsensusRawMessage", []string{"Content", "Block"}, []*Term{Call("protocol.Raw", Call("protocol.Build", lc)), blockWant})
				why := ""
				if got.Key() != want.Key() {
					why = diffTerms(got, want)
					if evH != nil && got.Op == "struct" {
						same := true
						for _, fn := range []string{"Content", "Block"} {
							if !evH.Same(Field(got, fn), Field(want, fn)) {
								same = false
							}
						}
						if same {
							why = ""
						}
					}
				}
				if why == "" {
					got = want
				}
				r.Check("W2.encode", pr, "CreateConsensusRawMessage maps each message type to its own union tag, forwards the content as <X>BuilderFromRaw(content.Raw()) (signature-preserving) and carries the block exactly for PREPREPARE / VIEW_CHANGE / NEW_VIEW", mk.goType, e.Pos(a), got.Key() == want.Key(), why, "D")
			}
			if n == 0 {
				r.Check("W2.encode", pr, "CreateConsensusRawMessage handles every message type", mk.goType, a.P.Pos(fn.Pos()), false, "no return for "+mk.goType, "D")
			}
		}
	}
	{
		id := "services/interfaces.ToConsensusMessage"
		fn := a.P.Func(id)
		raw := Root(fn.Params[0].Name())
		rd := Call("protocol.LeanhelixContentReader", Field(raw, "Content"))
		for i, mk := range msgKinds {
			var assume []*Atom
			for j, o := range msgKinds {
				at := Truth(Call(o.isMsg, rd))
				if i != j {
					at = at.Negate()
				}
				assume = append(assume, at)
			}
			rets, und := a.Returns(id, nil, assume...)
			r.Undecided = append(r.Undecided, und...)
			if len(rets) == 0 {
				r.Check("W2.decode", pr, "ToConsensusMessage handles every union alternative", mk.goType, a.P.Pos(fn.Pos()), false, "no return when "+mk.isMsg+" holds", "D")
			}
			for _, e := range rets {
				got := e.Args[0]
				names := []string{"content"}
				vals := []*Term{Call(mk.reader, rd)}
				if mk.block {
					names = append(names, "block")
					vals = append(vals, Field(raw, "Block"))
				}
				want := Struct(mk.goType, names, vals)
				why := ""
				if got.Key() != want.Key() {
					why = diffTerms(got, want)
				}
				r.Check("W2.decode", pr, "ToConsensusMessage maps each union alternative to the matching Go message type, reads the alternative's own content and carries the block exactly for PREPREPARE / VIEW_CHANGE / NEW_VIEW", mk.goType, e.Pos(a), got.Key() == want.Key(), why, "D")
			}
		}
		// W7: determinism - reads nothing but its argument
		reads := a.readsOf(fn)
		r.Check("W7", pr, "ToConsensusMessage reads no state other than its argument (parsing is deterministic)", "ToConsensusMessage", a.P.Pos(fn.Pos()), len(reads) == 0, fmtf("reads %v", sortedSet(reads)), "W")
	}
	// union tag <-> Is<Alternative>() in the generated reader
	for i, mk := range msgKinds {
		name := strings.TrimPrefix(mk.isMsg, "protocol.")
		f := a.P.FuncOpt("(*spec/types/go/protocol.LeanhelixContent)." + name)
		if f == nil {
			r.Undecided = append(r.Undecided, "generated reader method "+name+" not found")
			continue
		}
		ok := false
		for _, b := range f.Blocks {
			for _, in := range b.Instrs {
				if c, isC := in.(*ssa.Call); isC && c.Call.StaticCallee() != nil && c.Call.StaticCallee().Name() == "IsUnionIndex" && len(c.Call.Args) == 4 {
					if kc, isK := c.Call.Args[3].(*ssa.Const); isK && kc.Int64() == int64(i) && k.ProtoConst(mk.tag).Name == itoa(i) {
						ok = true
					}
				}
			}
		}
		r.Check("W1.union", pr, "the generated reader's Is<Alternative>() tests the union index that the writer's tag constant encodes", name, a.P.Pos(f.Pos()), ok, "union index / tag constant mismatch", "D")
	}

	// ---- W1: scheme <-> writer <-> reader of every generated message
	runSchemeAgreement(a, r)

	// ---- W6: the factory signs the very header it embeds
	mf := This("messagesfactory.MessageFactory")
	signOK := func(fnName string, hb *Term, sig *Term, hArg *Term) (bool, string) {
		if sig.Op != "call" || sig.Name != "interfaces.SignConsensusMessage" || len(sig.Args) != 4 {
			return false, "signature is " + PP(sig)
		}
		if sig.Args[3].Key() != Call("protocol.Raw", Call("protocol.Build", hb)).Key() {
			return false, "signed bytes are not Build().Raw() of the embedded header: " + PP(sig.Args[3])
		}
		if sig.Args[2].Key() != Field(hb, "BlockHeight").Key() || sig.Args[2].Key() != hArg.Key() {
			return false, "signing height " + PP(sig.Args[2]) + " differs from the header's height"
		}
		return true, ""
	}
	for _, c := range []struct{ id, mtype string }{
		{"(*services/messagesfactory.MessageFactory).CreatePreprepareMessageContentBuilder", "LEAN_HELIX_PREPREPARE"},
		{"(*services/messagesfactory.MessageFactory).CreatePrepareMessage", "LEAN_HELIX_PREPARE"},
		{"(*services/messagesfactory.MessageFactory).CreateCommitMessage", "LEAN_HELIX_COMMIT"},
		{"(*services/messagesfactory.MessageFactory).CreateViewChangeMessageContentBuilder", "LEAN_HELIX_VIEW_CHANGE"},
		{"(*services/messagesfactory.MessageFactory).CreateNewViewMessageContentBuilder", "LEAN_HELIX_NEW_VIEW"},
	} {
		fn := a.P.Func(c.id)
		rets, und := a.Returns(c.id, nil)
		r.Undecided = append(r.Undecided, und...)
		for _, e := range rets {
			got := e.Args[0]
			// find the content builder struct
			var cb *Term
			got.Walk(func(t *Term) {
				if cb == nil && t.Op == "struct" && strings.HasPrefix(t.Name, "protocol.") && strings.HasSuffix(t.Name, "ContentBuilder") {
					cb = t
				}
			})
			if cb == nil {
				r.Check("W6", pr, "every factory method signs Build().Raw() of the header builder it embeds, at the header's height, as this member", shortName(fn), e.Pos(a), false, "no content builder in "+PP(got), "D")
				continue
			}
			hb := Field(cb, "SignedHeader")
			sender := Field(cb, "Sender")
			ok, why := signOK(fn.Name(), hb, Field(sender, "Signature"), Root(fn.Params[1].Name()))
			sid := Field(sender, "MemberId")
			// the member id is the factory's own (directly, or kept in a value field of the factory that groups the signing data)
			own := sid.Key() == Field(mf, "memberId").Key() ||
				(sid.Op == "field" && sid.Name == "memberId" && len(sid.Args) == 1 && sid.Args[0].Op == "field" && len(sid.Args[0].Args) == 1 && sid.Args[0].Args[0].Key() == mf.Key())
			if ok && !own {
				ok, why = false, "sender id is "+PP(Field(sender, "MemberId"))
			}
			if ok && Field(hb, "MessageType").Key() != k.ProtoConst(c.mtype).Key() {
				ok, why = false, "header type is "+PP(Field(hb, "MessageType"))
			}
			if ok && Field(hb, "InstanceId").Key() != Field(mf, "instanceId").Key() {
				ok, why = false, "header instance is "+PP(Field(hb, "InstanceId"))
			}
			if ok && Field(hb, "View").Key() != Root(fn.Params[2].Name()).Key() {
				ok, why = false, "header view is "+PP(Field(hb, "View"))
			}
			r.Check("W6", props("C20", "C10", "C03"), "every factory method signs Build().Raw() of the header builder it embeds, at the header's height, typed for its own message kind, for this instance and as this member", shortName(fn), e.Pos(a), ok, why, "D")
		}
		if len(rets) == 0 {
			r.Undecided = append(r.Undecided, c.id+": no return")
		}
	}
	// who may sign
	var signers []string
	for _, f := range a.P.Funcs {
		for _, b := range f.Blocks {
			for _, in := range b.Instrs {
				if ci, ok := in.(ssa.CallInstruction); ok {
					cc := ci.Common()
					if cc.IsInvoke() && cc.Method.Name() == "SignConsensusMessage" {
						signers = append(signers, funcID(f))
					}
				}
			}
		}
	}
	okS := len(signers) > 0
	for _, s := range signers {
		if !strings.Contains(s, "services/messagesfactory.") {
			okS = false // (any function or method of the factory's package: a signer value type of the factory counts)
		}
	}
	r.Check("S0.sign", props("C10", "C20"), "consensus messages are signed only inside the message factory", "SignConsensusMessage", "-", okS, fmtf("callers: %v", dedupSorted(signers)), "W")
}

// diffTerms: first differing sub-term of two terms, for reports.
// readerBase: the reader value a builder literal (and the literals nested in it) copies from: the largest sub-term
// common to the receivers of all accessor calls that feed its fields.
func readerBase(a *Analyzer, c *FCtx, al *ssa.Alloc, depth int) *Term {
	var recvs []*Term
	var collect func(al *ssa.Alloc, depth int)
	collect = func(al *ssa.Alloc, depth int) {
		if depth > 3 {
			return
		}
		for _, ref := range *al.Referrers() {
			fa, ok := ref.(*ssa.FieldAddr)
			if !ok {
				continue
			}
			for _, r2 := range *fa.Referrers() {
				s2, ok := r2.(*ssa.Store)
				if !ok || s2.Addr != fa {
					continue
				}
				v := s2.Val
				for {
					if cv, ok := v.(*ssa.Convert); ok {
						v = cv.X
						continue
					}
					if ct, ok := v.(*ssa.ChangeType); ok {
						v = ct.X
						continue
					}
					break
				}
				switch x := v.(type) {
				case *ssa.Alloc:
					collect(x, depth+1)
				case *ssa.Call:
					if sc := x.Call.StaticCallee(); sc != nil && sc.Signature.Recv() != nil && funcPkgPath(sc) == modPath+"/spec/types/go/protocol" && len(x.Call.Args) > 0 {
						recvs = append(recvs, c.Term(x.Call.Args[0]))
					} else if sc != nil {
						// a copying helper: the readers it is handed
						for _, arg := range x.Call.Args {
							if p, ok := arg.Type().Underlying().(*types.Pointer); ok {
								if nt, ok := p.Elem().(*types.Named); ok && nt.Obj().Pkg() != nil && nt.Obj().Pkg().Path() == modPath+"/spec/types/go/protocol" {
									recvs = append(recvs, c.Term(arg))
								}
							}
						}
					}
				}
			}
		}
	}
	collect(al, depth)
	if len(recvs) == 0 {
		return nil
	}
	// common sub-terms
	common := map[string]*Term{}
	recvs[0].Walk(func(t *Term) {
		if t.Op == "call" {
			common[t.Key()] = t
		}
	})
	for _, rt := range recvs[1:] {
		for k := range common {
			if !rt.ContainsKey(k) {
				delete(common, k)
			}
		}
	}
	var best *Term
	for _, t := range common {
		if best == nil || len(t.Key()) > len(best.Key()) {
			best = t
		}
	}
	return best
}

func diffTerms(got, want *Term) string {
	if got.Op != want.Op || got.Name != want.Name || len(got.Args) != len(want.Args) {
		return "found " + clip(PP(got), 300) + " ; expected " + clip(PP(want), 300)
	}
	if got.Op == "struct" {
		for i := range got.FNames {
			if i < len(want.FNames) && got.FNames[i] != want.FNames[i] {
				return "struct fields differ: " + strings.Join(got.FNames, ",") + " vs " + strings.Join(want.FNames, ",")
			}
		}
	}
	for i := range got.Args {
		if got.Args[i].Key() != want.Args[i].Key() {
			pfx := ""
			if got.Op == "struct" && i < len(got.FNames) {
				pfx = got.FNames[i] + ": "
			}
			return pfx + diffTerms(got.Args[i], want.Args[i])
		}
	}
	return ""
}

func clip(s string, n int) string {
	if len(s) > n {
		return s[:n] + "..."
	}
	return s
}

// runSchemeAgreement (W1): for every generated message the scheme literal, the builder's Write sequence and the
// reader's accessors agree on index, wire kind and field name. Decided on the syntax tree of the generated file.
func runSchemeAgreement(a *Analyzer, r *Results) {
	pr := props("C20")
	pkg := a.P.ByPath[modPath+"/spec/types/go/protocol"]
	if pkg == nil {
		broken("unresolved anchor: protocol package")
	}
	type wr struct{ kind, field string }
	type rdr struct {
		kind string
		idx  int
	}
	schemes := map[string][]string{}
	writes := map[string][]wr{}
	readers := map[string]map[string]rdr{}
	kindOfWrite := map[string]string{"WriteBytes": "Bytes", "WriteMessage": "Message", "WriteMessageArray": "MessageArray", "WriteUint16": "Uint16", "WriteUint64": "Uint64", "WriteUint32": "Uint32", "WriteUint8": "Uint8", "WriteString": "String", "WriteUnionIndex": "Union"}
	kindOfGet := map[string]string{"GetBytes": "Bytes", "GetMessage": "Message", "GetMessageArrayIterator": "MessageArray", "GetUint16": "Uint16", "GetUint64": "Uint64", "GetUint32": "Uint32", "GetUint8": "Uint8", "GetString": "String", "GetUnionIndex": "Union"}
	for _, file := range pkg.Syntax {
		for _, decl := range file.Decls {
			switch d := decl.(type) {
			case *ast.GenDecl:
				for _, spec := range d.Specs {
					vs, ok := spec.(*ast.ValueSpec)
					if !ok || len(vs.Names) != 1 || len(vs.Values) != 1 {
						continue
					}
					name := vs.Names[0].Name
					if !strings.HasPrefix(name, "_") || !strings.HasSuffix(name, "_Scheme") {
						continue
					}
					msg := strings.TrimSuffix(strings.TrimPrefix(name, "_"), "_Scheme")
					cl, ok := vs.Values[0].(*ast.CompositeLit)
					if !ok {
						continue
					}
					var kinds []string
					for _, el := range cl.Elts {
						if se, ok := el.(*ast.SelectorExpr); ok {
							kinds = append(kinds, strings.TrimPrefix(se.Sel.Name, "Type"))
						}
					}
					schemes[msg] = kinds
				}
			case *ast.FuncDecl:
				if d.Recv == nil || len(d.Recv.List) != 1 || d.Body == nil {
					continue
				}
				st, ok := d.Recv.List[0].Type.(*ast.StarExpr)
				if !ok {
					continue
				}
				id, ok := st.X.(*ast.Ident)
				if !ok {
					continue
				}
				recv := id.Name
				if strings.HasSuffix(recv, "Builder") && d.Name.Name == "Write" {
					msg := strings.TrimSuffix(recv, "Builder")
					ast.Inspect(d.Body, func(n ast.Node) bool {
						ce, ok := n.(*ast.CallExpr)
						if !ok {
							return true
						}
						se, ok := ce.Fun.(*ast.SelectorExpr)
						if !ok {
							return true
						}
						kind, ok := kindOfWrite[se.Sel.Name]
						if !ok {
							return true
						}
						field := ""
						for _, arg := range ce.Args {
							ast.Inspect(arg, func(m ast.Node) bool {
								if s2, ok := m.(*ast.SelectorExpr); ok {
									if x, ok := s2.X.(*ast.Ident); ok && x.Name == "w" {
										field = s2.Sel.Name
									}
								}
								return true
							})
						}
						for _, arg := range ce.Args {
							if idn, ok := arg.(*ast.Ident); ok && strings.HasPrefix(idn.Name, "arrayOf") {
								field = strings.TrimPrefix(idn.Name, "arrayOf")
							}
						}
						field = strings.TrimPrefix(field, "arrayOf")
						writes[msg] = append(writes[msg], wr{kind, field})
						return true
					})
				} else if !strings.HasSuffix(recv, "Builder") && !strings.HasSuffix(recv, "Iterator") {
					// reader accessor: a single return containing x._message.GetT(i...)
					var found *rdr
					ast.Inspect(d.Body, func(n ast.Node) bool {
						ce, ok := n.(*ast.CallExpr)
						if !ok {
							return true
						}
						se, ok := ce.Fun.(*ast.SelectorExpr)
						if !ok {
							return true
						}
						kind, ok := kindOfGet[se.Sel.Name]
						if !ok || len(ce.Args) == 0 {
							return true
						}
						if bl, ok := ce.Args[0].(*ast.BasicLit); ok {
							found = &rdr{kind, atoi(bl.Value)}
						}
						return true
					})
					if found != nil {
						name := d.Name.Name
						name = strings.TrimSuffix(name, "Iterator")
						if readers[recv] == nil {
							readers[recv] = map[string]rdr{}
						}
						if _, dup := readers[recv][name]; !dup || d.Name.Name == name {
							readers[recv][name] = *found
						}
					}
				}
			}
		}
	}
	if len(schemes) < 12 {
		r.Undecided = append(r.Undecided, fmtf("only %d generated message schemes found (12 confirmed by reading)", len(schemes)))
	}
	var msgs []string
	for m := range schemes {
		msgs = append(msgs, m)
	}
	sortStrings(msgs)
	for _, m := range msgs {
		sc := schemes[m]
		ws := writes[m]
		// a union contributes WriteUnionIndex followed by the alternatives' WriteMessage calls: keep the first write per field slot
		var seq []wr
		for i := 0; i < len(ws); i++ {
			if ws[i].kind == "Union" {
				seq = append(seq, ws[i])
				for i+1 < len(ws) && ws[i+1].kind == "Message" {
					i++
				}
				continue
			}
			seq = append(seq, ws[i])
		}
		ok := len(seq) == len(sc)
		why := ""
		if !ok {
			why = fmtf("scheme has %d fields, the writer writes %d", len(sc), len(seq))
		}
		for i := 0; ok && i < len(sc); i++ {
			if seq[i].kind != sc[i] {
				ok = false
				why = fmtf("field %d: scheme says %s, writer writes %s (%s)", i, sc[i], seq[i].kind, seq[i].field)
				break
			}
			rd, has := readers[m][seq[i].field]
			if !has {
				ok = false
				why = fmtf("field %d (%s): no reader accessor of that name", i, seq[i].field)
				break
			}
			if rd.idx != i || rd.kind != sc[i] {
				ok = false
				why = fmtf("field %d (%s): reader accessor reads %s at index %d", i, seq[i].field, rd.kind, rd.idx)
				break
			}
		}
		r.Check("W1", pr, "for every generated message the scheme, the builder's Write order and the reader's accessors agree on index, wire kind and field name", m, a.P.Pos(pkg.Syntax[0].Pos()), ok, why, "D")
	}
}

func sortStrings(s []string) {
	for i := 1; i < len(s); i++ {
		for j := i; j > 0 && s[j] < s[j-1]; j-- {
			s[j], s[j-1] = s[j-1], s[j]
		}
	}
}


func prettyKeyShort(k string) string {
	k = strings.ReplaceAll(k, "call:protocol.", "")
	k = strings.ReplaceAll(k, "call:", "")
	k = strings.ReplaceAll(k, "field:", ".")
	return clip(k, 160)
}


func typeShortName(t types.Type) string {
	s := typeShort(t)
	if i := strings.LastIndex(s, "."); i >= 0 {
		return s[i+1:]
	}
	return s
}
