package main

import (
	"go/token"
	"strings"

	"golang.org/x/tools/go/ssa"
)

// C17 container rules for the future cache that are not guard-sets on a path (DESIGN §4 C17): F3, F6.delete, F7.

// mustReach: every CFG path from the instruction after `from` to a normal return passes an instruction satisfying pred.
func mustReach(from ssa.Instruction, pred func(ssa.Instruction) bool) bool {
	blk := from.Block()
	start := -1
	for i, in := range blk.Instrs {
		if in == from {
			start = i
		}
	}
	seen := map[*ssa.BasicBlock]bool{}
	var walk func(b *ssa.BasicBlock, idx int) bool
	walk = func(b *ssa.BasicBlock, idx int) bool {
		for i := idx; i < len(b.Instrs); i++ {
			in := b.Instrs[i]
			if pred(in) {
				return true
			}
			switch in.(type) {
			case *ssa.Return:
				return false
			case *ssa.Panic:
				return true // does not return normally
			}
		}
		for _, s := range b.Succs {
			if seen[s] {
				continue
			}
			seen[s] = true
			if !walk(s, 0) {
				return false
			}
		}
		return true
	}
	return walk(blk, start+1)
}

// drainPart: ConsumeCacheMessages itself, or an unexported helper of the same package it calls directly (with the
// call site and the helper's parameters bound to the caller's argument terms).
type drainPart struct {
	fn   *ssa.Function
	c    *FCtx
	site *ssa.Call // nil for ConsumeCacheMessages itself
}

func drainParts(a *Analyzer, fn *ssa.Function, c *FCtx) []drainPart {
	parts := []drainPart{{fn, c, nil}}
	for _, b := range fn.Blocks {
		for _, in := range b.Instrs {
			call, ok := in.(*ssa.Call)
			if !ok || isLoggingCall(&call.Call) {
				continue
			}
			g := call.Call.StaticCallee()
			if g == nil || g.Blocks == nil || g.Pkg != fn.Pkg || (g.Object() != nil && g.Object().Exported()) || g == fn {
				continue
			}
			args := make([]*Term, len(call.Call.Args))
			for i, x := range call.Call.Args {
				args[i] = c.Term(x)
			}
			env := bindEnv(a, g, args, nil)
			for _, p := range g.Params {
				if sg := a.singletonOf(p.Type()); sg != "" {
					env[p] = This(sg)
				}
			}
			parts = append(parts, drainPart{g, a.NewFCtx(g, env, 0), call})
		}
	}
	return parts
}

func runC17(a *Analyzer, r *Results) {
	pr := props("C17", "C13")
	fn := a.P.Func(idE2)
	c := a.NewFCtx(fn, a.EntryEnv(fn, nil), 0)
	rmf := This("rawmessagesfilter.RawMessageFilter")
	cache := Field(rmf, "futureCache")
	parts := drainParts(a, fn, c)
	// the position of a part's instruction in ConsumeCacheMessages: itself, or the call that leads to it
	anchor := func(p drainPart, in ssa.Instruction) ssa.Instruction {
		if p.site != nil {
			return p.site
		}
		return in
	}
	// the drain read: Lookup on the cache
	type read struct {
		p  drainPart
		lk *ssa.Lookup
	}
	var reads []read
	for _, p := range parts {
		for _, b := range p.fn.Blocks {
			for _, in := range b.Instrs {
				if lk, ok := in.(*ssa.Lookup); ok && p.c.Term(lk.X).Key() == cache.Key() {
					// helpers that only maintain the cache (no delivery reachable) are not drain reads
					if p.site != nil && !mayDeliver(a, p.fn) {
						continue
					}
					reads = append(reads, read{p, lk})
				}
			}
		}
	}
	if len(reads) == 0 {
		r.Check("F6.read", pr, "the drain reads the cache with a single lookup at the key Read(State.height) (only the current height's backlog is replayed)", "ConsumeCacheMessages", a.P.Pos(fn.Pos()), false, "ConsumeCacheMessages does not look the current height up in the cache (it iterates or ignores it)", "C")
	}
	for _, rd := range reads {
		lk := rd.lk
		key := rd.p.c.Term(lk.Index)
		deletes := func(pc *FCtx) func(in ssa.Instruction) bool {
			return func(in ssa.Instruction) bool {
				call, ok := in.(*ssa.Call)
				if !ok || !isBuiltin(call, "delete") {
					return false
				}
				return pc.Term(call.Call.Args[0]).Key() == cache.Key() && pc.Term(call.Call.Args[1]).Key() == key.Key()
			}
		}
		ok := mustReach(lk, deletes(rd.p.c))
		if !ok && rd.p.site != nil {
			ok = mustReach(rd.p.site, deletes(c))
		}
		r.Check("F6.delete", pr, "after the drain read of the cache at a key, every path to the function's exit deletes that key (no message is delivered twice)", "ConsumeCacheMessages", a.P.InstrPos(lk), ok, "a path from the drain read reaches the return without delete(cache, key)", "P")
	}
	// F7: re-entrancy guard inside the drain loop
	type drainLoop struct {
		p drainPart
		l *Loop
	}
	var loops []drainLoop
	for _, p := range parts {
		for _, l := range a.Loops(p.fn).Loops {
			if l.Coll == nil {
				continue
			}
			ct := p.c.Term(l.Coll)
			mentions := strings.Contains(ct.Key(), cache.Key())
			if phi, ok := l.Coll.(*ssa.Phi); ok && !mentions {
				// a backlog that is conditionally replaced (e.g. by nil) is still the backlog
				for _, e := range phi.Edges {
					if strings.Contains(p.c.Term(e).Key(), cache.Key()) {
						mentions = true
					}
				}
			}
			if !mentions {
				continue
			}
			loops = append(loops, drainLoop{p, l})
			// deliveries inside the loop: calls that (transitively) reach the handler
			for b := range l.Body {
				for _, in := range b.Instrs {
					call, ok := in.(*ssa.Call)
					if !ok || isLoggingCall(&call.Call) {
						continue
					}
					if _, isB := call.Call.Value.(*ssa.Builtin); isB {
						continue
					}
					w := a.callWrites(call)
					reentrant := w["rawmessagesfilter.RawMessageFilter.consensusMessagesHandler"] || w["state.State.height"] || w["rawmessagesfilter.RawMessageFilter.futureCache"]
					if !reentrant {
						r.Check("F7", props("C17", "C13", "C08", "C10"), "a delivery inside the drain loop either cannot change the handler/height/cache, or is preceded in the same iteration by a fresh height test that leaves the loop", "ConsumeCacheMessages|"+calleeLabel(&call.Call), a.P.InstrPos(in), true, "", "Re")
						continue
					}
					ok2, why := drainGuard(a, p.c, l, call)
					r.Check("F7", props("C17", "C13", "C08", "C10"), "a delivery inside the drain loop either cannot change the handler/height/cache, or is preceded in the same iteration by a fresh height test that leaves the loop", "ConsumeCacheMessages|"+calleeLabel(&call.Call), a.P.InstrPos(in), ok2, why, "Re")
				}
			}
		}
	}
	if len(loops) == 0 {
		r.Undecided = append(r.Undecided, "ConsumeCacheMessages has no loop over the cached messages (anchor)")
	}
	// F8: the replay is complete - the loop walks exactly the looked-up backlog and is left early only because the
	// height moved (every cached message of the started height is delivered, none is skipped)
	nReplay := 0
	for _, dl := range loops {
		l, pc := dl.l, dl.p.c
		// only the loop that delivers (housekeeping loops over the cache are not the replay)
		delivers := false
		for b := range l.Body {
			for _, in := range b.Instrs {
				if call, ok := in.(*ssa.Call); ok && !isLoggingCall(&call.Call) {
					if g := call.Call.StaticCallee(); g != nil && mayDeliver(a, g) {
						delivers = true
					}
				}
			}
		}
		if !delivers {
			continue
		}
		nReplay++
		ct := pc.Term(l.Coll)
		okColl := ct.Op == "lookup" && len(ct.Args) == 2 && ct.Args[0].Key() == cache.Key()
		why := ""
		if !okColl {
			why = "the loop does not range over the cache lookup itself but over " + PP(ct)
		}
		ht := heightTests(a, pc, l)
		for b := range l.Body {
			if b == l.Header {
				continue
			}
			for si, sx := range b.Succs {
				if l.Body[sx] {
					continue
				}
				if di, isTest := ht[b]; isTest && di == si {
					continue
				}
				okColl = false
				why = "the loop is left at " + a.P.InstrPos(b.Instrs[len(b.Instrs)-1]) + " for a reason other than the height having moved; the rest of the backlog is then deleted unreplayed"
			}
		}
		// the delivery is not skipped for some elements
		delivered := false
		for b := range l.Body {
			for _, in := range b.Instrs {
				if call, ok := in.(*ssa.Call); ok && !isLoggingCall(&call.Call) {
					if g := call.Call.StaticCallee(); g != nil && mayDeliver(a, g) && l.dominatesAllLatches(b) {
						delivered = true
					}
				}
			}
		}
		if okColl && !delivered {
			okColl, why = false, "some iteration reaches the next element without delivering the current one"
		}
		r.Check("F8.complete", props("C17", "C10", "C08"), "the drain replays the whole backlog of the started height: it ranges over the cache lookup itself, delivers every element, and is left early only through a fresh height test (height moved)", "ConsumeCacheMessages", a.P.InstrPos(l.Header.Instrs[0]), okColl, why, "P")
	}
	if nReplay == 0 {
		r.Undecided = append(r.Undecided, "F8.complete: no loop over the cached messages delivers them (anchor)")
	}
	// F7.handler: the handler field is set before the drain and never after (a nested drain's newer handler must survive)
	before := func(st ssa.Instruction, x ssa.Instruction) bool {
		// st strictly precedes x on every path to x (both in ConsumeCacheMessages)
		if st.Block() == x.Block() {
			for _, in := range st.Block().Instrs {
				if in == st {
					return true
				}
				if in == x {
					return false
				}
			}
		}
		return st.Block().Dominates(x.Block())
	}
	nStore := 0
	for _, p := range parts {
		for _, b := range p.fn.Blocks {
			for _, in := range b.Instrs {
				st, ok := in.(*ssa.Store)
				if !ok || a.addrLoc(st.Addr) != "rawmessagesfilter.RawMessageFilter.consensusMessagesHandler" {
					continue
				}
				nStore++
				ok2 := true
				at := anchor(p, in)
				for _, dl := range loops {
					if dl.p.fn == p.fn && p.site == dl.p.site {
						if !b.Dominates(dl.l.Header) || dl.l.Body[b] {
							ok2 = false
						}
					} else if !before(at, anchor(dl.p, dl.l.Header.Instrs[0])) {
						ok2 = false
					}
				}
				for _, rd := range reads {
					if rd.p.fn == p.fn && p.site == rd.p.site {
						if !b.Dominates(rd.lk.Block()) {
							ok2 = false
						}
					} else if !before(at, anchor(rd.p, rd.lk)) {
						ok2 = false
					}
				}
				r.Check("F7.handler", pr, "the new term's handler is installed before the cache is drained and is not written after it (a delivery may complete the height and install a newer handler that must survive)", "ConsumeCacheMessages", a.P.InstrPos(in), ok2, "the handler field is written after (or inside) the drain", "Re")
			}
		}
	}
	if nStore == 0 {
		r.Check("F7.handler", pr, "the new term's handler is installed before the cache is drained and is not written after it (a delivery may complete the height and install a newer handler that must survive)", "ConsumeCacheMessages", a.P.Pos(fn.Pos()), false, "ConsumeCacheMessages never installs the handler", "Re")
	}
}

// mayDeliver: fn (transitively, through static and VTA-resolved callees) may call the consensus messages handler.
func mayDeliver(a *Analyzer, fn *ssa.Function) bool {
	seen := map[*ssa.Function]bool{}
	var visit func(f *ssa.Function) bool
	visit = func(f *ssa.Function) bool {
		if seen[f] {
			return false
		}
		seen[f] = true
		for _, b := range f.Blocks {
			for _, in := range b.Instrs {
				ci, ok := in.(ssa.CallInstruction)
				if !ok {
					continue
				}
				cc := ci.Common()
				if cc.IsInvoke() && strings.HasSuffix(typeShort(cc.Value.Type()), "ConsensusMessagesHandler") {
					return true
				}
				if g := cc.StaticCallee(); g != nil && g.Blocks != nil && inLibraryScope(funcPkgPath(g)) {
					if visit(g) {
						return true
					}
				}
			}
		}
		return false
	}
	return visit(fn)
}

// heightTests: the Ifs inside the loop that compare a fresh State.Height() with the height read before the loop and
// leave the loop when they differ; maps the testing block to the index of its "height moved" successor.
func heightTests(a *Analyzer, c *FCtx, l *Loop) map[*ssa.BasicBlock]int {
	res := map[*ssa.BasicBlock]int{}
	for b := range l.Body {
		ifi, ok := b.Instrs[len(b.Instrs)-1].(*ssa.If)
		if !ok {
			continue
		}
		cmp, ok := ifi.Cond.(*ssa.BinOp)
		if !ok || (cmp.Op != token.EQL && cmp.Op != token.NEQ) {
			continue
		}
		fresh := func(v ssa.Value) bool {
			cl, ok := v.(*ssa.Call)
			if !ok || !l.Body[cl.Block()] {
				return false
			}
			f := cl.Call.StaticCallee()
			return f != nil && funcID(f) == "(*state.State).Height"
		}
		outer := func(v ssa.Value) bool {
			in, ok := v.(ssa.Instruction)
			if ok && l.Body[in.Block()] {
				return false
			}
			return unfreeze(c.Term(v)).Key() == Field(This("state.State"), "height").Key()
		}
		if !((fresh(cmp.X) && outer(cmp.Y)) || (fresh(cmp.Y) && outer(cmp.X))) {
			continue
		}
		diffIdx := 0
		if cmp.Op == token.EQL {
			diffIdx = 1
		}
		if l.Body[b.Succs[diffIdx]] {
			continue
		}
		res[b] = diffIdx
	}
	return res
}

func drainGuard(a *Analyzer, c *FCtx, l *Loop, call *ssa.Call) (bool, string) {
	for b := range l.Body {
		ifi, ok := b.Instrs[len(b.Instrs)-1].(*ssa.If)
		if !ok || !b.Dominates(call.Block()) || b == call.Block() {
			continue
		}
		cmp, ok := ifi.Cond.(*ssa.BinOp)
		if !ok || (cmp.Op != token.EQL && cmp.Op != token.NEQ) {
			continue
		}
		fresh := func(v ssa.Value) bool {
			cl, ok := v.(*ssa.Call)
			if !ok || !l.Body[cl.Block()] {
				return false
			}
			f := cl.Call.StaticCallee()
			return f != nil && funcID(f) == "(*state.State).Height"
		}
		outer := func(v ssa.Value) bool {
			in, ok := v.(ssa.Instruction)
			if ok && l.Body[in.Block()] {
				return false
			}
			return unfreeze(c.Term(v)).Key() == Field(This("state.State"), "height").Key()
		}
		var okPair bool
		if (fresh(cmp.X) && outer(cmp.Y)) || (fresh(cmp.Y) && outer(cmp.X)) {
			okPair = true
		}
		if !okPair {
			continue
		}
		// which successor is the "different" edge
		diffIdx := 0
		if cmp.Op == token.EQL {
			diffIdx = 1
		}
		diff := b.Succs[diffIdx]
		same := b.Succs[1-diffIdx]
		if l.Body[diff] {
			continue // the "height moved" edge stays in the loop
		}
		if !(same == call.Block() || same.Dominates(call.Block())) {
			continue
		}
		return true, ""
	}
	return false, "the delivery may re-enter the filter (commit -> new round -> drain / handler swap) and no fresh State.Height() test guards it inside the loop"
}
