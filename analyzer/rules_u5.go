package main

import (
	"go/token"
	"go/types"

	"golang.org/x/tools/go/ssa"
)

// U5: the main loop's "most recent sync" mark. It is what makes a later sync of the same or a lower block stale, so it
// may record a block height only once that block was really handed to the worker, and must record the very quantity
// the staleness test compares. The mark is found through the staleness test itself (a BlockHeight comparison in the
// functions the main loop reaches in its own package), whatever holds it: a *BlockHeight, a struct field behind a
// pointer, or a loop variable handed to a helper.
func runSyncMark(a *Analyzer, r *Results, isForwardCall func(*ssa.Call) bool) {
	run := a.P.Func(idMainRun)
	isBH := func(t types.Type) bool { return typeShort(t) == "primitives.BlockHeight" }
	// functions of the package reachable from run by static calls
	reach := map[*ssa.Function]bool{}
	var visit func(f *ssa.Function)
	visit = func(f *ssa.Function) {
		if reach[f] || f.Blocks == nil || f.Pkg != run.Pkg {
			return
		}
		reach[f] = true
		for _, b := range f.Blocks {
			for _, in := range b.Instrs {
				if ci, ok := in.(ssa.CallInstruction); ok {
					if g := ci.Common().StaticCallee(); g != nil {
						visit(g)
					}
				}
			}
		}
	}
	visit(run)
	// where a mark lives
	classOf := func(addr ssa.Value) string {
		pt, ok := addr.Type().Underlying().(*types.Pointer)
		if !ok || !isBH(pt.Elem()) {
			return ""
		}
		switch x := addr.(type) {
		case *ssa.FieldAddr:
			st := x.X.Type().Underlying().(*types.Pointer).Elem()
			if nt, ok := st.(*types.Named); ok && (nt.Obj().Name() == "MainLoop" || nt.Obj().Name() == "WorkerLoop") {
				return ""
			}
			return "field:" + typeShort(st) + "." + fieldName(x.X.Type(), x.Field)
		case *ssa.IndexAddr:
			return ""
		}
		return "deref"
	}
	markRead := func(v ssa.Value) string {
		switch x := v.(type) {
		case *ssa.UnOp:
			if x.Op == token.MUL {
				return classOf(x.X)
			}
		}
		return ""
	}
	// staleness tests: comparisons mark <op> incoming
	type cmp struct {
		fn       *ssa.Function
		class    string    // "" for a variable mark
		markVar  ssa.Value // parameter / loop variable holding the mark (class "")
		incoming ssa.Value
		at       ssa.Instruction
	}
	var cmps []cmp
	incoming := map[*ssa.Function]map[ssa.Value]bool{}
	addIncoming := func(f *ssa.Function, v ssa.Value) {
		if incoming[f] == nil {
			incoming[f] = map[ssa.Value]bool{}
		}
		incoming[f][v] = true
	}
	for f := range reach {
		li := a.Loops(f)
		isVar := func(v ssa.Value) bool {
			switch x := v.(type) {
			case *ssa.Parameter:
				return true
			case *ssa.Phi:
				for _, l := range li.Loops {
					if l.Header == x.Block() {
						return true
					}
				}
			}
			return false
		}
		for _, b := range f.Blocks {
			for _, in := range b.Instrs {
				bo, ok := in.(*ssa.BinOp)
				if !ok || !isBH(bo.X.Type()) || !isBH(bo.Y.Type()) {
					continue
				}
				switch bo.Op {
				case token.LSS, token.LEQ, token.GTR, token.GEQ:
				default:
					continue
				}
				cx, cy := markRead(bo.X), markRead(bo.Y)
				switch {
				case cx != "" && cy == "":
					cmps = append(cmps, cmp{f, cx, nil, bo.Y, in})
					addIncoming(f, bo.Y)
				case cy != "" && cx == "":
					cmps = append(cmps, cmp{f, cy, nil, bo.X, in})
					addIncoming(f, bo.X)
				case cx == "" && cy == "" && isVar(bo.X) && !isVar(bo.Y):
					cmps = append(cmps, cmp{f, "", bo.X, bo.Y, in})
					addIncoming(f, bo.Y)
				case cx == "" && cy == "" && isVar(bo.Y) && !isVar(bo.X):
					cmps = append(cmps, cmp{f, "", bo.Y, bo.X, in})
					addIncoming(f, bo.X)
				}
			}
		}
	}
	if len(cmps) == 0 {
		r.Undecided = append(r.Undecided, "U5: no staleness test of node-sync heights found in the main loop's functions (anchor)")
		return
	}
	// values that end up compared with the mark: directly, or as the argument of a helper that compares its parameter
	var incomingDeep func(f *ssa.Function, v ssa.Value, depth int) bool
	incomingDeep = func(f *ssa.Function, v ssa.Value, depth int) bool {
		if incoming[f][v] {
			return true
		}
		if depth > 2 {
			return false
		}
		for _, ref := range *v.Referrers() {
			call, ok := ref.(*ssa.Call)
			if !ok {
				continue
			}
			g := call.Call.StaticCallee()
			if g == nil || !reach[g] {
				continue
			}
			for i, arg := range call.Call.Args {
				if arg == v && i < len(g.Params) && incomingDeep(g, g.Params[i], depth+1) {
					return true
				}
			}
		}
		return false
	}
	// success edge of a hand-off dominates block b (in f); or every call site of f is so dominated
	var ordered func(f *ssa.Function, b *ssa.BasicBlock, depth int) bool
	ordered = func(f *ssa.Function, b *ssa.BasicBlock, depth int) bool {
		for _, bb := range f.Blocks {
			for _, in := range bb.Instrs {
				fw, ok := in.(*ssa.Call)
				if !ok || !isForwardCall(fw) {
					continue
				}
				// the test of the hand-off's verdict (an error compared with nil, or a bool "delivered"), in any polarity
				for _, tb := range f.Blocks {
					fs := errFailingSucc(tb, fw)
					if fs < 0 {
						continue
					}
					succ := tb.Succs[1-fs]
					// the success successor must not also be reachable through the failure edge
					if len(succ.Preds) == 1 && (succ == b || succ.Dominates(b)) {
						return true
					}
				}
			}
		}
		if depth >= 2 {
			return false
		}
		// a helper (e.g. a setter of the mark): every call site must be ordered
		n := 0
		for g := range reach {
			for _, bb := range g.Blocks {
				for _, in := range bb.Instrs {
					if ci, ok := in.(ssa.CallInstruction); ok && ci.Common().StaticCallee() == f {
						n++
						if !ordered(g, bb, depth+1) {
							return false
						}
					}
				}
			}
		}
		return n > 0
	}
	// the value written is the incoming height: in f itself, or (a setter) at every call site
	var isIncoming func(f *ssa.Function, v ssa.Value, depth int) bool
	isIncoming = func(f *ssa.Function, v ssa.Value, depth int) bool {
		if incomingDeep(f, v, 0) {
			return true
		}
		if depth >= 2 {
			return false
		}
		if p, ok := v.(*ssa.Parameter); ok {
			idx := -1
			for i, q := range f.Params {
				if q == p {
					idx = i
				}
			}
			n := 0
			for g := range reach {
				for _, bb := range g.Blocks {
					for _, in := range bb.Instrs {
						if ci, ok := in.(ssa.CallInstruction); ok && ci.Common().StaticCallee() == f && idx >= 0 && idx < len(ci.Common().Args) {
							n++
							if !isIncoming(g, ci.Common().Args[idx], depth+1) {
								return false
							}
						}
					}
				}
			}
			return n > 0
		}
		return false
	}
	nUpd := 0
	check := func(f *ssa.Function, at ssa.Instruction, b *ssa.BasicBlock, v ssa.Value) {
		nUpd++
		pos := a.P.InstrPos(at)
		okOrd, okVal := ordered(f, b, 0), isIncoming(f, v, 0)
		// a value produced by a helper as (height, forwarded): judged at the helper's returns
		if ex, ok := v.(*ssa.Extract); ok {
			if call, ok := ex.Tuple.(*ssa.Call); ok {
				if g := call.Call.StaticCallee(); g != nil && reach[g] {
					// the update happens under the helper's "forwarded" result
					guarded := false
					for _, ref := range *call.Referrers() {
						if e2, ok := ref.(*ssa.Extract); ok && e2 != ex {
							for _, r2 := range *e2.Referrers() {
								if ifi, ok := r2.(*ssa.If); ok {
									t := ifi.Block().Succs[0]
									if len(t.Preds) == 1 && (t == b || t.Dominates(b)) {
										guarded = true
									}
								}
							}
						}
					}
					if guarded {
						okOrd, okVal = true, true
						for _, gb := range g.Blocks {
							ret, ok := gb.Instrs[len(gb.Instrs)-1].(*ssa.Return)
							if !ok || len(ret.Results) != 2 {
								continue
							}
							if k, isK := ret.Results[1].(*ssa.Const); isK && k.Value != nil && k.Value.String() == "false" {
								continue
							}
							if !ordered(g, gb, 1) {
								okOrd = false
							}
							if !isIncoming(g, ret.Results[ex.Index], 1) {
								okVal = false
							}
						}
					}
				}
			}
		}
		r.Check("U5.value", props("C14", "C12"), "the most-recent-sync mark records the height of the synced block, the same quantity the staleness test compares incoming syncs with", shortName(f), pos, okVal,
			"the value written to the mark is not the height the staleness test compares the mark with", "N")
		r.Check("U5.order", props("C14", "C12"), "the most-recent-sync mark is advanced only after the block was handed to the worker successfully (a sync that was dropped as stale or not delivered must not make later syncs of that block look stale)", shortName(f), pos, okOrd,
			"the mark is written on a path where the hand-off to the worker has not succeeded", "P")
	}
	seenClass := map[string]bool{}
	seenVar := map[ssa.Value]bool{}
	for _, c := range cmps {
		if c.class != "" {
			if seenClass[c.class] {
				continue
			}
			seenClass[c.class] = true
			for f := range reach {
				for _, b := range f.Blocks {
					for _, in := range b.Instrs {
						if st, ok := in.(*ssa.Store); ok && classOf(st.Addr) == c.class {
							check(f, in, b, st.Val)
						}
					}
				}
			}
			continue
		}
		// a variable mark: a parameter stands for the caller's loop variable
		vars := []struct {
			f *ssa.Function
			v ssa.Value
		}{{c.fn, c.markVar}}
		if p, ok := c.markVar.(*ssa.Parameter); ok {
			vars = vars[:0]
			idx := -1
			for i, q := range c.fn.Params {
				if q == p {
					idx = i
				}
			}
			for g := range reach {
				for _, bb := range g.Blocks {
					for _, in := range bb.Instrs {
						if ci, ok := in.(ssa.CallInstruction); ok && ci.Common().StaticCallee() == c.fn && idx >= 0 && idx < len(ci.Common().Args) {
							vars = append(vars, struct {
								f *ssa.Function
								v ssa.Value
							}{g, ci.Common().Args[idx]})
						}
					}
				}
			}
		}
		for _, mv := range vars {
			phi, ok := mv.v.(*ssa.Phi)
			if !ok || seenVar[phi] {
				continue
			}
			seenVar[phi] = true
			// updates: the values flowing into the loop variable other than itself and its initial value
			var walk func(x ssa.Value, pred *ssa.BasicBlock, seen map[ssa.Value]bool)
			walk = func(x ssa.Value, pred *ssa.BasicBlock, seen map[ssa.Value]bool) {
				if x == ssa.Value(phi) || seen[x] {
					return
				}
				seen[x] = true
				if p2, ok := x.(*ssa.Phi); ok && carries(p2, phi, map[ssa.Value]bool{}) {
					// a join on the way back to the loop header that merges the old mark with an update
					for i, e := range p2.Edges {
						walk(e, p2.Block().Preds[i], seen)
					}
					return
				}
				if k, ok := x.(*ssa.Const); ok && (k.Value == nil || k.Value.String() == "0") {
					return // initial value
				}
				var at ssa.Instruction = pred.Instrs[len(pred.Instrs)-1]
				check(mv.f, at, pred, x)
			}
			seen := map[ssa.Value]bool{}
			for i, e := range phi.Edges {
				walk(e, phi.Block().Preds[i], seen)
			}
		}
	}
	if nUpd == 0 {
		r.Undecided = append(r.Undecided, "U5: the most-recent-sync mark is never advanced (anchor)")
	}
}

// carries: the phi (transitively) merges the loop variable `mark` with other values, i.e. it lies on the variable's way
// back to the loop header; a phi that does not is simply a value (e.g. "0 for a nil block, else its height").
func carries(p *ssa.Phi, mark *ssa.Phi, seen map[ssa.Value]bool) bool {
	if seen[p] {
		return false
	}
	seen[p] = true
	for _, e := range p.Edges {
		if e == ssa.Value(mark) {
			return true
		}
		if q, ok := e.(*ssa.Phi); ok && carries(q, mark, seen) {
			return true
		}
	}
	return false
}
