package main

import (
	"fmt"
	"go/types"
	"sort"
	"strings"

	"golang.org/x/tools/go/ssa"
)

// S0.state: the mutable state of the library's components is inventoried. A field that is written (assigned, or - for
// maps - updated / deleted from) outside the constructor of its struct is "mutable". The set confirmed by reading the
// reference tree is frozen in mutable_ref.go (regenerate with `lhcheck -mutable`). A component that gains a new mutable
// field - a memo, a "seen before" table, a counter, a disposed flag - has gained memory that none of the other rules
// knows about: what it decides can now depend on history in a new way. Renamed fields are followed (fields.go).

type mutSite struct{ typ, field, fn, pos string }

func mutableFields(a *Analyzer) []mutSite {
	var out []mutSite
	// constructors: functions that allocate the struct (a composite literal / new) - their writes fill a fresh object
	allocates := func(f *ssa.Function, typ string) bool {
		for _, b := range f.Blocks {
			for _, in := range b.Instrs {
				if al, ok := in.(*ssa.Alloc); ok {
					if pt, ok := al.Type().Underlying().(*types.Pointer); ok && structKey(pt.Elem()) == typ {
						return true
					}
				}
			}
		}
		return false
	}
	fieldOfAddr := func(v ssa.Value) (string, string, ssa.Value) {
		// an element of an array / slice field
		if ia, ok := v.(*ssa.IndexAddr); ok {
			v = ia.X
			if ld, ok := v.(*ssa.UnOp); ok {
				v = ld.X
			}
		}
		fa, ok := v.(*ssa.FieldAddr)
		if !ok {
			return "", "", nil
		}
		pt, ok := fa.X.Type().Underlying().(*types.Pointer)
		if !ok {
			return "", "", nil
		}
		if _, isStruct := pt.Elem().Underlying().(*types.Struct); !isStruct {
			return "", "", nil
		}
		if _, isNamed := pt.Elem().(*types.Named); !isNamed {
			return "", "", nil
		}
		return structKey(pt.Elem()), fieldName(fa.X.Type(), fa.Field), fa.X
	}
	for _, f := range a.P.Funcs {
		if isSpecTypesPkg(funcPkgPath(f)) {
			continue
		}
		for _, b := range f.Blocks {
			for _, in := range b.Instrs {
				var typ, fld string
				var base ssa.Value
				switch x := in.(type) {
				case *ssa.Store:
					typ, fld, base = fieldOfAddr(x.Addr)
				case *ssa.MapUpdate:
					if ld, ok := x.Map.(*ssa.UnOp); ok {
						typ, fld, base = fieldOfAddr(ld.X)
					}
				case *ssa.Call:
					if isBuiltin(x, "delete") && len(x.Call.Args) > 0 {
						if ld, ok := x.Call.Args[0].(*ssa.UnOp); ok {
							typ, fld, base = fieldOfAddr(ld.X)
						}
					}
					if sc := x.Call.StaticCallee(); sc != nil && funcPkgPath(sc) == "sync/atomic" && len(x.Call.Args) > 0 &&
						(strings.HasPrefix(sc.Name(), "Add") || strings.HasPrefix(sc.Name(), "Store") || strings.HasPrefix(sc.Name(), "Swap") || strings.HasPrefix(sc.Name(), "CompareAndSwap")) {
						typ, fld, base = fieldOfAddr(x.Call.Args[0])
					}
				}
				if typ == "" || !strings.HasPrefix(typ, "") {
					continue
				}
				if _, isAlloc := base.(*ssa.Alloc); isAlloc {
					continue // a fresh object being filled
				}
				if allocates(f, typ) {
					continue
				}
				out = append(out, mutSite{typ, fld, shortName(f), a.P.InstrPos(in)})
			}
		}
	}
	sort.Slice(out, func(i, j int) bool {
		if out[i].typ != out[j].typ {
			return out[i].typ < out[j].typ
		}
		if out[i].field != out[j].field {
			return out[i].field < out[j].field
		}
		return out[i].pos < out[j].pos
	})
	return out
}

func dumpMutable(a *Analyzer) {
	seen := map[string]bool{}
	for _, m := range mutableFields(a) {
		k := m.typ + "." + m.field
		if !seen[k] {
			seen[k] = true
			fmt.Printf("\t%q: true,\n", k)
		}
	}
}

// componentTypes: the struct types an object of which can live as long as the node: reachable through fields (pointers,
// values, map / slice / channel elements, library interfaces' implementations excluded) from the two loops. A small value
// type used as a local variable of one function is not among them.
func componentTypes(a *Analyzer) map[string]bool {
	out := map[string]bool{}
	var visit func(t types.Type, depth int)
	visit = func(t types.Type, depth int) {
		if depth > 12 {
			return
		}
		switch x := t.(type) {
		case *types.Pointer:
			visit(x.Elem(), depth+1)
		case *types.Slice:
			visit(x.Elem(), depth+1)
		case *types.Array:
			visit(x.Elem(), depth+1)
		case *types.Map:
			visit(x.Key(), depth+1)
			visit(x.Elem(), depth+1)
		case *types.Chan:
			visit(x.Elem(), depth+1)
		case *types.Named:
			if x.Obj().Pkg() == nil || !inLibraryScope(x.Obj().Pkg().Path()) || isSpecTypesPkg(x.Obj().Pkg().Path()) {
				return
			}
			st, ok := x.Underlying().(*types.Struct)
			if !ok {
				if it, isI := x.Underlying().(*types.Interface); isI {
					// the library's own implementations of a library interface (logger, scheduler, handlers)
					for _, f := range a.P.Funcs {
						if f.Signature.Recv() == nil {
							continue
						}
						rt := f.Signature.Recv().Type()
						if types.Implements(rt, it) {
							if k := structKey(derefType(rt)); !out[k] {
								visit(rt, depth+1)
							}
						}
					}
				}
				return
			}
			k := structKey(x)
			if out[k] {
				return
			}
			out[k] = true
			for i := 0; i < st.NumFields(); i++ {
				visit(st.Field(i).Type(), depth+1)
			}
		}
	}
	if pkg := a.P.ByPath[modPath]; pkg != nil {
		for _, n := range []string{"MainLoop", "WorkerLoop"} {
			if tn, ok := pkg.Types.Scope().Lookup(n).(*types.TypeName); ok {
				visit(tn.Type(), 0)
			}
		}
	}
	// per-term objects are created by functions, not held in fields all the way: add the types the inventory already names
	for k := range mutableRef {
		if i := strings.LastIndex(k, "."); i > 0 {
			out[k[:i]] = true
		}
	}
	for _, f := range a.P.Funcs {
		// and everything reachable from what the constructors of those types store
		if f.Signature.Recv() != nil {
			if k := structKey(derefType(f.Signature.Recv().Type())); out[k] {
				if n, ok := derefType(f.Signature.Recv().Type()).(*types.Named); ok {
					if st, ok := n.Underlying().(*types.Struct); ok {
						for i := 0; i < st.NumFields(); i++ {
							visit(st.Field(i).Type(), 1)
						}
					}
				}
			}
		}
	}
	return out
}

func derefType(t types.Type) types.Type {
	if p, ok := t.(*types.Pointer); ok {
		return p.Elem()
	}
	return t
}

func runMutableState(a *Analyzer, r *Results) {
	if len(mutableRef) == 0 {
		r.Undecided = append(r.Undecided, "no reference table of mutable fields (S0.state)")
		return
	}
	comp := componentTypes(a)
	byField := map[string][]mutSite{}
	var order []string
	for _, m := range mutableFields(a) {
		if !comp[m.typ] {
			continue // a short-lived helper value, not part of a component
		}
		k := m.typ + "." + m.field
		if _, ok := byField[k]; !ok {
			order = append(order, k)
		}
		byField[k] = append(byField[k], m)
	}
	n := 0
	for _, k := range order {
		n++
		sites := byField[k]
		var ws []string
		for _, s := range sites {
			ws = append(ws, s.fn)
		}
		ws = dedupSorted(ws)
		r.Check("S0.state", props("C01", "C03", "C05", "C07", "C08", "C09", "C10", "C11", "C12", "C17"), "the mutable state of the library's components is the inventoried one: no component has gained a field that is written after construction (a memo, a 'seen before' table, a counter, a flag) - such memory makes decisions depend on history in a way no other rule accounts for", k, sites[0].pos, mutableRef[k],
			"new mutable state: "+k+" is written by "+strings.Join(ws, ", ")+" (not in the inventory of mutable fields)", "W")
	}
	if n < len(mutableRef)/2 {
		r.Undecided = append(r.Undecided, fmt.Sprintf("only %d mutable fields found (%d inventoried)", n, len(mutableRef)))
	}
}
