package main

import (
	"fmt"
	"go/types"
	"sort"
	"strings"

	"golang.org/x/tools/go/ssa"
)

// S0.state: the mutable state of the library's components is inventoried. A field that is written (assigned, or - for
// maps - updated / deleted from) outside the constructor of its struct is "mutable". The set confirmed by reading the
// reference tree is frozen in mutable_ref.go (regenerate with `lhcheck -mutable`). A component that gains a new mutable
// field - a memo, a "seen before" table, a counter, a disposed flag - has gained memory that none of the other rules
// knows about: what it decides can now depend on history in a new way. Renamed fields are followed (fields.go).

type mutSite struct{ typ, field, fn, pos string }

func mutableFields(a *Analyzer) []mutSite {
	var out []mutSite
	// constructors: functions that allocate the struct (a composite literal / new) - their writes fill a fresh object
	allocates := func(f *ssa.Function, typ string) bool {
		for _, b := range f.Blocks {
			for _, in := range b.Instrs {
				if al, ok := in.(*ssa.Alloc); ok {
					if pt, ok := al.Type().Underlying().(*types.Pointer); ok && structKey(pt.Elem()) == typ {
						return true
					}
				}
			}
		}
		return false
	}
	fieldOfAddr := func(v ssa.Value) (string, string, ssa.Value) {
		// an element of an array / slice field
		if ia, ok := v.(*ssa.IndexAddr); ok {
			v = ia.X
			if ld, ok := v.(*ssa.UnOp); ok {
				v = ld.X
			}
		}
		fa, ok := v.(*ssa.FieldAddr)
		if !ok {
			return "", "", nil
		}
		pt, ok := fa.X.Type().Underlying().(*types.Pointer)
		if !ok {
			return "", "", nil
		}
		if _, isStruct := pt.Elem().Underlying().(*types.Struct); !isStruct {
			return "", "", nil
		}
		if _, isNamed := pt.Elem().(*types.Named); !isNamed {
			return "", "", nil
		}
		return structKey(pt.Elem()), fieldName(fa.X.Type(), fa.Field), fa.X
	}
	for _, f := range a.P.Funcs {
		if isSpecTypesPkg(funcPkgPath(f)) {
			continue
		}
		for _, b := range f.Blocks {
			for _, in := range b.Instrs {
				var typ, fld string
				var base ssa.Value
				switch x := in.(type) {
				case *ssa.Store:
					typ, fld, base = fieldOfAddr(x.Addr)
				case *ssa.MapUpdate:
					if ld, ok := x.Map.(*ssa.UnOp); ok {
						typ, fld, base = fieldOfAddr(ld.X)
					}
				case *ssa.Call:
					if isBuiltin(x, "delete") && len(x.Call.Args) > 0 {
						if ld, ok := x.Call.Args[0].(*ssa.UnOp); ok {
							typ, fld, base = fieldOfAddr(ld.X)
						}
					}
					if sc := x.Call.StaticCallee(); sc != nil && funcPkgPath(sc) == "sync/atomic" && len(x.Call.Args) > 0 &&
						(strings.HasPrefix(sc.Name(), "Add") || strings.HasPrefix(sc.Name(), "Store") || strings.HasPrefix(sc.Name(), "Swap") || strings.HasPrefix(sc.Name(), "CompareAndSwap")) {
						typ, fld, base = fieldOfAddr(x.Call.Args[0])
					}
				}
				if typ == "" || !strings.HasPrefix(typ, "") {
					continue
				}
				root := base
				for {
					if inner, ok := root.(*ssa.FieldAddr); ok { // a value field of an enclosing struct
						root = inner.X
						continue
					}
					break
				}
				if _, isAlloc := root.(*ssa.Alloc); isAlloc {
					continue // a fresh object (or a value field of one) being filled
				}
				if allocates(f, typ) {
					continue
				}
				out = append(out, mutSite{typ, fld, shortName(f), a.P.InstrPos(in)})
			}
		}
	}
	sort.Slice(out, func(i, j int) bool {
		if out[i].typ != out[j].typ {
			return out[i].typ < out[j].typ
		}
		if out[i].field != out[j].field {
			return out[i].field < out[j].field
		}
		return out[i].pos < out[j].pos
	})
	return out
}

func dumpMutable(a *Analyzer) {
	seen := map[string]bool{}
	for _, m := range mutableFields(a) {
		k := m.typ + "." + m.field
		if !seen[k] {
			seen[k] = true
			fmt.Printf("\t%q: true,\n", k)
		}
	}
}

// componentTypes: the struct types an object of which can live as long as the node: reachable through fields (pointers,
// values, map / slice / channel elements, library interfaces' implementations excluded) from the two loops. A small value
// type used as a local variable of one function is not among them.
func componentTypes(a *Analyzer) map[string]bool {
	out := map[string]bool{}
	var visit func(t types.Type, depth int)
	visit = func(t types.Type, depth int) {
		if depth > 12 {
			return
		}
		switch x := t.(type) {
		case *types.Pointer:
			visit(x.Elem(), depth+1)
		case *types.Slice:
			visit(x.Elem(), depth+1)
		case *types.Array:
			visit(x.Elem(), depth+1)
		case *types.Map:
			visit(x.Key(), depth+1)
			visit(x.Elem(), depth+1)
		case *types.Chan:
			visit(x.Elem(), depth+1)
		case *types.Named:
			if x.Obj().Pkg() == nil || !inLibraryScope(x.Obj().Pkg().Path()) || isSpecTypesPkg(x.Obj().Pkg().Path()) {
				return
			}
			st, ok := x.Underlying().(*types.Struct)
			if !ok {
				if it, isI := x.Underlying().(*types.Interface); isI {
					// the library's own implementations of a library interface (logger, scheduler, handlers)
					for _, f := range a.P.Funcs {
						if f.Signature.Recv() == nil {
							continue
						}
						rt := f.Signature.Recv().Type()
						if types.Implements(rt, it) {
							if k := structKey(derefType(rt)); !out[k] {
								visit(rt, depth+1)
							}
						}
					}
				}
				return
			}
			k := structKey(x)
			if out[k] {
				return
			}
			out[k] = true
			for i := 0; i < st.NumFields(); i++ {
				visit(st.Field(i).Type(), depth+1)
			}
		}
	}
	if pkg := a.P.ByPath[modPath]; pkg != nil {
		for _, n := range []string{"MainLoop", "WorkerLoop"} {
			if tn, ok := pkg.Types.Scope().Lookup(n).(*types.TypeName); ok {
				visit(tn.Type(), 0)
			}
		}
	}
	// per-term objects are created by functions, not held in fields all the way: add the types the inventory already names
	for k := range mutableRef {
		if i := strings.LastIndex(k, "."); i > 0 {
			out[k[:i]] = true
		}
	}
	for _, f := range a.P.Funcs {
		// and everything reachable from what the constructors of those types store
		if f.Signature.Recv() != nil {
			if k := structKey(derefType(f.Signature.Recv().Type())); out[k] {
				if n, ok := derefType(f.Signature.Recv().Type()).(*types.Named); ok {
					if st, ok := n.Underlying().(*types.Struct); ok {
						for i := 0; i < st.NumFields(); i++ {
							visit(st.Field(i).Type(), 1)
						}
					}
				}
			}
		}
	}
	return out
}

func derefType(t types.Type) types.Type {
	if p, ok := t.(*types.Pointer); ok {
		return p.Elem()
	}
	return t
}

func runMutableState(a *Analyzer, r *Results) {
	if len(mutableRef) == 0 {
		r.Undecided = append(r.Undecided, "no reference table of mutable fields (S0.state)")
		return
	}
	comp := componentTypes(a)
	byField := map[string][]mutSite{}
	var order []string
	for _, m := range mutableFields(a) {
		if !comp[m.typ] {
			continue // a short-lived helper value, not part of a component
		}
		k := m.typ + "." + m.field
		if _, ok := byField[k]; !ok {
			order = append(order, k)
		}
		byField[k] = append(byField[k], m)
	}
	n := 0
	for _, k := range order {
		n++
		sites := byField[k]
		var ws []string
		for _, s := range sites {
			ws = append(ws, s.fn)
		}
		ws = dedupSorted(ws)
		r.Check("S0.state", props("C01", "C03", "C05", "C07", "C08", "C09", "C10", "C11", "C12", "C17"), "the mutable state of the library's components is the inventoried one: no component has gained a field that is written after construction (a memo, a 'seen before' table, a counter, a flag) - such memory makes decisions depend on history in a way no other rule accounts for", k, sites[0].pos, mutableRef[k],
			"new mutable state: "+k+" is written by "+strings.Join(ws, ", ")+" (not in the inventory of mutable fields)", "W")
	}
	if n < len(mutableRef)/2 {
		r.Undecided = append(r.Undecided, fmt.Sprintf("only %d mutable fields found (%d inventoried)", n, len(mutableRef)))
	}
}

// R7.verdict: a function that reports a verdict (an error or a bool result) and recovers from panics reports failure when
// it recovered: the recover handler assigns the result. A handler that only logs turns "the check blew up" into "the check
// passed" (nil error / zero value), which for a validator means acceptance.
func runRecoverVerdict(a *Analyzer, r *Results) {
	n := 0
	for _, f := range a.P.Funcs {
		if f.Parent() != nil || isSpecTypesPkg(funcPkgPath(f)) || f.Signature.Results().Len() == 0 {
			continue
		}
		hasVerdict := false
		for i := 0; i < f.Signature.Results().Len(); i++ {
			t := f.Signature.Results().At(i).Type()
			if isErrorType(t) || isBoolType(t) {
				hasVerdict = true
			}
		}
		if !hasVerdict {
			continue
		}
		for _, b := range f.Blocks {
			for _, in := range b.Instrs {
				d, ok := in.(*ssa.Defer)
				if !ok {
					continue
				}
				mc, ok := d.Call.Value.(*ssa.MakeClosure)
				if !ok {
					continue
				}
				h, ok := mc.Fn.(*ssa.Function)
				if !ok {
					continue
				}
				recovers, assigns := false, false
				for _, hb := range h.Blocks {
					for _, hi := range hb.Instrs {
						if c, isC := hi.(*ssa.Call); isC {
							if bi, isB := c.Call.Value.(*ssa.Builtin); isB && bi.Name() == "recover" {
								recovers = true
							}
						}
						if st, isSt := hi.(*ssa.Store); isSt {
							// a store through a captured variable (the named result)
							if _, isFV := st.Addr.(*ssa.FreeVar); isFV {
								if isErrorType(st.Val.Type()) || isBoolType(st.Val.Type()) {
									assigns = true
								}
							}
						}
					}
				}
				if !recovers {
					continue
				}
				n++
				r.Check("R7.verdict", props("C08", "C07", "C12", "C02", "C11"), "a function that returns a verdict and recovers from panics reports failure when it recovered (the recover handler assigns the result): a blown-up check never counts as passed", shortName(f), a.P.InstrPos(in), assigns,
					"the recover handler in "+shortName(f)+" does not assign the function's result: after a panic the function returns its zero value (nil error / false)", "R")
			}
		}
	}
	if n == 0 {
		r.Undecided = append(r.Undecided, "no recovering function with a verdict result found (R7.verdict anchor)")
	}
}

// Q5.wrapper: the term's own quorum test is quorum.IsQuorum of its committee, nothing else: a wrapper around it returns
// that call's results on every path (no count-based shortcut in front of the weight test).
func runQuorumWrapper(a *Analyzer, r *Results) {
	n := 0
	for _, f := range a.P.Funcs {
		if f.Parent() != nil || !strings.HasSuffix(funcPkgPath(f), "services/termincommittee") {
			continue
		}
		if f.Signature.Results().Len() == 0 || !isBoolType(f.Signature.Results().At(0).Type()) {
			continue
		}
		var qcall *ssa.Call
		for _, b := range f.Blocks {
			for _, in := range b.Instrs {
				if c, ok := in.(*ssa.Call); ok {
					if sc := c.Call.StaticCallee(); sc != nil && (shortName(sc) == "quorum.IsQuorum" || shortName(sc) == "quorum.HasHonest") {
						qcall = c
					}
				}
			}
		}
		if qcall == nil || len(f.Params) > 3 {
			continue
		}
		n++
		ok := true
		pos := a.P.Pos(f.Pos())
		for _, b := range f.Blocks {
			ret, isRet := b.Instrs[len(b.Instrs)-1].(*ssa.Return)
			if !isRet {
				continue
			}
			ex, isEx := ret.Results[0].(*ssa.Extract)
			if !isEx || ex.Tuple != ssa.Value(qcall) || ex.Index != 0 {
				ok = false
				pos = a.P.InstrPos(ret)
			}
		}
		r.Check("Q5.wrapper", props("C06", "C01", "C05", "C07", "C09", "C10"), "the term's quorum test is the weight test of services/quorum on every path: a wrapper returns the verdict of quorum.IsQuorum itself (no count-based shortcut)", shortName(f), pos, ok,
			shortName(f)+" can return a verdict that is not the result of the weight test", "P")
	}
	if n == 0 {
		// the term calls quorum.IsQuorum directly (G7 judges those calls): nothing stands between the callers and the weight test
		r.Check("Q5.wrapper", props("C06", "C01", "C05", "C07", "C09", "C10"), "the term's quorum test is the weight test of services/quorum on every path: a wrapper returns the verdict of quorum.IsQuorum itself (no count-based shortcut)", "none", "-", true, "", "P")
	}
}

// H8.commit: the next round is started from the commit path only after the consumer's commit callback reported success.
func runCommitThenRound(a *Analyzer, r *Results) {
	n := 0
	for _, f := range a.P.Funcs {
		if funcPkgPath(f) != modPath {
			continue
		}
		var cb *ssa.Call
		for _, b := range f.Blocks {
			for _, in := range b.Instrs {
				if c, ok := in.(*ssa.Call); ok && c.Call.StaticCallee() == nil && !c.Call.IsInvoke() && typeShort(c.Call.Value.Type()) == "interfaces.OnCommitCallback" {
					cb = c
				}
			}
		}
		if cb == nil {
			continue
		}
		for _, b := range f.Blocks {
			for _, in := range b.Instrs {
				c, ok := in.(*ssa.Call)
				if !ok || c == cb {
					continue
				}
				sc := c.Call.StaticCallee()
				if sc == nil || !reachesFn(a, sc, "services/leanhelixterm.NewLeanHelixTerm", map[*ssa.Function]bool{}) {
					continue
				}
				n++
				good := false
				for _, db := range f.Blocks {
					if skip := errFailingSucc(db, cb); skip >= 0 && len(db.Succs) == 2 {
						succ := db.Succs[1-skip]
						// ... and the failing branch of that test does not lead to the call as well
						if (succ == b || succ.Dominates(b)) && !reachableFrom(db.Succs[skip])[b] {
							good = true
						}
					}
				}
				r.Check("H8.commit", props("C13", "C14", "C03", "C01"), "after a commit the next round is started only when the consumer's commit callback returned nil: a failed (or interrupted) hand-over never advances the node by itself", shortName(f), a.P.InstrPos(in), good,
					"the round starter is called on a path on which the commit callback's error was not tested to be nil", "P")
			}
		}
	}
	if n == 0 {
		r.Undecided = append(r.Undecided, "no round start after the commit callback found (H8.commit anchor)")
	}
}
