package main

import (
	"fmt"
	"go/types"
	"sort"
	"strings"

	"golang.org/x/tools/go/ssa"
)

// S0.state: the mutable state of the library's components is inventoried. A field that is written (assigned, or - for
// maps - updated / deleted from) outside the constructor of its struct is "mutable". The set confirmed by reading the
// reference tree is frozen in mutable_ref.go (regenerate with `lhcheck -mutable`). A component that gains a new mutable
// field - a memo, a "seen before" table, a counter, a disposed flag - has gained memory that none of the other rules
// knows about: what it decides can now depend on history in a new way. Renamed fields are followed (fields.go).

type mutSite struct{ typ, field, fn, pos string }

func mutableFields(a *Analyzer) []mutSite {
	var out []mutSite
	// constructors: functions that allocate the struct (a composite literal / new) - their writes fill a fresh object
	allocates := func(f *ssa.Function, typ string) bool {
		for _, b := range f.Blocks {
			for _, in := range b.Instrs {
				if al, ok := in.(*ssa.Alloc); ok {
					if pt, ok := al.Type().Underlying().(*types.Pointer); ok && structKey(pt.Elem()) == typ {
						return true
					}
				}
			}
		}
		return false
	}
	fieldOfAddr := func(v ssa.Value) (string, string, ssa.Value) {
		// an element of an array / slice field
		if ia, ok := v.(*ssa.IndexAddr); ok {
			v = ia.X
			if ld, ok := v.(*ssa.UnOp); ok {
				v = ld.X
			}
		}
		fa, ok := v.(*ssa.FieldAddr)
		if !ok {
			return "", "", nil
		}
		pt, ok := fa.X.Type().Underlying().(*types.Pointer)
		if !ok {
			return "", "", nil
		}
		if _, isStruct := pt.Elem().Underlying().(*types.Struct); !isStruct {
			return "", "", nil
		}
		if _, isNamed := pt.Elem().(*types.Named); !isNamed {
			return "", "", nil
		}
		return structKey(pt.Elem()), fieldName(fa.X.Type(), fa.Field), fa.X
	}
	for _, f := range a.P.Funcs {
		if isSpecTypesPkg(funcPkgPath(f)) {
			continue
		}
		for _, b := range f.Blocks {
			for _, in := range b.Instrs {
				var typ, fld string
				var base ssa.Value
				switch x := in.(type) {
				case *ssa.Store:
					typ, fld, base = fieldOfAddr(x.Addr)
				case *ssa.MapUpdate:
					if ld, ok := x.Map.(*ssa.UnOp); ok {
						typ, fld, base = fieldOfAddr(ld.X)
					}
				case *ssa.Call:
					if isBuiltin(x, "delete") && len(x.Call.Args) > 0 {
						if ld, ok := x.Call.Args[0].(*ssa.UnOp); ok {
							typ, fld, base = fieldOfAddr(ld.X)
						}
					}
					if sc := x.Call.StaticCallee(); sc != nil && funcPkgPath(sc) == "sync/atomic" && len(x.Call.Args) > 0 &&
						(strings.HasPrefix(sc.Name(), "Add") || strings.HasPrefix(sc.Name(), "Store") || strings.HasPrefix(sc.Name(), "Swap") || strings.HasPrefix(sc.Name(), "CompareAndSwap")) {
						typ, fld, base = fieldOfAddr(x.Call.Args[0])
					}
				}
				if typ == "" || !strings.HasPrefix(typ, "") {
					continue
				}
				if _, isAlloc := base.(*ssa.Alloc); isAlloc {
					continue // a fresh object being filled
				}
				if allocates(f, typ) {
					continue
				}
				out = append(out, mutSite{typ, fld, shortName(f), a.P.InstrPos(in)})
			}
		}
	}
	sort.Slice(out, func(i, j int) bool {
		if out[i].typ != out[j].typ {
			return out[i].typ < out[j].typ
		}
		if out[i].field != out[j].field {
			return out[i].field < out[j].field
		}
		return out[i].pos < out[j].pos
	})
	return out
}

func dumpMutable(a *Analyzer) {
	seen := map[string]bool{}
	for _, m := range mutableFields(a) {
		k := m.typ + "." + m.field
		if !seen[k] {
			seen[k] = true
			fmt.Printf("\t%q: true,\n", k)
		}
	}
}

func runMutableState(a *Analyzer, r *Results) {
	if len(mutableRef) == 0 {
		r.Undecided = append(r.Undecided, "no reference table of mutable fields (S0.state)")
		return
	}
	byField := map[string][]mutSite{}
	var order []string
	for _, m := range mutableFields(a) {
		k := m.typ + "." + m.field
		if _, ok := byField[k]; !ok {
			order = append(order, k)
		}
		byField[k] = append(byField[k], m)
	}
	n := 0
	for _, k := range order {
		n++
		sites := byField[k]
		var ws []string
		for _, s := range sites {
			ws = append(ws, s.fn)
		}
		ws = dedupSorted(ws)
		r.Check("S0.state", props("C01", "C03", "C05", "C07", "C08", "C09", "C10", "C11", "C12", "C17"), "the mutable state of the library's components is the inventoried one: no component has gained a field that is written after construction (a memo, a 'seen before' table, a counter, a flag) - such memory makes decisions depend on history in a way no other rule accounts for", k, sites[0].pos, mutableRef[k],
			"new mutable state: "+k+" is written by "+strings.Join(ws, ", ")+" (not in the inventory of mutable fields)", "W")
	}
	if n < len(mutableRef)/2 {
		r.Undecided = append(r.Undecided, fmt.Sprintf("only %d mutable fields found (%d inventoried)", n, len(mutableRef)))
	}
}
