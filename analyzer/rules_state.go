package main

import (
	"go/constant"
	"go/token"
	"go/types"
	"strconv"
	"strings"

	"golang.org/x/tools/go/ssa"
)

// Registry laws (C15), state monotonicity (C13, C10), sync (C14), shutdown (C16), timer registration (C19).

func (a *Analyzer) effectsOf(id string, roots map[string]*Term, split bool, assume ...*Atom) ([]*Effect, []string) {
	fn := a.P.Func(id)
	var out []*Effect
	w := a.NewWalker(func(e *Effect) { out = append(out, e) })
	w.AutoSplit = split
	w.Assume = assume
	w.Run(fn, roots, nil)
	return out, w.Undecided
}

// isTableKey: an element of the list of the context table's keys that a helper collected (a filtered copy of the keys).
func isTableKey(t *Term) bool {
	if t.Op != "elem" || len(t.Args) != 1 || t.Args[0].Op != "filter" || len(t.Args[0].Args) != 3 {
		return false
	}
	f := t.Args[0]
	return f.Args[1].Op == "bound" && f.Args[1].Name == "k" && strings.Contains(f.Args[0].Key(), "field:hvToContext(this:state.ViewContexts)")
}

func runRegistry(a *Analyzer, r *Results) {
	pr := props("C15")
	vc := This("state.ViewContexts")
	newest := Field(vc, "newestHvCanceledOlder")
	older := func(x, y *Term) *Term { return Call("state.OlderThan", x, y) }

	// K3: OlderThan == lexicographic <, decided by exhaustive evaluation over the order types of its four inputs
	{
		id := "(*state.HeightView).OlderThan"
		fn := a.P.Func(id)
		pt := a.PathTerm(fn)
		ok := pt != nil
		why := "OlderThan is not a pure loop-free function of its two arguments"
		if ok {
			x, y := T("param", "0"), T("param", "1")
			leaves := []*Term{Field(x, "height"), Field(y, "height"), Field(x, "view"), Field(y, "view")}
			// only comparisons of these four values may occur
			vals := []int{0, 1, 2}
			n := 0
		outer:
			for _, h1 := range vals {
				for _, h2 := range vals {
					for _, v1 := range vals {
						for _, v2 := range vals {
							env := map[string]int{leaves[0].Key(): h1, leaves[1].Key(): h2, leaves[2].Key(): v1, leaves[3].Key(): v2}
							got, known := evalConcrete(pt, env)
							want := h1 < h2 || (h1 == h2 && v1 < v2)
							n++
							if !known {
								ok, why = false, "OlderThan depends on something other than comparisons of the two (height, view) pairs: "+PP(pt)
								break outer
							}
							if (got != 0) != want {
								ok, why = false, fmtf("OlderThan((%d,%d),(%d,%d)) evaluates to %v; the lexicographic order gives %v; body: %s", h1, v1, h2, v2, got != 0, want, PP(pt))
								break outer
							}
						}
					}
				}
			}
			r.Stats["K3.cases"] = n
		}
		r.Check("K3", props("C15", "C13"), "HeightView.OlderThan is the strict lexicographic order on (height, view): decided exhaustively over all order types of its inputs (values only occur in comparisons)", "OlderThan", a.P.Pos(fn.Pos()), ok, why, "N")
	}
	// K1: For
	{
		id := "(*state.ViewContexts).For"
		fn := a.P.Func(id)
		hv := Root(fn.Params[1].Name())
		effs, und := a.effectsOf(id, nil, true, Ne(newest, tNil))
		r.Undecided = append(r.Undecided, und...)
		effs2, und2 := a.effectsOf(id, nil, true, Eq(newest, tNil))
		r.Undecided = append(r.Undecided, und2...)
		effs = append(effs, effs2...)
		n := 0
		for _, e := range effs {
			if e.Kind != "return" || len(e.Args) != 2 {
				continue
			}
			ev := a.NewEval(e, r)
			if isErrCtor(e.Args[1]) || e.Args[1].Key() != tNil.Key() {
				// K1.exact: a refusal has one of the two specified reasons (a context for a live position is never refused:
				// the round that needs it could not start)
				k1exact := "the context registry refuses a request only after Shutdown or for a (height, view) older than the cancellation watermark: no other condition (size limits, rate limits, ...) can make it refuse the context a new round or a view needs"
				// the refusal may be decided by a helper whose error is passed on: then each of the helper's own refusals is judged
				if ct := unfreeze(e.Args[1]); ct.Op == "call" && a.calleeOf(ct) != nil && ev.Has(Ne(e.Args[1], tNil)) != nil {
					g := a.calleeOf(ct)
					roots := map[string]*Term{}
					for i, p := range g.Params {
						if i < len(ct.Args) {
							roots[p.Name()] = ct.Args[i]
						}
					}
					grets, gund := a.Returns(funcID(g), roots)
					r.Undecided = append(r.Undecided, gund...)
					for _, ge := range grets {
						if len(ge.Args) != 1 || ge.Args[0].Key() == tNil.Key() {
							continue
						}
						gev := a.NewEval(ge, r)
						gev.RequireAny("K1.exact", props("C15", "C12", "C05", "C19"), k1exact, "",
							[]*Atom{Truth(Field(vc, "shutdown"))}, []*Atom{Truth(older(hv, newest))})
					}
					continue
				}
				ev.RequireAny("K1.exact", props("C15", "C12", "C05", "C19"), k1exact, "",
					[]*Atom{Truth(Field(vc, "shutdown"))}, []*Atom{Truth(older(hv, newest))})
				continue
			}
			n++
			ev.Require("K1.shutdown", pr, "no context is issued after Shutdown", "", NotA(Truth(Field(vc, "shutdown"))))
			ev.RequireAny("K1.stale", pr, "no context is issued for a (height, view) older than the cancellation watermark", "",
				[]*Atom{Eq(newest, tNil)}, []*Atom{NotA(Truth(older(hv, newest)))})
			// the returned context is the registered one: field ctx of the map entry for *hv (existing or just stored)
			ctx := e.Args[0]
			ok := (ctx.Op == "field" && ctx.Name == "ctx") || (ctx.Op == "ext" && ctx.Name == "0" && ctx.Args[0].Op == "call" && ctx.Args[0].Name == "context.WithCancel")
			ev.Verdict("K1.registered", pr, "the issued context is the one registered in the per-(height,view) table (re-used when present, stored when created)", "", ok, "returns "+PP(ctx))
		}
		if n == 0 {
			r.Undecided = append(r.Undecided, "ViewContexts.For has no successful return")
		}
		// a created context is derived from the registry's parent context and stored under *hv
		for _, e := range effs {
			if e.Kind == "call" && e.Name == "context.WithCancel" {
				ev := a.NewEval(e, r)
				ev.Verdict("K1.parent", props("C15", "C16"), "contexts are derived from the registry's parent context (so Shutdown cancels all of them)", "", ev.Arg(0).Key() == Field(Field(vc, "parentCtxWithCancel"), "ctx").Key(), "parent is "+PP(ev.Arg(0)))
			}
			if e.Kind == "mapupdate" && e.Name == "state.ViewContexts.hvToContext" {
				ev := a.NewEval(e, r)
				ev.Verdict("K1.key", pr, "a created context is stored under the requested (height, view)", "", ev.Arg(0).Key() == T("deref", "", hv).Key() || ev.Arg(0).Key() == hv.Key(), "key is "+PP(ev.Arg(0)))
			}
		}
	}
	// K2: CancelOlderThan
	{
		id := "(*state.ViewContexts).CancelOlderThan"
		fn := a.P.Func(id)
		hv := Root(fn.Params[1].Name())
		effs, und := a.effectsOf(id, nil, true, Ne(newest, tNil))
		r.Undecided = append(r.Undecided, und...)
		effs2, und2 := a.effectsOf(id, nil, true, Eq(newest, tNil))
		r.Undecided = append(r.Undecided, und2...)
		effs = append(effs, effs2...)
		nCancel, nDel, nStore := 0, 0, 0
		for _, e := range effs {
			ev := a.NewEval(e, r)
			switch {
			case e.Kind == "call" && strings.HasPrefix(e.Name, "dyn:") && strings.Contains(e.Name, "cancel"):
				nCancel++
				// the cancelled entry's key is older than hv
				ok := false
				for _, b := range ev.Find(Truth(older(Var("k"), hv))) {
					if b["k"].Op == "mapkey" || strings.Contains(b["k"].Key(), "mapkey") || isTableKey(b["k"]) {
						ok = true
					}
				}
				ev.Verdict("K2.cancel", pr, "CancelOlderThan cancels a registered context only if its (height, view) is strictly older than the argument", "", ok, "cancel not guarded by key.OlderThan(hv)")
			case e.Kind == "mapdelete" && e.Name == "state.ViewContexts.hvToContext":
				nDel++
				ok := false
				for _, b := range ev.Find(Truth(older(Var("k"), hv))) {
					if ev.Same(b["k"], ev.Arg(1)) || strings.Contains(ev.Arg(1).Key(), "mapkey") && strings.Contains(b["k"].Key(), "mapkey") ||
						(isTableKey(b["k"]) && b["k"].Key() == ev.Arg(1).Key()) {
						ok = true
					}
				}
				ev.Verdict("K2.delete", pr, "a cancelled context is removed from the table (only entries older than the argument)", "", ok, "delete not guarded by key.OlderThan(hv)")
			case e.Kind == "store" && e.Name == "state.ViewContexts.newestHvCanceledOlder":
				nStore++
				ev.Verdict("K2.value", pr, "the watermark is set to the argument", "", ev.Arg(0).Key() == hv.Key(), "stores "+PP(ev.Arg(0)))
				ev.RequireAny("K2.watermark", props("C15", "C14"), "the cancellation watermark only moves forward: it is replaced only when unset or strictly older than the argument", "",
					[]*Atom{Eq(newest, tNil)}, []*Atom{Truth(older(newest, hv))})
			}
		}
		if nCancel == 0 || nDel == 0 || nStore == 0 {
			r.Undecided = append(r.Undecided, fmtf("CancelOlderThan: cancel=%d delete=%d watermark-store=%d sites found (each expected >= 1)", nCancel, nDel, nStore))
		}
		// K2.always: whatever the table holds, the call leaves the watermark at or above its argument: every path to a
		// return stores the watermark or passes the "watermark is not older than the argument" outcome of its test
		// (in CancelOlderThan itself, or in a helper it hands its argument to)
		{
			var raises func(g *ssa.Function, hvT *Term, depth int) string
			raises = func(g *ssa.Function, hvT *Term, depth int) string {
				c := a.NewFCtx(g, a.EntryEnv(g, nil), 0)
				olderKey := older(newest, hvT).Key()
				type st struct {
					b  *ssa.BasicBlock
					ok bool
				}
				seen := map[st]bool{}
				bad := ""
				var walk func(b *ssa.BasicBlock, ok bool)
				walk = func(b *ssa.BasicBlock, ok bool) {
					if seen[st{b, ok}] || bad != "" {
						return
					}
					seen[st{b, ok}] = true
					for _, in := range b.Instrs {
						switch x := in.(type) {
						case *ssa.Store:
							if a.addrLoc(x.Addr) == "state.ViewContexts.newestHvCanceledOlder" {
								ok = true
							}
						case *ssa.Call:
							if h := x.Call.StaticCallee(); h != nil && depth < 2 && h.Signature.Recv() != nil && g.Signature.Recv() != nil &&
								typeShort(h.Signature.Recv().Type()) == typeShort(g.Signature.Recv().Type()) && len(h.Blocks) > 0 {
								for i, arg := range x.Call.Args {
									if c.Term(arg).Key() == hvT.Key() && i < len(h.Params) {
										if raises(h, Root(h.Params[i].Name()), depth+1) == "" {
											ok = true
										}
									}
								}
							}
						case *ssa.Return:
							if !ok {
								bad = a.P.InstrPos(in)
							}
							return
						case *ssa.Panic:
							return
						}
					}
					ifi, isIf := b.Instrs[len(b.Instrs)-1].(*ssa.If)
					for si, sx := range b.Succs {
						ok2 := ok
						if isIf {
							// does taking this edge imply "the watermark is not older than the argument"? It does when the
							// condition, evaluated with "older" assumed true, is forced to the other truth value
							// (covers the bare test, named booleans, nil-guards joined with || / &&, inverted forms)
							t := unfreeze(c.Term(ifi.Cond))
							v := evalBool(t, func(at *Atom) bool {
								return at.Pred == "truth" && !at.Neg && len(at.Args) == 1 && at.Args[0].Key() == olderKey
							})
							if (si == 1 && v == 1) || (si == 0 && v == -1) {
								ok2 = true
							}
						}
						walk(sx, ok2)
					}
				}
				walk(g.Blocks[0], false)
				return bad
			}
			bad := raises(fn, hv, 0)
			r.Check("K2.always", props("C15"), "CancelOlderThan always leaves the watermark at or above its argument (also when nothing is registered): no context can afterwards be issued for a superseded position", "CancelOlderThan", a.P.Pos(fn.Pos()), bad == "",
				"a path reaches the return at "+bad+" without storing the watermark or finding it not older than the argument", "P")
		}
		// every cancel is followed by the delete of the same entry (in CancelOlderThan or the helper of the registry that does it)
		pairFns := []*ssa.Function{fn}
		for _, g := range a.calleesOf(fn) {
			if g.Signature.Recv() != nil && fn.Signature.Recv() != nil && typeShort(g.Signature.Recv().Type()) == typeShort(fn.Signature.Recv().Type()) {
				pairFns = append(pairFns, g)
			}
		}
		for _, pf := range pairFns {
			for _, b := range pf.Blocks {
				for _, in := range b.Instrs {
					call, ok := in.(*ssa.Call)
					if !ok || call.Call.StaticCallee() != nil || call.Call.IsInvoke() {
						continue
					}
					if _, isB := call.Call.Value.(*ssa.Builtin); isB {
						continue
					}
					okF := mustReach(call, func(i2 ssa.Instruction) bool {
						c2, ok := i2.(*ssa.Call)
						return ok && isBuiltin(c2, "delete")
					})
					// the loop continues: reaching the loop header again without a delete is a failure; approximate by same block
					sameBlock := false
					for _, i2 := range b.Instrs {
						if c2, ok := i2.(*ssa.Call); ok && isBuiltin(c2, "delete") {
							sameBlock = true
						}
					}
					r.Check("K2.pair", pr, "cancel and delete of a superseded context come together", "CancelOlderThan", a.P.InstrPos(in), okF || sameBlock, "cancel without delete", "P")
				}
			}
		}
	}
	// K4: Shutdown cancels the parent and sets the flag
	{
		id := "(*state.ViewContexts).Shutdown"
		effs, und := a.effectsOf(id, nil, false)
		r.Undecided = append(r.Undecided, und...)
		cancelled, flagged := false, false
		for _, e := range effs {
			if e.Kind == "call" && strings.HasPrefix(e.Name, "dyn:") && strings.Contains(e.Name, "cancel") {
				cancelled = true
			}
			if e.Kind == "store" && e.Name == "state.ViewContexts.shutdown" && e.Args[0].Key() == tTrue.Key() {
				flagged = true
			}
		}
		fn := a.P.Func(id)
		r.Check("K4", props("C15", "C16"), "Shutdown cancels the parent context (hence every issued context) and sets the terminal flag", "Shutdown", a.P.Pos(fn.Pos()), cancelled && flagged, fmtf("cancel parent=%v set flag=%v", cancelled, flagged), "A")
	}
	// K10: GcOldContexts uses (height, 0)
	{
		id := "(*state.State).GcOldContexts"
		effs, und := a.effectsOf(id, nil, false)
		r.Undecided = append(r.Undecided, und...)
		ok := false
		var got string
		for _, e := range effs {
			if e.Kind == "call" && e.Name == "state.CancelOlderThan" {
				hv := e.Args[1]
				got = PP(hv)
				if Field(hv, "height").Key() == Field(This("state.State"), "height").Key() && Field(hv, "view").Key() == Const("0").Key() {
					ok = true
				}
			}
		}
		fn := a.P.Func(id)
		r.Check("K10", pr, "the periodic garbage collection cancels only contexts of earlier heights: CancelOlderThan((current height, 0))", "GcOldContexts", a.P.Pos(fn.Pos()), ok, "argument "+got, "A")
	}
}

// ---------------------------------------------------------------- C13 / C10 state setters

func runStateSetters(a *Analyzer, r *Results) {
	st := This("state.State")
	h, v := Field(st, "height"), Field(st, "view")
	// H1: who may write
	for _, loc := range []string{"state.State.height", "state.State.view"} {
		var writers []string
		for _, f := range a.P.Funcs {
			if a.ownWrites[f][loc] {
				writers = append(writers, funcID(f))
			}
		}
		ok := true
		for _, w := range writers {
			if !strings.HasPrefix(w, "(*state.State).") && w != "state.NewState" {
				ok = false
			}
		}
		r.Check("H1", props("C13"), "the node's height and view are written only by methods of State", loc, "-", ok && len(writers) > 0, fmtf("writers: %v", writers), "W")
	}
	// H2: the unguarded setter has no caller in library scope
	if f := a.P.FuncOpt("(*state.State).SetHeightView"); f != nil {
		callers := a.staticCallers(f)
		r.Check("H2", props("C13"), "the unguarded SetHeightView has no caller in library code", "SetHeightView", a.P.Pos(f.Pos()), len(callers) == 0, fmtf("called by %v", funcIDs(callers)), "W")
	}
	// S6/S7: guards at the stores inside the setters
	for _, id := range []string{"(*state.State).SetView", "(*state.State).SetHeightAndResetView"} {
		fn := a.P.Func(id)
		arg := Root(fn.Params[1].Name())
		effs, und := a.effectsOf(id, nil, false)
		r.Undecided = append(r.Undecided, und...)
		nh, nv := 0, 0
		for _, e := range effs {
			if e.Kind != "store" {
				continue
			}
			ev := a.NewEval(e, r)
			switch e.Name {
			case "state.State.view":
				nv++
				if fn.Name() == "SetView" {
					ev.Require("S6", props("C10", "C13"), "SetView writes the view only when the new view is not below the current one, and writes exactly the argument", "", Le(v, arg))
					ev.Verdict("S6.value", props("C10", "C13"), "SetView stores its argument", "", ev.Arg(0).Key() == arg.Key(), "stores "+PP(ev.Arg(0)))
				} else {
					ev.Verdict("S7.reset", props("C13"), "the view is reset to 0 together with a height increase", "", ev.Arg(0).Key() == Const("0").Key(), "stores view "+PP(ev.Arg(0)))
				}
			case "state.State.height":
				if fn.Name() == "SetView" && (unfreeze(ev.Arg(0)).Key() == h.Key() || unsnap(ev.Arg(0)).Key() == h.Key()) {
					continue // writing the height back unchanged (a "store both fields" helper) is not a height write
				}
				nh++
				ev.Require("S7", props("C10", "C13", "C01"), "the height is written only when the new height is strictly above the current one", "", Lt(h, arg))
				ev.Verdict("S7.value", props("C13"), "SetHeightAndResetView stores its argument", "", ev.Arg(0).Key() == arg.Key(), "stores "+PP(ev.Arg(0)))
			}
		}
		if fn.Name() == "SetView" && (nv != 1 || nh != 0) {
			r.Check("S6.shape", props("C13"), "SetView writes the view once and never the height", "SetView", a.P.Pos(fn.Pos()), false, fmtf("view stores=%d height stores=%d", nv, nh), "A")
		}
		if fn.Name() == "SetHeightAndResetView" && (nv != 1 || nh != 1) {
			r.Check("S7.shape", props("C13"), "SetHeightAndResetView writes height and view once each, in one critical section", "SetHeightAndResetView", a.P.Pos(fn.Pos()), false, fmtf("view stores=%d height stores=%d", nv, nh), "A")
		}
		// S67.atomic: a setter that has written reports success - the callers treat an error as "the state did not move"
		{
			after := map[ssa.Instruction]bool{}
			for _, e := range effs {
				if e.Kind == "store" && (e.Name == "state.State.view" || e.Name == "state.State.height") {
					// the write itself, or the call in this setter through which a helper does the writing
					anchor := e.Instr
					if anchor.Parent() != fn {
						anchor = nil
						for _, fr := range e.Path {
							if fr.Call != nil && fr.Call.Parent() == fn {
								anchor = fr.Call
								break
							}
						}
						if anchor == nil {
							continue
						}
					}
					blk := anchor.Block()
					past := false
					for _, in := range blk.Instrs {
						if in == anchor {
							past = true
						}
						if past {
							after[in] = true
						}
					}
					for b := range reachableFrom(blk) {
						if b == blk {
							continue
						}
						for _, in := range b.Instrs {
							after[in] = true
						}
					}
				}
			}
			nRet := 0
			for _, e := range effs {
				if e.Kind != "return" || len(e.Args) != 2 || e.Instr.Parent() != fn || !after[e.Instr] {
					continue
				}
				nRet++
				ev := a.NewEval(e, r)
				ok := e.Args[1].Key() == tNil.Key() || ev.Same(e.Args[1], tNil)
				ev.Verdict("S67.atomic", props("C13", "C17", "C10", "C05"), "a state setter is all-or-nothing: once it has written the height or the view it returns success - its callers take an error to mean that the node's position did not change", "", ok, "after writing, "+shortName(fn)+" can return the error "+PP(e.Args[1]))
			}
			if nRet == 0 {
				r.Undecided = append(r.Undecided, id+": no return after the write found (S67.atomic)")
			}
		}
		// successful return carries the new position
		for _, e := range effs {
			if e.Kind == "return" && len(e.Args) == 2 && e.Args[1].Key() == tNil.Key() {
				ev := a.NewEval(e, r)
				hvT := ev.Arg(0)
				var ok bool
				if fn.Name() == "SetView" {
					ok = ev.Same(Field(hvT, "view"), arg) && ev.Same(Field(hvT, "height"), h)
				} else {
					ok = ev.Same(Field(hvT, "view"), Const("0")) && ev.Same(Field(hvT, "height"), arg)
				}
				ev.Verdict("S67.result", props("C13", "C05"), "a successful setter returns the position it has just written", "", ok, "returns "+PP(hvT))
			}
		}
	}
}

// ---------------------------------------------------------------- worker: new round, sync (C13 H6, C14 U1-U3)

func (ig *ingest) roundRules(e *Effect) {
	if e.Config != "" {
		return
	}
	a, k := ig.a, ig.k
	switch {
	case e.Kind == "call" && e.Name == "leanhelixterm.NewLeanHelixTerm":
		ev := a.NewEval(e, ig.r)
		// H6: only after a successful strict height increase to height(prev)+1, with a context issued for (that height, 0)
		ok := false
		why := "no successful SetHeightAndResetView(height(prevBlock)+1) precedes the term creation"
		for _, b := range ev.Find(ErrNil(Ext(1, Call("state.SetHeightAndResetView", k.State, Var("nh"))))) {
			nh := unfreeze(b["nh"])
			prev := unfreeze(ev.Arg(6))
			want := Bin("+", Call("blockheight.GetBlockHeight", prev), Const("1"))
			if nh.Key() == want.Key() {
				ok = true
			} else {
				why = "height set to " + PP(nh) + ", previous block is " + PP(prev)
			}
		}
		ev.Verdict("H6.height", props("C13"), "a new term is created only after the height was successfully and strictly increased to height(previous block)+1", "", ok, why)
		ctx := ev.Arg(0)
		okCtx := false
		if ctx.Op == "ext" && ctx.Name == "0" && ctx.Args[0].Op == "call" && ctx.Args[0].Name == "state.For" {
			hv := ctx.Args[0].Args[1]
			if unfreeze(Field(hv, "height")).Key() == Bin("+", Call("blockheight.GetBlockHeight", unfreeze(ev.Arg(6))), Const("1")).Key() && Field(hv, "view").Key() == Const("0").Key() && ev.Has(ErrNil(Ext(1, ctx.Args[0]))) != nil {
				okCtx = true
			}
		}
		ev.Verdict("H6.ctx", props("C13", "C15"), "a new round starts only with a context issued for (new height, 0) (a stale sync or commit cannot start a round)", "", okCtx, "context is "+PP(ctx))
	case e.Kind == "call" && e.VType == "interfaces.OnNewConsensusRoundCallback":
		ev := a.NewEval(e, ig.r)
		n := len(ev.Find(ErrNil(Ext(1, Call("state.SetHeightAndResetView", k.State, Var("nh"))))))
		if len(e.Args) == 4 {
			ctx := ev.Arg(0)
			okc := false
			if ctx.Op == "ext" && ctx.Name == "0" && ctx.Args[0].Op == "call" && ctx.Args[0].Name == "state.For" {
				hv := ctx.Args[0].Args[1]
				if (ev.Same(unfreeze(Field(hv, "height")), unfreeze(ev.Arg(1))) || ev.Same(Field(hv, "height"), ev.Arg(1))) && Field(hv, "view").Key() == Const("0").Key() && ev.Has(ErrNil(Ext(1, ctx.Args[0]))) != nil {
					okc = true
				}
			}
			ev.Verdict("K6.round", props("C15", "C13", "C16"), "the new-round callback gets the context issued for (the new height, 0)", "", okc, "context is "+PP(ctx)+", height argument is "+PP(ev.Arg(1)))
		}
		ev.Verdict("H6.cb", props("C13"), "the new-round callback runs only after a successful strict height increase", "", n > 0, "no successful SetHeightAndResetView on the path")
		okH := false
		for _, b := range ev.Find(ErrNil(Ext(1, Call("state.SetHeightAndResetView", k.State, Var("nh"))))) {
			if ev.Same(ev.Arg(1), b["nh"]) || ev.Same(ev.Arg(1), unfreeze(b["nh"])) {
				okH = true
			}
		}
		ev.Verdict("H6.cb.height", props("C13"), "the height reported to the new-round callback is the height this round has just set (not a later re-read that a nested round may already have advanced)", "", okH, "height argument is "+PP(ev.Arg(1)))
	case e.Kind == "call" && e.Entry == idE4 && len(e.Path) <= 3 && ig.startsRound(e) && ig.hasBlockAndFlagParams(e) && !pathHas(e, "onCommit"):
		// the call by which the sync handler starts a round (whatever it is called and however its arguments are
		// packed): the synced block is its interfaces.Block argument or the block field of its *blockWithProof
		// argument, canBeFirstLeader its bool argument
		ev := a.NewEval(e, ig.r)
		var blk, first *Term
		if ci, ok := e.Instr.(ssa.CallInstruction); ok {
			if sc := ci.Common().StaticCallee(); sc != nil {
				for i, p := range sc.Params {
					if i >= len(e.Args) {
						break
					}
					switch ts := typeShort(p.Type()); {
					case ts == "interfaces.Block":
						blk = ev.Arg(i)
					case ts == syncMsgType:
						blk = Field(ev.Arg(i), "block")
					case isBoolType(p.Type()):
						first = ev.Arg(i)
					}
				}
			}
		}
		if blk == nil || first == nil {
			ev.Verdict("U1", props("C14", "C13"), "a synced block starts a new round only if its height is at or above the current height", "", false, "cannot identify the synced block / first-leader flag among the arguments of "+e.Name)
			break
		}
		ev.Require("U1", props("C14", "C13", "C01", "C10"), "a synced block starts a new round only if its height is at or above the current height", "", Le(k.SHeight, Call("blockheight.GetBlockHeight", blk)))
		ev.Verdict("U2", props("C14"), "a round entered by sync never lets this node be the first leader", "", first.Key() == tFalse.Key(), "canBeFirstLeader argument is "+PP(first))
		// exactness: no stronger test on the accept path
		var extra []string
		for _, key := range ev.facts.SortedKeys() {
			f := ev.facts[key]
			if (f.Pred == "lt" || f.Pred == "eq") && strings.Contains(key, k.SHeight.Key()) && strings.Contains(key, "blockheight.GetBlockHeight") {
				extra = append(extra, PPAtom(f))
			}
		}
		// ... and the decision does not look at the view at all (a node that went through elections at this height
		// must still accept the block of its own height)
		for _, ct := range e.PathConds() {
			if u := unsnap(ct); u.ContainsKey(k.SView.Key()) {
				extra = append(extra, "depends on the current view: "+PP(u))
			}
		}
		// ... nor at anything else: the only inputs of the decision are the block's height and the node's height
		blockFields := map[string]bool{}
		if pkg := a.P.ByPath[modPath]; pkg != nil {
			if i := strings.LastIndex(syncMsgType, "."); i >= 0 {
				if tn, ok := pkg.Types.Scope().Lookup(syncMsgType[i+1:]).(*types.TypeName); ok {
					if st, ok := tn.Type().Underlying().(*types.Struct); ok {
						for i := 0; i < st.NumFields(); i++ {
							if typeShort(st.Field(i).Type()) == "interfaces.Block" {
								blockFields[st.Field(i).Name()] = true
							}
						}
					}
				}
			}
		}
		for _, ct := range e.PathConds() {
			u := unsnap(ct)
			bad := ""
			u.Walk(func(x *Term) {
				switch x.Op {
				case "call":
					if x.Name != "blockheight.GetBlockHeight" && x.Name != "interfaces.Height" && !strings.HasPrefix(x.Name, "primitives.") && a.calleeOf(x) == nil {
						bad = "calls " + x.Name
					}
				case "field":
					if len(x.Args) == 1 && x.Args[0].Op == "this" && x.Key() != k.SHeight.Key() && x.Key() != k.SView.Key() {
						bad = "reads " + PP(x)
					}
					if len(x.Args) == 1 && x.Args[0].Op == "root" && !blockFields[x.Name] {
						bad = "reads " + PP(x)
					}
				}
			})
			if bad != "" {
				extra = append(extra, "depends on something other than the two heights ("+bad+"): "+PP(u))
			}
		}
		extra = dedupSorted(extra)
		ev.Verdict("U1.exact", props("C14"), "the sync accept test is exactly height(block) >= current height (an equal height is accepted, whatever the current view)", "", len(extra) == 0, "stronger test on the accept path: "+strings.Join(extra, ", "))
	case e.Kind == "call" && e.Name == "interfaces.RequestNewBlockProposal" && e.Entry == idE4 && pathHas(e, "NewTermInCommittee"):
		// U3: on the sync path (canBeFirstLeader = false) a view-0 proposal is requested only at height <= 1
		ev := a.NewEval(e, ig.r)
		inElected := false
		for _, f := range e.Path {
			if strings.Contains(f.Fn, "HandleViewChange") || strings.Contains(f.Fn, "moveToNextLeader") {
				inElected = true
			}
		}
		if !inElected {
			ev.Require("U3", props("C14"), "after a sync the node does not propose in view 0 above height 1", "", Le(ev.Arg(2), Const("1")))
		}
	}
}

// U-sync: the handleUpdateState accept branch must exist (the call is made when the test passes)
func runSyncShape(a *Analyzer, r *Results) {
	// U9: the main loop reaches no blocking SPI method
	fn := a.P.Func(idMainRun)
	seen := map[*ssa.Function]bool{}
	var bad []string
	var visit func(f *ssa.Function, trail string)
	visit = func(f *ssa.Function, trail string) {
		if seen[f] || f.Blocks == nil || !inLibraryScope(funcPkgPath(f)) {
			return
		}
		seen[f] = true
		for _, b := range f.Blocks {
			for _, in := range b.Instrs {
				ci, ok := in.(ssa.CallInstruction)
				if !ok {
					continue
				}
				cc := ci.Common()
				if isLoggingCall(cc) {
					continue
				}
				if _, isDefer := in.(*ssa.Defer); isDefer && f == fn {
					continue // the deferred interrupt runs at exit
				}
				if cc.IsInvoke() {
					ts := typeShort(cc.Value.Type())
					blocking := false
					switch ts {
					case "interfaces.BlockUtils", "interfaces.KeyManager", "interfaces.Communication", "interfaces.Storage":
						blocking = true
					case "interfaces.Membership":
						blocking = cc.Method.Name() != "MyMemberId"
					}
					if blocking {
						bad = append(bad, trail+" -> "+funcID(f)+" calls "+ts+"."+cc.Method.Name()+" @"+a.P.InstrPos(in))
					}
					continue
				}
				if sc := cc.StaticCallee(); sc != nil {
					visit(sc, trail+" -> "+funcID(f))
					continue
				}
				ts := typeShort(cc.Value.Type())
				if ts == "interfaces.OnCommitCallback" || ts == "interfaces.OnNewConsensusRoundCallback" {
					bad = append(bad, trail+" -> "+funcID(f)+" calls consumer callback "+ts)
				}
				if n := a.P.VTA().Nodes[f]; n != nil {
					for _, e := range n.Out {
						if e.Site == ci {
							visit(e.Callee.Func, trail+" -> "+funcID(f))
						}
					}
				}
			}
		}
	}
	visit(fn, "")
	why := ""
	if len(bad) > 0 {
		why = bad[0]
	}
	r.Check("U9", props("C14", "C15"), "the main loop (which must stay responsive to cancel the worker) reaches no blocking SPI method or consumer callback", "MainLoop.run", a.P.Pos(fn.Pos()), len(bad) == 0, why, "W")
	r.Stats["U9.functions"] = len(seen)
}

// ---------------------------------------------------------------- main loop arms (K9, U4-U6), worker trigger forwarding (L6/T9)

func runLoops(a *Analyzer, r *Results) {
	k := a.Anchors()
	vc := k.VC
	// main loop
	effs, und := a.effectsOf(idMainRun, nil, true)
	r.Undecided = append(r.Undecided, und...)
	nEl, nSync := 0, 0
	isForward := func(e *Effect, elemType string) bool {
		// the forward to the worker: the function that sends on the worker's hand-off channel
		if e.Kind != "call" {
			return false
		}
		ci, ok := e.Instr.(ssa.CallInstruction)
		if !ok {
			return false
		}
		sc := ci.Common().StaticCallee()
		if sc == nil {
			return false
		}
		for _, b := range sc.Blocks {
			for _, in := range b.Instrs {
				if sel, ok := in.(*ssa.Select); ok {
					for _, st := range sel.States {
						if st.Dir == types.SendOnly && typeShort(st.Chan.Type().Underlying().(*types.Chan).Elem()) == elemType {
							return true
						}
					}
				}
			}
		}
		return false
	}
	// the forward to the worker is the send on the worker's hand-off channel, wherever it sits (in run itself or in a
	// helper: effects carry the facts of the whole call path, parameters are bound to the caller's argument terms)
	for _, e := range effs {
		if e.Kind != "send" {
			continue
		}
		switch e.VType {
		case "interfaces.ElectionTrigger":
			nEl++
			ev := a.NewEval(e, r)
			trig := ev.Arg(0)
			hv := Field(trig, "Hv")
			target := Struct("state.HeightView", []string{"height", "view"}, []*Term{Field(hv, "height"), Bin("+", Field(hv, "view"), Const("1"))})
			ev.Require("K9.election", props("C15", "C14", "C19", "C11", "C05"), "on an election trigger for (h,v) the main loop cancels everything older than (h,v+1) before forwarding, and forwards only if (h,v+1) is still issuable", "",
				Done(Call("state.CancelOlderThan", vc, target)), ErrNil(Ext(1, Call("state.For", vc, target))))
			// K9.exact: whether a trigger is forwarded depends on its (height, view) only through the registry's own
			// staleness test: no other comparison of the trigger's position drops it
			{
				hvK := hv.Key()
				var extra []string
				var check func(t *Term)
				check = func(t *Term) {
					if !t.ContainsKey(hvK) {
						return
					}
					switch {
					case t.Op == "and" || t.Op == "or" || (t.Op == "un" && t.Name == "!"):
						for _, x := range t.Args {
							check(x)
						}
						return
					}
					// the position may only flow into the registry calls (For / CancelOlderThan)
					masked := t
					okOnly := true
					masked.Walk(func(x *Term) {
						_ = x
					})
					var occ func(x *Term, inReg bool)
					occ = func(x *Term, inReg bool) {
						if x.Key() == hvK {
							if !inReg {
								okOnly = false
							}
							return
						}
						reg := inReg || (x.Op == "call" && (x.Name == "state.For" || x.Name == "state.CancelOlderThan"))
						for _, y := range x.Args {
							occ(y, reg)
						}
					}
					occ(t, false)
					if !okOnly {
						extra = append(extra, PP(t))
					}
				}
				for _, ct := range e.PathConds() {
					check(unsnap(ct))
				}
				extra = dedupSorted(extra)
				ev.Verdict("K9.exact", props("C15", "C05", "C19"), "an election trigger that reaches the main loop is dropped only when the context registry says its (height, view+1) is superseded: no other test of the trigger's position (remembered maxima, parity, ...) can swallow it, so the view it announces is always cancelled and the worker always hears about it", "",
					len(extra) == 0, "the path to the forward also tests the trigger's position: "+strings.Join(extra, "; "))
			}
		case syncMsgType:
			nSync++
			ev := a.NewEval(e, r)
			msg := ev.Arg(0)
			blk := Field(msg, "block")
			// height of the synced block: 0 for nil, block.Height() otherwise  (phi resolved by case split)
			okAny := false
			why := "no CancelOlderThan((height+1,0)) / For check before the forward"
			for _, b := range ev.Find(Done(Call("state.CancelOlderThan", vc, Var("hv")))) {
				hvT := b["hv"]
				hh := unfreeze(Field(hvT, "height"))
				okH := isSyncedHeightPlusOne(hh, blk)
				if okH && Field(hvT, "view").Key() == Const("0").Key() && ev.Has(ErrNil(Ext(1, Call("state.For", vc, hvT)))) != nil {
					okAny = true
				} else if !okAny {
					why = "cancel target is " + PP(hvT)
				}
			}
			ev.Verdict("U4", props("C14", "C15"), "on a sync to block height h the main loop cancels everything older than (h+1,0) before forwarding, and forwards only if (h+1,0) is still issuable", "", okAny, why)
		}
	}
	if nEl == 0 || nSync == 0 {
		r.Undecided = append(r.Undecided, fmtf("main loop: election forwards=%d sync forwards=%d (each expected >= 1)", nEl, nSync))
	}
	runSyncMark(a, r, func(call *ssa.Call) bool { return isForward(&Effect{Kind: "call", Instr: call}, syncMsgType) })
	// worker: election arm
	effs, und = a.effectsOf("(*leanhelix.WorkerLoop).Run", nil, false)
	r.Undecided = append(r.Undecided, und...)
	n := 0
	for _, e := range effs {
		if e.Kind == "call" && strings.HasPrefix(e.Name, "dyn:field:MoveToNextLeader") {
			n++
			ev := a.NewEval(e, r)
			var trig *Term
			fv := e.C.Term(e.Instr.(ssa.CallInstruction).Common().Value)
			if fv.Op == "field" {
				trig = fv.Args[0]
			}
			if trig == nil {
				ev.Verdict("T9", props("C19", "C05"), "the worker acts on an election trigger only if its (height, view) equals the current one", "", false, "cannot identify the trigger")
				continue
			}
			hv := Field(trig, "Hv")
			ev.Require("T9", props("C19", "C05", "C13"), "the worker acts on an election trigger only if its (height, view) equals the current one", "", Eq(Field(hv, "height"), k.SHeight), Eq(Field(hv, "view"), k.SView), Ne(trig, tNil))
		}
	}
	if n == 0 {
		r.Undecided = append(r.Undecided, "worker loop: no MoveToNextLeader invocation found")
	}
}

// ---------------------------------------------------------------- shutdown shape (C16 Z1-Z3, Z8) and timer (C19 T2-T8, C16 Z6-Z7)

func reachesMethod(a *Analyzer, f *ssa.Function, recvType, method string, seen map[*ssa.Function]bool) bool {
	if seen[f] || f.Blocks == nil {
		return false
	}
	seen[f] = true
	for _, b := range f.Blocks {
		for _, in := range b.Instrs {
			ci, ok := in.(ssa.CallInstruction)
			if !ok {
				continue
			}
			cc := ci.Common()
			if cc.IsInvoke() && cc.Method.Name() == method && typeShort(cc.Value.Type()) == recvType {
				return true
			}
		}
	}
	for _, g := range a.calleesOf(f) {
		if reachesMethod(a, g, recvType, method, seen) {
			return true
		}
	}
	return false
}

func callReaches(a *Analyzer, in ssa.Instruction, recvType, method string) bool {
	ci, ok := in.(ssa.CallInstruction)
	if !ok {
		return false
	}
	cc := ci.Common()
	if cc.IsInvoke() && cc.Method.Name() == method && typeShort(cc.Value.Type()) == recvType {
		return true
	}
	if sc := cc.StaticCallee(); sc != nil {
		return reachesMethod(a, sc, recvType, method, map[*ssa.Function]bool{})
	}
	if n := a.P.VTA().Nodes[in.Parent()]; n != nil {
		for _, e := range n.Out {
			if e.Site == ci && reachesMethod(a, e.Callee.Func, recvType, method, map[*ssa.Function]bool{}) {
				return true
			}
		}
	}
	return false
}

func runShutdown(a *Analyzer, r *Results) {
	// Z1/Z2: loops
	for _, id := range []string{"(*leanhelix.WorkerLoop).Run", idMainRun} {
		lb := a.loopBodyOf(id)
		fn := lb.body
		isWorker := id == "(*leanhelix.WorkerLoop).Run"
		nSel := 0
		for _, b := range fn.Blocks {
			for _, in := range b.Instrs {
				sel, ok := in.(*ssa.Select)
				if !ok {
					continue
				}
				// only the loop's top-level select (the one with >= 3 arms)
				if len(sel.States) < 3 {
					continue
				}
				nSel++
				doneIdx := -1
				for i, st := range sel.States {
					if st.Dir == types.RecvOnly && isCtxDone(st.Chan) {
						doneIdx = i
					}
				}
				r.Check("Z1.arm", props("C16"), "each event loop selects on the Run context's Done channel", shortName(fn), a.P.InstrPos(in), doneIdx >= 0 && sel.Blocking, "no ctx.Done() arm", "X")
				if doneIdx < 0 {
					continue
				}
				// the arm's block: successor chain where index == doneIdx ; check that it leaves the loop
				armBlk := selectArmBlock(sel, doneIdx)
				if armBlk == nil {
					r.Undecided = append(r.Undecided, id+": cannot locate the ctx.Done arm block")
					continue
				}
				li := a.Loops(fn)
				l := li.Innermost(sel.Block())
				leaves := false
				if lb.call != nil {
					// the select lives in the loop's step method: the arm hands back the value on which the caller's loop ends
					leaves = (l == nil || leavesLoop(armBlk, l, false)) && returnsOnly(armBlk, lb.exitVal)
				} else {
					leaves = l == nil || leavesLoop(armBlk, l, false) || leavesLoop(armBlk, l, true) // directly (return / break), or through the flag the loop condition tests
				}
				r.Check("Z1.exit", props("C16"), "the ctx.Done arm leaves the event loop", shortName(fn), a.P.InstrPos(in), leaves, "the ctx.Done arm continues the loop", "P")
				// Z1.only: nothing but cancellation ends an event loop: no other arm returns, breaks out or sets the loop's
				// exit flag (an error on some path must not take the whole node out of consensus)
				{
					whyOnly := ""
					inArm := func(b *ssa.BasicBlock) bool { return b == armBlk || armBlk.Dominates(b) }
					if l != nil {
						for b := range l.Body {
							if inArm(b) {
								continue
							}
							for si, sx := range b.Succs {
								_, panics := sx.Instrs[len(sx.Instrs)-1].(*ssa.Panic) // (the select's synthetic "no case matched")
								if !l.Body[sx] && !inArm(sx) && !panics && b != l.Header {
									_ = si
									whyOnly = "the loop is left from " + a.P.InstrPos(b.Instrs[len(b.Instrs)-1]) + ", outside the ctx.Done arm"
								}
							}
							if ret, isRet := b.Instrs[len(b.Instrs)-1].(*ssa.Return); isRet {
								if !(lb.call != nil && lb.stepContinues(ret)) {
									whyOnly = "return at " + a.P.InstrPos(ret) + " outside the ctx.Done arm"
								}
							}
						}
						// flag-controlled loop: the flag is set only in the ctx.Done arm
						if hdrIf, isIf := l.Header.Instrs[len(l.Header.Instrs)-1].(*ssa.If); isIf {
							if phi, isPhi := hdrIf.Cond.(*ssa.Phi); isPhi && phi.Block() == l.Header {
								exitOnTrue := !l.Body[l.Header.Succs[0]]
								for i, e := range phi.Edges {
									pred := l.Header.Preds[i]
									k, isK := e.(*ssa.Const)
									if !l.Body[pred] || !isK || k.Value == nil || k.Value.Kind() != constant.Bool {
										continue
									}
									if constant.BoolVal(k.Value) == exitOnTrue && !inArm(pred) {
										whyOnly = "the loop's exit flag is set at " + a.P.InstrPos(pred.Instrs[len(pred.Instrs)-1]) + ", outside the ctx.Done arm"
									}
								}
							}
						}
					} else if lb.call != nil {
						// step method: only the ctx.Done arm may hand back the "stop" value
						for _, b := range fn.Blocks {
							if ret, isRet := b.Instrs[len(b.Instrs)-1].(*ssa.Return); isRet && !inArm(b) && !lb.stepContinues(ret) {
								whyOnly = "the step method tells the loop to stop at " + a.P.InstrPos(ret) + ", outside the ctx.Done arm"
							}
						}
					}
					r.Check("Z1.only", props("C12", "C16", "C05"), "an event loop ends only through its ctx.Done arm: no other arm returns, breaks out of the loop or sets its exit flag (an error handled in the loop never stops the node)", shortName(fn), a.P.InstrPos(in), whyOnly == "", whyOnly, "P")
				}
				if isWorker {
					// Z2: on the way out the current term is disposed -> ElectionScheduler.Stop
					okStop := false
					seenB := map[*ssa.BasicBlock]bool{}
					var walk func(b *ssa.BasicBlock) bool
					walk = func(b *ssa.BasicBlock) bool {
						if seenB[b] {
							return true
						}
						seenB[b] = true
						for _, i2 := range b.Instrs {
							if callReaches(a, i2, "interfaces.ElectionScheduler", "Stop") {
								return true
							}
							if ret, isRet := i2.(*ssa.Return); isRet {
								return lb.stepContinues(ret) // the step method says "go on": the loop is not left
							}
							if _, isPanic := i2.(*ssa.Panic); isPanic {
								return true // does not return normally (e.g. the synthetic "select matched no case")
							}
						}
						// "no current term" needs no disposal: the edge on which the term pointer is nil is exempt
						skip := -1
						if ifi, isIf := b.Instrs[len(b.Instrs)-1].(*ssa.If); isIf {
							if bo, isBin := ifi.Cond.(*ssa.BinOp); isBin && (bo.Op == token.NEQ || bo.Op == token.EQL) {
								x, y := bo.X, bo.Y
								if c, isC := x.(*ssa.Const); isC && c.IsNil() {
									x, y = y, x
								}
								if c, isC := y.(*ssa.Const); isC && c.IsNil() && strings.Contains(typeShort(x.Type()), "LeanHelixTerm") {
									if bo.Op == token.NEQ {
										skip = 1
									} else {
										skip = 0
									}
								}
							}
						}
						for si, s := range b.Succs {
							if si == skip {
								continue
							}
							if !walk(s) {
								return false
							}
						}
						return len(b.Succs) > 0
					}
					okStop = walk(armBlk)
					// Z2.all: the same from every arm: whatever event makes the worker leave its loop, the term is disposed first
					seenB = map[*ssa.BasicBlock]bool{}
					okAll := true
					for _, sx := range sel.Block().Succs {
						if !seenB[sx] && !walk(sx) {
							okAll = false
						}
					}
					r.Check("Z2.all", props("C16"), "whichever arm of the worker's select leads out of the loop, the current term is disposed (election timer stopped) before the worker returns: no fast path leaves the loop with the timer armed", shortName(fn), a.P.InstrPos(in), okAll, "an arm of the worker's select can return without reaching ElectionScheduler.Stop", "P")
					r.Check("Z2", props("C16"), "on shutdown the worker disposes the current term, which stops the election timer, before returning", shortName(fn), a.P.InstrPos(in), okStop, "a path from the ctx.Done arm returns without reaching ElectionScheduler.Stop", "P")
				}
			}
		}
		if nSel != 1 {
			r.Undecided = append(r.Undecided, fmtf("%s: %d top-level selects found (1 expected)", id, nSel))
		}
	}
	// Dispose reaches Stop unconditionally
	{
		fn := a.P.Func("(*services/termincommittee.TermInCommittee).Dispose")
		ok := false
		why := "Dispose does not call ElectionScheduler.Stop in its entry block"
		if len(fn.Blocks) > 0 {
			for _, in := range fn.Blocks[0].Instrs {
				if callReaches(a, in, "interfaces.ElectionScheduler", "Stop") {
					ok = true
					break
				}
				// consumer code (storage, communication, ...) run before the timer is stopped can panic or block and
				// leave the timer armed
				if ci, isCall := in.(ssa.CallInstruction); isCall && !isLoggingCall(ci.Common()) {
					cc := ci.Common()
					if cc.IsInvoke() && strings.HasPrefix(typeShort(cc.Value.Type()), "interfaces.") && typeShort(cc.Value.Type()) != "interfaces.ElectionScheduler" {
						why = "Dispose calls " + typeShort(cc.Value.Type()) + "." + cc.Method.Name() + " (consumer code that may panic or block) before the election timer is stopped"
						break
					}
				}
			}
		}
		r.Check("Z2.dispose", props("C16"), "disposing a term stops the election timer unconditionally, before any other consumer code runs", "Dispose", a.P.Pos(fn.Pos()), ok, why, "P")
	}
	// Z3: the main loop's deferred interrupt is installed before anything else
	{
		fn := a.P.Func(idMainRun)
		ok := false
		for _, in := range fn.Blocks[0].Instrs {
			if d, isD := in.(*ssa.Defer); isD {
				if sc := d.Call.StaticCallee(); sc != nil && reachesFn(a, sc, "(*state.ViewContexts).Shutdown", map[*ssa.Function]bool{}) {
					// ... on every path of the deferred function: a conditional shutdown ("nothing is running, nothing to
					// release") leaves contexts that are handed out later un-cancelled
					ok = funcMustCall(a, sc, "(*state.ViewContexts).Shutdown", 0)
				}
				break
			}
			if c, isC := in.(*ssa.Call); isC && !isLoggingCall(&c.Call) {
				break
			}
		}
		r.Check("Z3", props("C16", "C15"), "leaving the main loop (normally or by panic) shuts the context registry down: the deferred interrupt is the first thing installed", "MainLoop.run", a.P.Pos(fn.Pos()), ok, "no deferred call reaching ViewContexts.Shutdown at the top of the main loop", "P")
	}
	// Z8: public API selects have ctx.Done
	for _, id := range []string{"(*leanhelix.MainLoop).UpdateState", "(*leanhelix.MainLoop).HandleConsensusMessage"} {
		fn := a.P.Func(id)
		ok := false
		// (the select may sit in a helper of the main loop that the API method calls)
		z8fns := []*ssa.Function{fn}
		for _, g := range a.calleesOf(fn) {
			if g.Signature.Recv() != nil && fn.Signature.Recv() != nil && typeShort(g.Signature.Recv().Type()) == typeShort(fn.Signature.Recv().Type()) {
				z8fns = append(z8fns, g)
			}
		}
		bare := false
		for _, zf := range z8fns {
			for _, b := range zf.Blocks {
				for _, in := range b.Instrs {
					if sel, isSel := in.(*ssa.Select); isSel {
						for _, st := range sel.States {
							if st.Dir == types.RecvOnly && isCtxDone(st.Chan) {
								ok = true
							}
						}
					}
					if _, isSend := in.(*ssa.Send); isSend {
						bare = true
					}
				}
			}
		}
		if bare {
			ok = false
		}
		r.Check("Z8", props("C16", "C14"), "the public API hands its input to the main loop in a select with the caller's ctx.Done() (it cannot block forever)", shortName(fn), a.P.Pos(fn.Pos()), ok, "no select with ctx.Done()", "X")
	}
}

// funcMustCall: every path through f (entry to return) calls the target function, directly or through a callee that must.
func funcMustCall(a *Analyzer, f *ssa.Function, target string, depth int) bool {
	if funcID(f) == target {
		return true
	}
	if len(f.Blocks) == 0 || depth > 4 {
		return false
	}
	seen := map[*ssa.BasicBlock]bool{f.Blocks[0]: true}
	var walk func(b *ssa.BasicBlock) bool
	walk = func(b *ssa.BasicBlock) bool {
		for _, in := range b.Instrs {
			if ci, ok := in.(ssa.CallInstruction); ok {
				if _, isGo := in.(*ssa.Go); !isGo {
					if sc := ci.Common().StaticCallee(); sc != nil && funcMustCall(a, sc, target, depth+1) {
						return true
					}
				}
			}
			switch in.(type) {
			case *ssa.Return:
				return false
			case *ssa.Panic:
				return true
			}
		}
		for _, s2 := range b.Succs {
			if seen[s2] {
				continue
			}
			seen[s2] = true
			if !walk(s2) {
				return false
			}
		}
		return true
	}
	return walk(f.Blocks[0])
}

func reachesFn(a *Analyzer, f *ssa.Function, target string, seen map[*ssa.Function]bool) bool {
	if funcID(f) == target {
		return true
	}
	if seen[f] {
		return false
	}
	seen[f] = true
	for _, g := range a.calleesOf(f) {
		if reachesFn(a, g, target, seen) {
			return true
		}
	}
	return false
}

// selectArmBlock: the block executed when the select's chosen index equals idx.
// cancelProbe: g is `select { case <-param: return true; default: return false }`; returns the parameter index.
func cancelProbe(g *ssa.Function) (int, bool) {
	if g == nil || g.Blocks == nil {
		return 0, false
	}
	var sel *ssa.Select
	for _, b := range g.Blocks {
		for _, in := range b.Instrs {
			if s, ok := in.(*ssa.Select); ok {
				if sel != nil {
					return 0, false
				}
				sel = s
			}
		}
	}
	if sel == nil || sel.Blocking || len(sel.States) != 1 || sel.States[0].Dir != types.RecvOnly || !isStructChan(sel.States[0].Chan) {
		return 0, false
	}
	pidx := -1
	for i, p := range g.Params {
		if ssa.Value(p) == sel.States[0].Chan {
			pidx = i
		}
	}
	arm := selectArmBlock(sel, 0)
	if pidx < 0 || arm == nil {
		return 0, false
	}
	reach := reachableFrom(arm)
	nRet := 0
	for _, b := range g.Blocks {
		ret, ok := b.Instrs[len(b.Instrs)-1].(*ssa.Return)
		if !ok {
			continue
		}
		nRet++
		if len(ret.Results) != 1 {
			return 0, false
		}
		k, ok := ret.Results[0].(*ssa.Const)
		if !ok || k.Value == nil || k.Value.Kind() != constant.Bool {
			return 0, false
		}
		if constant.BoolVal(k.Value) != reach[b] {
			return 0, false
		}
	}
	return pidx, nRet >= 2
}

// sameCancelChan: the probe's only receive is on the channel of the send select's cancel arm.
func sameCancelChan(probe, send *ssa.Select) bool {
	for _, st := range send.States {
		if st.Dir == types.RecvOnly && isStructChan(st.Chan) && probe.States[0].Dir == types.RecvOnly && sameChanValue(probe.States[0].Chan, st.Chan) {
			return true
		}
	}
	return false
}

func reachableFrom(from *ssa.BasicBlock) map[*ssa.BasicBlock]bool {
	reach := map[*ssa.BasicBlock]bool{}
	stack := []*ssa.BasicBlock{from}
	for len(stack) > 0 {
		n := stack[len(stack)-1]
		stack = stack[:len(stack)-1]
		if reach[n] {
			continue
		}
		reach[n] = true
		stack = append(stack, n.Succs...)
	}
	return reach
}

// probeGuardsSend: an If on a cancel probe of the send's own cancel channel dominates the send, and its "cancelled"
// branch never reaches the send.
func probeGuardsSend(te *ssa.Function, send *ssa.Select) bool {
	var cancelCh ssa.Value
	for _, st := range send.States {
		if st.Dir == types.RecvOnly && isStructChan(st.Chan) {
			cancelCh = st.Chan
		}
	}
	if cancelCh == nil {
		return false
	}
	for _, b := range te.Blocks {
		ifi, ok := b.Instrs[len(b.Instrs)-1].(*ssa.If)
		if !ok || !b.Dominates(send.Block()) || b == send.Block() {
			continue
		}
		cond, neg := ifi.Cond, false
		if u, ok := cond.(*ssa.UnOp); ok && u.Op == token.NOT {
			cond, neg = u.X, true
		}
		call, ok := cond.(*ssa.Call)
		if !ok {
			continue
		}
		pidx, ok := cancelProbe(call.Call.StaticCallee())
		if !ok || pidx >= len(call.Call.Args) || call.Call.Args[pidx] != cancelCh {
			continue
		}
		cancelled := b.Succs[0]
		if neg {
			cancelled = b.Succs[1]
		}
		if !reachableFrom(cancelled)[send.Block()] {
			return true
		}
	}
	return false
}

func selectArmBlock(sel *ssa.Select, idx int) *ssa.BasicBlock {
	var index ssa.Value
	for _, ref := range *sel.Referrers() {
		if ex, ok := ref.(*ssa.Extract); ok && ex.Index == 0 {
			index = ex
		}
	}
	if index == nil {
		return nil
	}
	for _, ref := range *index.Referrers() {
		bo, ok := ref.(*ssa.BinOp)
		if !ok || bo.Op != token.EQL || !isConstInt(bo.Y, int64(idx)) {
			continue
		}
		for _, r2 := range *bo.Referrers() {
			if ifi, ok := r2.(*ssa.If); ok {
				return ifi.Block().Succs[0]
			}
		}
	}
	return nil
}

// leavesLoop: from blk every path reaches a function exit or a block outside the loop without returning to the header.
// viaFlag: the main loop leaves through `shutdown = true` and the loop condition `for !shutdown`.
func leavesLoop(blk *ssa.BasicBlock, l *Loop, viaFlag bool) bool {
	seen := map[*ssa.BasicBlock]bool{}
	var walk func(b *ssa.BasicBlock) bool
	walk = func(b *ssa.BasicBlock) bool {
		if !l.Body[b] {
			return true
		}
		if b == l.Header {
			return viaFlag // re-evaluates the loop condition; accepted only for the flag-controlled loop (checked below)
		}
		if seen[b] {
			return true
		}
		seen[b] = true
		if len(b.Succs) == 0 {
			return true
		}
		for _, s := range b.Succs {
			if !walk(s) {
				return false
			}
		}
		return true
	}
	if !walk(blk) {
		return false
	}
	if viaFlag {
		// the arm must store true into the variable tested by the loop header's condition
		hdrIf, ok := l.Header.Instrs[len(l.Header.Instrs)-1].(*ssa.If)
		if !ok {
			return false
		}
		phi, ok := hdrIf.Cond.(*ssa.Phi)
		if !ok {
			return false
		}
		for i, e := range phi.Edges {
			pred := l.Header.Preds[i]
			if pred == blk || blk.Dominates(pred) {
				if k, ok := e.(*ssa.Const); ok && k.Value != nil && constTerm(k).Key() == tTrue.Key() {
					// header: if shutdown goto done else body
					return !l.Body[l.Header.Succs[0]]
				}
			}
		}
		return false
	}
	return true
}

// ---------------------------------------------------------------- timer registration (C19 T2-T8, C16 Z6, Z7)

func runTimer(a *Analyzer, r *Results) {
	pr := props("C19")
	trg := This("Electiontrigger.TimerBasedElectionTrigger")
	reg := a.P.Func("(*services/electiontrigger.TimerBasedElectionTrigger).RegisterOnElection")
	effs, und := a.effectsOf(funcID(reg), nil, false)
	r.Undecided = append(r.Undecided, und...)
	hArg, vArg := Root(reg.Params[1].Name()), Root(reg.Params[2].Name())
	var afterFunc *Effect
	stopSeen := false
	nSkip := 0
	for _, e := range effs {
		// the arming sequence may sit in RegisterOnElection itself or in unexported helpers it calls (effects carry the
		// facts of the whole call path); what Stop() does inside is judged by the Stop rules
		inStop := false
		for _, pe := range e.Path[1:] {
			if strings.HasSuffix(pe.Fn, ".Stop") {
				inStop = true
			}
		}
		if inStop || (e.Kind == "return" && len(e.Path) != 1) {
			continue
		}
		ev := a.NewEval(e, r)
		switch {
		case e.Kind == "return":
			// T3.exact: leaving without arming happens only for the identical registration
			if len(ev.Find(Done(Call("time.AfterFunc", Var("d"), Var("f"))))) == 0 {
				nSkip++
				ev.Require("T3.exact", pr, "a registration is skipped (no timer armed) only when exactly this (height, view) is already armed: a request for any other pair re-arms the timer", "",
					Ne(Field(trg, "electionHandler"), tNil), Eq(Field(trg, "view"), vArg), Eq(Field(trg, "blockHeight"), hArg))
			}
		case e.Kind == "call" && e.Name == "Electiontrigger.Stop":
			stopSeen = true
		case e.Kind == "call" && e.Name == "time.AfterFunc":
			afterFunc = e
			ev.Require("T4", props("C19", "C16"), "the previous timer is stopped before a new one is armed", "", Done(Call("Electiontrigger.Stop", trg)))
			ev.Verdict("T1.arg", props("C19", "C12"), "the timer is armed with CalcTimeout(view) of the registered view", "", ev.Arg(0).Key() == Call("Electiontrigger.CalcTimeout", trg, vArg).Key(), "duration is "+PP(ev.Arg(0)))
			// T3: not reached for an identical registration
			ev.RequireAny("T3", pr, "re-registering the armed (height, view) is a no-op (the running timer is not restarted)", "",
				[]*Atom{Eq(Field(trg, "electionHandler"), tNil)}, []*Atom{Ne(Field(trg, "view"), vArg)}, []*Atom{Ne(Field(trg, "blockHeight"), hArg)})
			// T5/T6: the closure captures a fresh cancel channel and the registration's own (h, v)
			cl := ev.Arg(1)
			okCl := cl.Op == "closure"
			fresh, hvOK := false, true
			if okCl {
				for _, b := range cl.Args {
					// a channel made by this registration, captured directly or inside a per-registration record
					if b.Contains(func(t *Term) bool { return t.Op == "make" }) {
						fresh = true
					}
					if b.Contains(func(t *Term) bool {
						return t.Op == "field" && len(t.Args) == 1 && t.Args[0].Key() == trg.Key() && (t.Name == "view" || t.Name == "blockHeight" || t.Name == "triggerCancelled")
					}) {
						hvOK = false
					}
				}
			}
			ev.Verdict("T5", props("C19", "C16"), "each registration creates a fresh cancel channel that the timer callback captures", "", okCl && fresh, "closure bindings: "+PP(cl))
			ev.Verdict("T6", pr, "the timer callback carries the registration's own (height, view) parameters, not the trigger's mutable fields", "", okCl && hvOK, "closure bindings: "+PP(cl))
		case e.Kind == "store" && e.Name == "Electiontrigger.TimerBasedElectionTrigger.triggerCancelled":
			ev.Verdict("T5.store", props("C19", "C16"), "the cancel channel stored for Stop is the fresh one of this registration", "", ev.Arg(0).Op == "make", "stores "+PP(ev.Arg(0)))
		}
	}
	if afterFunc == nil || !stopSeen {
		r.Undecided = append(r.Undecided, "RegisterOnElection: AfterFunc / Stop call not found (anchor)")
	}
	if nSkip == 0 {
		r.Undecided = append(r.Undecided, "RegisterOnElection: no return that skips arming found (T3.exact anchor)")
	}
	// T2: registration under the lock
	okLock := false
	for _, in := range reg.Blocks[0].Instrs {
		if c, ok := in.(*ssa.Call); ok {
			if sc := c.Call.StaticCallee(); sc != nil && sc.Name() == "Lock" && funcPkgPath(sc) == "sync" {
				okLock = true
			}
		}
	}
	r.Check("T2", pr, "registration runs under the trigger's lock", "RegisterOnElection", a.P.Pos(reg.Pos()), okLock, "no Lock at the top", "L")

	// Z7 / T8: Stop clears the handler; closes the cancel channel iff the timer had already fired
	stop := a.P.Func("(*services/electiontrigger.TimerBasedElectionTrigger).Stop")
	seffs, und2 := a.effectsOf(funcID(stop), nil, false)
	r.Undecided = append(r.Undecided, und2...)
	cleared, closedOK, nClose := false, false, 0
	for _, e := range seffs {
		if e.Kind == "store" && e.Name == "Electiontrigger.TimerBasedElectionTrigger.electionHandler" && e.Args[0].Key() == tNil.Key() {
			cleared = true
		}
	}
	{
		cx := a.NewFCtx(stop, a.EntryEnv(stop, nil), 0)
		fl := a.NewFlow(cx, nil)
		tm := Field(trg, "timer")
		guardedAt := func(in ssa.Instruction) bool {
			facts := fl.At(in)
			return facts != nil && facts.Has(NotA(Truth(Call("time.Stop", tm)))) != nil && facts.Has(Ne(tm, tNil)) != nil
		}
		for _, b := range stop.Blocks {
			for _, in := range b.Instrs {
				c, ok := in.(*ssa.Call)
				if !ok {
					continue
				}
				if isBuiltin(c, "close") {
					nClose++
					if cx.Term(c.Call.Args[0]).Key() == Field(trg, "triggerCancelled").Key() && guardedAt(in) {
						closedOK = true
					}
					continue
				}
				// the close moved into a helper of the trigger: it must be the helper's unconditional first action, and the
				// call must be guarded as the close itself would be
				g := c.Call.StaticCallee()
				if g == nil || len(g.Blocks) == 0 || g.Signature.Recv() == nil || typeShort(g.Signature.Recv().Type()) != typeShort(stop.Signature.Recv().Type()) {
					continue
				}
				gx := a.NewFCtx(g, a.EntryEnv(g, nil), 0)
				for _, gb := range g.Blocks {
					for _, gi := range gb.Instrs {
						gc, isC := gi.(*ssa.Call)
						if !isC || !isBuiltin(gc, "close") {
							continue
						}
						nClose++
						if gb == g.Blocks[0] && gx.Term(gc.Call.Args[0]).Key() == Field(trg, "triggerCancelled").Key() && guardedAt(in) {
							closedOK = true
						}
					}
				}
			}
		}
	}
	r.Check("T8.clear", props("C19", "C16"), "Stop clears the registered handler", "Stop", a.P.Pos(stop.Pos()), cleared, "electionHandler is not reset", "A")
	r.Check("Z7", props("C16", "C19"), "Stop closes the pending trigger's cancel channel exactly when the timer had already fired (timer.Stop() == false), so an expired timer's goroutine is released and a stale trigger is not delivered", "Stop", a.P.Pos(stop.Pos()), closedOK && nClose == 1, fmtf("close sites=%d guarded by !timer.Stop()=%v", nClose, closedOK), "A")
	// every path of Stop with a non-nil timer calls timer.Stop()
	// Z6 / T7: the trigger send
	// the function that runs on the timer goroutine and offers the trigger is found by what it does: it is reached from the
	// function handed to time.AfterFunc and sends an ElectionTrigger (walk through the spawned closure, values only)
	var sendEffs []*Effect
	{
		var timerWrites []*Effect
		w := a.NewWalker(func(e *Effect) {
			if e.Kind == "send" && e.VType == "interfaces.ElectionTrigger" {
				sendEffs = append(sendEffs, e)
			}
			onTimer := false
			for _, fr := range e.Path {
				if strings.HasSuffix(fr.Site, "(timer)") {
					onTimer = true
				}
			}
			if onTimer && (e.Kind == "store" || e.Kind == "mapupdate") && strings.Contains(e.Name, "TimerBasedElectionTrigger.") {
				timerWrites = append(timerWrites, e)
			}
		})
		w.DescendSpawn = true
		w.Run(reg, nil, nil)
		r.Undecided = append(r.Undecided, w.Undecided...)
		// T12: the registration state (timer handle, cancel channel, handler, armed pair) belongs to the worker side
		// (RegisterOnElection / Stop): the timer goroutine only reads what it captured and never writes it back -
		// an expired callback must not be able to wipe or overwrite the registration that replaced it
		t12 := "the expiring timer's goroutine never writes the trigger's registration state (timer handle, cancel channel, handler, armed height/view): only RegisterOnElection and Stop do, so a late callback cannot wipe the registration that replaced it"
		if len(timerWrites) == 0 {
			r.Check("T12", props("C19", "C16"), t12, "none", a.P.Pos(reg.Pos()), true, "", "W")
		}
		for _, e := range timerWrites {
			r.Check("T12", props("C19", "C16"), t12, e.Name, e.Pos(a), false, "the timer callback stores into "+e.Name+" ("+e.PathString()+")", "W")
		}
	}
	if len(sendEffs) == 0 {
		r.Undecided = append(r.Undecided, "election trigger: no send of an ElectionTrigger reachable from the timer callback (anchor)")
	}
	seenTe := map[*ssa.Function]bool{}
	for _, se := range sendEffs {
		te := se.Instr.Parent()
		teName := shortName(te)
		// T6.hv: the value sent is built from the registration's own (height, view)
		v := se.Args[0]
		hv := Field(v, "Hv")
		okHv := unfreeze(Field(hv, "height")).Key() == hArg.Key() && unfreeze(Field(hv, "view")).Key() == vArg.Key()
		r.Check("T6.hv", props("C19"), "the trigger carries exactly the (height, view) it was armed for", teName, a.P.InstrPos(se.Instr), okHv, "trigger is "+PP(v), "A")
		if seenTe[te] {
			continue
		}
		seenTe[te] = true
		var sends []*ssa.Select
		pre := false
		for _, b := range te.Blocks {
			for _, in := range b.Instrs {
				if sel, ok := in.(*ssa.Select); ok {
					hasSend, hasCancelArm := false, false
					for _, st := range sel.States {
						if st.Dir == types.SendOnly {
							hasSend = true
						}
						if st.Dir == types.RecvOnly && isStructChan(st.Chan) {
							hasCancelArm = true
						}
					}
					if hasSend {
						sends = append(sends, sel)
						r.Check("Z6", props("C16", "C19"), "the timer goroutine's send of the trigger is a blocking select against the registration's cancel channel (it is abandoned when the registration is stopped or replaced)", teName, a.P.InstrPos(in), sel.Blocking && hasCancelArm && len(sel.States) == 2, "send select lacks the cancel arm or has a default", "X")
					} else if hasCancelArm && !sel.Blocking {
						pre = true
					}
				}
			}
		}
		// the pre-check must dominate the send and return when cancelled
		okPre := false
		if pre && len(sends) == 1 {
			for _, b := range te.Blocks {
				for _, in := range b.Instrs {
					if sel, ok := in.(*ssa.Select); ok && !sel.Blocking && sel.Block().Dominates(sends[0].Block()) && len(sel.States) == 1 && sameCancelChan(sel, sends[0]) {
						arm := selectArmBlock(sel, 0)
						if arm != nil {
							// the cancelled arm returns without reaching the send
							reach := map[*ssa.BasicBlock]bool{}
							stack := []*ssa.BasicBlock{arm}
							for len(stack) > 0 {
								n := stack[len(stack)-1]
								stack = stack[:len(stack)-1]
								if reach[n] {
									continue
								}
								reach[n] = true
								stack = append(stack, n.Succs...)
							}
							if !reach[sends[0].Block()] {
								okPre = true
							}
						}
					}
				}
			}
		}
		if !okPre && len(sends) == 1 {
			// the same check behind a boolean probe: if cancelled(ch) { return }
			okPre = probeGuardsSend(te, sends[0])
		}
		r.Check("T7", props("C19"), "before sending, the timer goroutine checks the cancel channel without blocking and gives up if the registration was already cancelled (a trigger of a stopped or replaced registration is not delivered even when a reader is waiting)", teName, a.P.Pos(te.Pos()), okPre, "no dominating non-blocking cancel check that skips the send", "X")
	}
	// T11: RegisterOnElection / Stop are called from the worker side only (never from the main loop or the timer goroutine)
	for _, m := range []string{"RegisterOnElection", "Stop"} {
		var callers []string
		for _, f := range a.P.Funcs {
			for _, b := range f.Blocks {
				for _, in := range b.Instrs {
					if ci, ok := in.(ssa.CallInstruction); ok {
						cc := ci.Common()
						if cc.IsInvoke() && cc.Method.Name() == m && typeShort(cc.Value.Type()) == "interfaces.ElectionScheduler" {
							callers = append(callers, funcID(f))
						}
					}
				}
			}
		}
		callers = dedupSorted(callers)
		ok := len(callers) > 0
		for _, c := range callers {
			if !strings.Contains(c, "termincommittee.TermInCommittee") {
				ok = false
			}
		}
		r.Check("T11", props("C19", "C16", "C14"), "the election scheduler is armed and stopped only by the term (worker goroutine), never by the main loop or the timer goroutine", m, "-", ok, fmtf("callers: %v", callers), "W")
	}
}

// evalConcrete evaluates a term built from integer leaves, comparisons and boolean connectives.
func evalConcrete(t *Term, env map[string]int) (int, bool) {
	if v, ok := env[t.Key()]; ok {
		return v, true
	}
	b2i := func(b bool) int {
		if b {
			return 1
		}
		return 0
	}
	switch t.Op {
	case "const":
		switch t.Name {
		case "true":
			return 1, true
		case "false":
			return 0, true
		}
		if n, err := strconv.Atoi(t.Name); err == nil {
			return n, true // (also negative constants: a three-way compare helper returning -1 / 0 / 1)
		}
		return 0, false
	case "un":
		if t.Name == "!" {
			v, ok := evalConcrete(t.Args[0], env)
			return b2i(v == 0), ok
		}
	case "and":
		res := 1
		for _, x := range t.Args {
			v, ok := evalConcrete(x, env)
			if !ok {
				return 0, false
			}
			if v == 0 {
				res = 0
			}
		}
		return res, true
	case "or":
		res := 0
		for _, x := range t.Args {
			v, ok := evalConcrete(x, env)
			if !ok {
				return 0, false
			}
			if v != 0 {
				res = 1
			}
		}
		return res, true
	case "ite":
		c, ok := evalConcrete(t.Args[0], env)
		if !ok {
			return 0, false
		}
		if c != 0 {
			return evalConcrete(t.Args[1], env)
		}
		return evalConcrete(t.Args[2], env)
	case "bin":
		x, ok1 := evalConcrete(t.Args[0], env)
		y, ok2 := evalConcrete(t.Args[1], env)
		if !ok1 || !ok2 {
			return 0, false
		}
		switch t.Name {
		case "<":
			return b2i(x < y), true
		case "<=":
			return b2i(x <= y), true
		case "==":
			return b2i(x == y), true
		}
	}
	return 0, false
}

// isSyncedHeightPlusOne: t == height(block)+1 where height(block) is 0 for a nil block and block.Height() otherwise, in
// any of the forms the builder produces: resolved per case split (Height(b)+1, 0+1, 1) or as one conditional value
// (a helper or a local that computes "0 if nil else Height()").
func isSyncedHeightPlusOne(t, blk *Term) bool {
	hOf := Call("interfaces.Height", blk)
	if t.Key() == Const("1").Key() {
		return true
	}
	var rest *Term
	if t.Op == "bin" && t.Name == "+" && len(t.Args) == 2 {
		switch {
		case t.Args[0].Key() == Const("1").Key():
			rest = t.Args[1]
		case t.Args[1].Key() == Const("1").Key():
			rest = t.Args[0]
		}
	}
	if rest == nil {
		return false
	}
	rest = unfreeze(rest)
	if rest.Key() == hOf.Key() || rest.Key() == Const("0").Key() {
		return true
	}
	// the library's own "height of a possibly nil block" helper (H0.height decides that it is exactly that)
	if rest.Key() == Call("blockheight.GetBlockHeight", blk).Key() {
		return true
	}
	if rest.Op == "ite" && len(rest.Args) == 3 {
		c, x, y := rest.Args[0], rest.Args[1], rest.Args[2]
		isNilTest := func(c *Term) (bool, bool) { // (is a nil test of blk, polarity: true = "blk == nil")
			neg := false
			for c.Op == "un" && c.Name == "!" && len(c.Args) == 1 {
				c, neg = c.Args[0], !neg
			}
			if c.Op == "bin" && (c.Name == "==" || c.Name == "!=") && len(c.Args) == 2 {
				l, r := unfreeze(c.Args[0]), unfreeze(c.Args[1])
				if (l.Key() == blk.Key() && r.Key() == tNil.Key()) || (r.Key() == blk.Key() && l.Key() == tNil.Key()) {
					pol := c.Name == "=="
					if neg {
						pol = !pol
					}
					return true, pol
				}
			}
			return false, false
		}
		if ok, isNil := isNilTest(c); ok {
			if isNil {
				return x.Key() == Const("0").Key() && unfreeze(y).Key() == hOf.Key()
			}
			return y.Key() == Const("0").Key() && unfreeze(x).Key() == hOf.Key()
		}
	}
	return false
}

// startsRound: the effect is a static call of a library function from which the term constructor is reachable.
func (ig *ingest) startsRound(e *Effect) bool {
	ci, ok := e.Instr.(ssa.CallInstruction)
	if !ok {
		return false
	}
	sc := ci.Common().StaticCallee()
	if sc == nil || !ig.a.P.IsLib(sc) || funcPkgPath(sc) != modPath {
		return false
	}
	return reachesFn(ig.a, sc, "services/leanhelixterm.NewLeanHelixTerm", map[*ssa.Function]bool{})
}

// sameChanValue: the same SSA value, or two loads of the same field of the same (unwritten in between is not needed:
// the field is a channel fixed at construction of a per-registration object) base, or of the same parameter.
func sameChanValue(x, y ssa.Value) bool {
	if x == y {
		return true
	}
	ux, ok1 := x.(*ssa.UnOp)
	uy, ok2 := y.(*ssa.UnOp)
	if ok1 && ok2 && ux.Op == token.MUL && uy.Op == token.MUL {
		fx, ok3 := ux.X.(*ssa.FieldAddr)
		fy, ok4 := uy.X.(*ssa.FieldAddr)
		if ok3 && ok4 && fx.Field == fy.Field && fx.X == fy.X {
			// no store to that field in the function
			for _, b := range fx.Parent().Blocks {
				for _, in := range b.Instrs {
					if st, isSt := in.(*ssa.Store); isSt {
						if fa, isFA := st.Addr.(*ssa.FieldAddr); isFA && fa.Field == fx.Field && fa.X == fx.X {
							return false
						}
					}
				}
			}
			return true
		}
	}
	return false
}

// hasBlockAndFlagParams: the called function takes the synced block (or the hand-off message carrying it) and a bool.
func (ig *ingest) hasBlockAndFlagParams(e *Effect) bool {
	ci, ok := e.Instr.(ssa.CallInstruction)
	if !ok {
		return false
	}
	sc := ci.Common().StaticCallee()
	if sc == nil {
		return false
	}
	if !blockAndFlagParams(sc) {
		return false
	}
	// the outermost such call only: a round starter split in two passes block and flag on to its second half, where the
	// state has already moved
	for _, fr := range e.Path[1:] {
		if g := ig.a.P.FuncByID[fr.Fn]; g != nil && blockAndFlagParams(g) {
			return false
		}
	}
	return true
}

func blockAndFlagParams(sc *ssa.Function) bool {
	hasBlk, hasFlag := false, false
	for _, p := range sc.Params {
		switch ts := typeShort(p.Type()); {
		case ts == "interfaces.Block" || ts == syncMsgType:
			hasBlk = true
		case isBoolType(p.Type()):
			hasFlag = true
		}
	}
	return hasBlk && hasFlag
}
