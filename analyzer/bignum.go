package main

import (
	"math/big"
)

func parseBig(s string) (*big.Rat, bool) {
	r := new(big.Rat)
	if _, ok := r.SetString(s); ok {
		return r, true
	}
	f, _, err := big.ParseFloat(s, 10, 200, big.ToNearestEven)
	if err != nil {
		return nil, false
	}
	rr, _ := f.Rat(nil)
	return rr, rr != nil
}
