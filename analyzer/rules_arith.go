package main

import (
	"go/token"
	"go/types"
	"strings"

	"golang.org/x/tools/go/ssa"
)

// Engine N: arithmetic normal forms and type-flow rules (DESIGN §2.11) for C06, C18, C19.

func (a *Analyzer) Returns(id string, roots map[string]*Term, assume ...*Atom) ([]*Effect, []string) {
	fn := a.P.Func(id)
	var out []*Effect
	w := a.NewWalker(func(e *Effect) {
		if e.Kind == "return" {
			out = append(out, e)
		}
	})
	w.Assume = assume
	w.Run(fn, roots, nil)
	return out, w.Undecided
}

// ReturnsSplit: like Returns, with automatic case splits (return sites of helpers explored one by one).
func (a *Analyzer) ReturnsSplit(id string, roots map[string]*Term, assume ...*Atom) ([]*Effect, []string) {
	fn := a.P.Func(id)
	var out []*Effect
	w := a.NewWalker(func(e *Effect) {
		if e.Kind == "return" && e.Instr.Parent() == fn {
			out = append(out, e)
		}
	})
	w.Assume = assume
	w.AutoSplit = true
	w.Run(fn, roots, nil)
	return out, w.Undecided
}

func basicOf(t types.Type) *types.Basic {
	b, _ := t.Underlying().(*types.Basic)
	return b
}

func isFloat(t types.Type) bool {
	b := basicOf(t)
	return b != nil && b.Info()&types.IsFloat != 0
}

func isUnsignedInt(t types.Type) bool {
	b := basicOf(t)
	return b != nil && b.Info()&types.IsUnsigned != 0
}

func isInt(t types.Type) bool {
	b := basicOf(t)
	return b != nil && b.Info()&types.IsInteger != 0
}

func runC06(a *Analyzer, r *Results) {
	pr := props("C06", "C01", "C02", "C03", "C04", "C07", "C10")
	pkgPath := modPath + "/services/quorum"
	if a.P.ByPath[pkgPath] == nil {
		broken("unresolved anchor: package services/quorum")
	}
	// Q1: no floating point and no narrowing / sign-changing conversion anywhere in the quorum package
	nfuncs := 0
	for _, f := range a.P.Funcs {
		if funcPkgPath(f) != pkgPath || f.Name() == "init" {
			continue
		}
		nfuncs++
		okFloat, okConv := true, true
		var siteF, siteC, whatC string
		for _, b := range f.Blocks {
			for _, in := range b.Instrs {
				if v, ok := in.(ssa.Value); ok && isFloat(v.Type()) {
					okFloat = false
					siteF = a.P.InstrPos(in)
				}
				if cv, ok := in.(*ssa.Convert); ok {
					from, to := cv.X.Type(), cv.Type()
					if isFloat(from) || isFloat(to) {
						okFloat = false
						siteF = a.P.InstrPos(in)
						continue
					}
					if isInt(from) && isInt(to) {
						narrowing := a.P.Sizes.Sizeof(to) < a.P.Sizes.Sizeof(from)
						if narrowing && isUnsignedInt(from) && isUnsignedInt(to) && a.P.Sizes.Sizeof(types.Typ[types.Uint]) < 8 {
							// 32-bit target: uint is narrower than MemberWeight; the property's premise (total fits the
							// accumulator) then has to be read for 32 bits - recorded as an assumption, not an alarm
							r.Stats["C06.assumption_uint_is_32_bit"] = 1
							continue
						}
						if !(isUnsignedInt(from) && isUnsignedInt(to) && !narrowing) {
							okConv = false
							siteC = a.P.InstrPos(in)
							whatC = from.String() + " -> " + to.String()
						}
					}
				}
			}
		}
		r.Check("Q1.float", pr, "no floating-point value on the data path from the weights to the thresholds", shortName(f), orPos(siteF, a.P.Pos(f.Pos())), okFloat, "floating-point value in "+funcID(f), "N")
		r.Check("Q1.conv", pr, "every integer conversion in the quorum arithmetic is unsigned and non-narrowing", shortName(f), orPos(siteC, a.P.Pos(f.Pos())), okConv, "conversion "+whatC, "N")
	}
	r.Stats["C06.functions"] = nfuncs

	W := Root("committeeWeights")
	S := T("sum", "", W, bound, tTrue)
	fForm := Bin("/", Bin("-", S, Const("1")), Const("3"))
	qForm := Bin("-", S, fForm)
	checkCalc := func(rule, id string, zeroVals []*Term, form *Term, text string) {
		rets, und := a.Returns(id, map[string]*Term{})
		r.Undecided = append(r.Undecided, und...)
		fn := a.P.Func(id)
		if len(fn.Params) != 1 {
			broken("unresolved anchor: %s no longer has one parameter", id)
		}
		// rename the root after the actual parameter name
		subst := map[string]*Term{Root(fn.Params[0].Name()).Key(): W}
		if len(rets) == 0 {
			r.Undecided = append(r.Undecided, id+" has no return")
		}
		for _, e := range rets {
			ev := a.NewEval(e, r)
			val := ev.Arg(0).Subst(subst)
			facts := Facts{}
			for _, f := range ev.facts {
				facts.Add(f.Subst(subst))
			}
			// the total is an unsigned sum: `S > 0` / `S >= 1` say "not zero", their negations say "zero"
			zero := Const("0")
			if facts.Has(Lt(zero, S)) != nil || facts.Has(Le(Const("1"), S)) != nil {
				facts.Add(Ne(S, zero))
			}
			if facts.Has(Le(S, zero)) != nil || facts.Has(NotA(Lt(zero, S))) != nil || facts.Has(Lt(S, Const("1"))) != nil {
				facts.Add(Eq(S, zero))
			}
			ok := false
			why := "returns " + PP(val)
			if facts.Has(Eq(S, Const("0"))) != nil {
				for _, z := range zeroVals {
					if val.Key() == z.Key() {
						ok = true
					}
				}
				why += " on the total-weight-zero path"
			} else if facts.Has(Ne(S, Const("0"))) != nil {
				ok = val.Key() == form.Key()
				why += " on the total-weight-nonzero path, expected " + PP(form)
			} else if val.Op == "ite" && len(val.Args) == 3 {
				// the case distinction is part of the returned value (a helper computes "0 when the total is 0, else ..."):
				// ite(S == 0, zero value, form) in either orientation
				c, x, y := val.Args[0], val.Args[1], val.Args[2]
				neg := false
				for c.Op == "un" && c.Name == "!" && len(c.Args) == 1 {
					c, neg = c.Args[0], !neg
				}
				isZeroTest := c.Op == "bin" && (c.Name == "==" || c.Name == "!=") && len(c.Args) == 2 &&
					((c.Args[0].Key() == S.Key() && c.Args[1].Key() == Const("0").Key()) || (c.Args[1].Key() == S.Key() && c.Args[0].Key() == Const("0").Key()))
				if isZeroTest {
					if c.Name == "!=" {
						neg = !neg
					}
					zv, nz := x, y
					if neg {
						zv, nz = y, x
					}
					for _, z := range zeroVals {
						if zv.Key() == z.Key() && nz.Key() == form.Key() {
							ok = true
						}
					}
				}
				why += ", expected " + PP(form) + " unless the total weight is 0"
			} else {
				why += " on a path that does not test the total weight against 0"
			}
			ev.Verdict(rule, pr, text, "", ok, why)
		}
	}
	checkCalc("Q2.f", "services/quorum.CalcByzMaxWeight", []*Term{Const("0"), S}, fForm, "CalcByzMaxWeight == (S==0 ? 0 : floor((S-1)/3)) with S the sum of all weights, in unsigned integers")
	checkCalc("Q2.q", "services/quorum.CalcQuorumWeight", []*Term{Const("1")}, qForm, "CalcQuorumWeight == (S==0 ? 1 : S - floor((S-1)/3)) with S the sum of all weights, in unsigned integers")

	// Q3: subset weight shape (A)
	{
		id := "services/quorum.getCommitteeSubsetWeight"
		fn := a.P.FuncOpt(id)
		if fn == nil {
			// the helper may have been renamed: find the callee of IsQuorum that takes (subset, committee)
			for _, f := range a.P.Funcs {
				if funcPkgPath(f) == pkgPath && len(f.Params) == 2 && isCommitteeSlice(f.Params[1].Type()) && f.Signature.Results().Len() == 1 && isInt(f.Signature.Results().At(0).Type()) {
					fn = f
					id = funcID(f)
				}
			}
		}
		subIdx, cmtIdx := 0, 1
		if fn == nil {
			// ... or a method of a committee type taking the subset (receiver = committee, in either parameter order)
			for _, f := range a.P.Funcs {
				if funcPkgPath(f) != pkgPath || len(f.Params) != 2 || f.Signature.Results().Len() != 1 || !isInt(f.Signature.Results().At(0).Type()) {
					continue
				}
				ci, si := -1, -1
				for i, p := range f.Params {
					if isCommitteeSlice(p.Type()) {
						ci = i
					} else if sl, ok := p.Type().Underlying().(*types.Slice); ok && strings.HasSuffix(typeShort(sl.Elem()), "MemberId") {
						si = i
					}
				}
				if ci >= 0 && si >= 0 {
					fn, id, subIdx, cmtIdx = f, funcID(f), si, ci
				}
			}
		}
		if fn == nil {
			broken("unresolved anchor: subset weight function of services/quorum")
		}
		rets, und := a.Returns(id, nil)
		r.Undecided = append(r.Undecided, und...)
		sub := Root(fn.Params[subIdx].Name())
		cmt := Root(fn.Params[cmtIdx].Name())
		for _, e := range rets {
			ev := a.NewEval(e, r)
			val := ev.Arg(0)
			ok, why := subsetWeightShape(a, fn, val, sub, cmt)
			ev.Verdict("Q3", pr, "subset weight adds each committee member's weight at most once, only for members whose id is in the subset (set built injectively from the subset ids)", "", ok, why)
		}
	}
	// Q4: thresholds
	{
		sub, cmt := Root("committeeSubset"), Root("allCommitteeMembers")
		w := func() *Term { return nil }
		_ = w
		for _, c := range []struct {
			rule, id, calc, op, text string
		}{
			{"Q4.quorum", "services/quorum.IsQuorum", "quorum.CalcQuorumWeight", "<=", "IsQuorum == (subset weight >= Q) with weight and Q computed from the same committee"},
			{"Q4.honest", "services/quorum.HasHonest", "quorum.CalcByzMaxWeight", "<", "HasHonest == (subset weight > f) with weight and f computed from the same committee"},
		} {
			fn := a.P.Func(c.id)
			if len(fn.Params) != 2 {
				broken("unresolved anchor: %s no longer has two parameters", c.id)
			}
			subst := map[string]*Term{Root(fn.Params[0].Name()).Key(): sub, Root(fn.Params[1].Name()).Key(): cmt}
			rets, und := a.Returns(c.id, nil)
			r.Undecided = append(r.Undecided, und...)
			for _, e := range rets {
				ev := a.NewEval(e, r)
				val := ev.Arg(0).Subst(subst)
				ok := false
				why := "returns " + PP(val)
				if val.Op == "bin" && val.Name == c.op && len(val.Args) == 2 {
					th, wt := val.Args[0], val.Args[1]
					okT := th.Op == "call" && th.Name == c.calc && len(th.Args) == 1 && isWeightsOf(a, th.Args[0], cmt)
					if !okT {
						// the threshold computed in place from the committee's total weight (no call of the exported helper)
						okT = isThresholdFormula(th, cmt, c.rule == "Q4.quorum")
					}
					okW := wt.Op == "call" && len(wt.Args) == 2 && strings.HasPrefix(wt.Name, "quorum.") &&
						((wt.Args[0].Key() == sub.Key() && wt.Args[1].Key() == cmt.Key()) || (wt.Args[1].Key() == sub.Key() && wt.Args[0].Key() == cmt.Key())) // (a method of a committee type has the committee first)
					ok = okT && okW
					if !okT {
						why += "; threshold is not " + c.calc + "(weights of the committee argument)"
					}
					if !okW {
						why += "; weight is not the subset weight of (subset, committee)"
					}
				}
				ev.Verdict(c.rule, pr, c.text, "", ok, why)
			}
		}
	}
}

func orPos(a, b string) string {
	if a != "" {
		return a
	}
	return b
}

// isWeightsOf: t denotes map(cmt, e.Weight)
func isWeightsOf(a *Analyzer, t *Term, cmt *Term) bool {
	want := T("map", "", cmt, Field(bound, "Weight"))
	if t.Key() == want.Key() {
		return true
	}
	if t.Op == "call" && len(t.Args) == 1 && t.Args[0].Key() == cmt.Key() {
		// a named helper: its return term must be the map
		for _, f := range a.funcsByShort()[t.Name] {
			if len(f.Params) != 1 {
				continue
			}
			rets, _ := a.Returns(funcID(f), nil)
			all := len(rets) > 0
			for _, e := range rets {
				got := e.Args[0].Subst(map[string]*Term{Root(f.Params[0].Name()).Key(): cmt})
				if got.Key() != want.Key() {
					all = false
				}
			}
			if all {
				return true
			}
		}
	}
	return false
}

func injectiveKey(t *Term) (fn string, arg *Term, ok bool) {
	if t.Op == "call" && len(t.Args) == 1 && (t.Name == "primitives.String" || t.Name == "primitives.KeyForMap") {
		return t.Name, t.Args[0], true
	}
	// plain conversion string(id) is transparent
	return "", t, true
}

func subsetWeightShape(a *Analyzer, fn *ssa.Function, val, sub, cmt *Term) (bool, string) {
	if val.Op != "sum" || len(val.Args) != 3 {
		return false, "result is not a guarded sum over a loop: " + PP(val)
	}
	if val.Args[0].Key() != cmt.Key() {
		return false, "the sum does not iterate the committee argument: iterates " + PP(val.Args[0])
	}
	if val.Args[1].Key() != Field(bound, "Weight").Key() {
		return false, "the summand is not the member's Weight: " + PP(val.Args[1])
	}
	g := val.Args[2]
	if (g.Op != "lookup" && g.Op != "haskey") || len(g.Args) != 2 || g.Args[0].Op != "make" {
		return false, "the guard is not a lookup in a locally built set: " + PP(g)
	}
	kfn, karg, _ := injectiveKey(g.Args[1])
	if karg.Key() != Field(bound, "Id").Key() {
		return false, "the guard does not look up the member's Id: " + PP(g.Args[1])
	}
	// every update of the set: key = same injective function of an element of the subset, value true
	var mm *ssa.MakeMap
	for _, b := range fn.Blocks {
		for _, in := range b.Instrs {
			if m, ok := in.(*ssa.MakeMap); ok && T("make", funcID(fn)+"#"+m.Name()).Key() == g.Args[0].Key() {
				mm = m
			}
		}
	}
	if mm == nil {
		return false, "cannot find the set allocation"
	}
	c := a.NewFCtx(fn, a.EntryEnv(fn, nil), 0)
	n := 0
	for _, ref := range *mm.Referrers() {
		mu, ok := ref.(*ssa.MapUpdate)
		if !ok {
			if _, isLookup := ref.(*ssa.Lookup); isLookup {
				continue
			}
			if _, isDbg := ref.(*ssa.DebugRef); isDbg {
				continue
			}
			return false, "the set escapes or is used by " + ref.String()
		}
		n++
		// membership tested by the stored value needs every stored value to be true; the comma-ok form tests presence
		if g.Op == "lookup" && c.Term(mu.Value).Key() != tTrue.Key() {
			return false, "a set entry is written with a non-true value at " + a.P.InstrPos(mu)
		}
		k := c.Term(mu.Key)
		kf2, ka2, _ := injectiveKey(k)
		if kf2 != kfn {
			return false, "set keys are built with " + kf2 + " but looked up with " + kfn
		}
		if ka2.Op != "elem" || len(ka2.Args) != 1 || ka2.Args[0].Key() != sub.Key() {
			return false, "a set key is not derived from an element of the subset argument: " + PP(k)
		}
	}
	if n == 0 {
		return false, "the set is never filled"
	}
	return true, ""
}

// ---------------------------------------------------------------- C18

func runC18(a *Analyzer, r *Results) {
	pr := props("C18", "C12")
	k := a.Anchors()
	fns := k.leaderFns
	r.Check("I4.single", pr, "exactly one library function indexes a []CommitteeMember with a computed index (the leader function)", "leader-functions", a.P.Pos(a.P.Func("services/termincommittee.NewTermInCommittee").Pos()),
		len(fns) == 1, fmtf("%d functions index a committee slice with a computed index: %v", len(fns), funcIDs(fns)), "W")
	for _, f := range fns {
		for _, b := range f.Blocks {
			for _, in := range b.Instrs {
				var base, idx ssa.Value
				switch x := in.(type) {
				case *ssa.IndexAddr:
					base, idx = x.X, x.Index
				case *ssa.Index:
					base, idx = x.X, x.Index
				default:
					continue
				}
				if !isCommitteeSlice(base.Type()) {
					continue
				}
				if _, isConst := idx.(*ssa.Const); isConst {
					continue
				}
				ok, why := leaderIndexForm(a, f, base, idx)
				r.Check("I1", pr, "leader index == int(uint64(view) % uint64(len(members))) computed in unsigned 64-bit arithmetic on the indexed slice, with no narrowing or sign-changing conversion of the view before the remainder", shortName(f), a.P.InstrPos(in), ok, why, "N")
			}
		}
	}
	// I3.inplace: the order of a committee is its leader schedule: no library function reorders or overwrites the elements
	// of a committee slice it did not allocate itself
	nMut := 0
	for _, f := range a.P.Funcs {
		for _, b := range f.Blocks {
			for _, in := range b.Instrs {
				var target ssa.Value
				what := ""
				switch x := in.(type) {
				case *ssa.Store:
					addr := x.Addr
					if fa, ok := addr.(*ssa.FieldAddr); ok {
						addr = fa.X
					}
					if ia, ok := addr.(*ssa.IndexAddr); ok && isCommitteeSlice(ia.X.Type()) {
						target, what = ia.X, "element store"
					}
				case *ssa.Call:
					cc := &x.Call
					if bi, ok := cc.Value.(*ssa.Builtin); ok && bi.Name() == "copy" && isCommitteeSlice(cc.Args[0].Type()) {
						target, what = cc.Args[0], "copy into"
					}
					// append over a shortened view of somebody else's slice (the `s[:0]` filter-in-place idiom): the
					// appended elements overwrite the owner's elements
					if bi, ok := cc.Value.(*ssa.Builtin); ok && bi.Name() == "append" && isCommitteeSlice(cc.Args[0].Type()) {
						base := cc.Args[0]
						seenPhi := map[ssa.Value]bool{}
						for steps := 0; steps < 8 && base != nil; steps++ {
							if sl, isSl := base.(*ssa.Slice); isSl {
								if sl.High != nil {
									target, what = sl.X, "append over a shortened view (s[:k]) of"
								}
								break
							}
							ph, isPhi := base.(*ssa.Phi)
							if !isPhi || seenPhi[ph] {
								break
							}
							seenPhi[ph] = true
							var next ssa.Value
							for _, e := range ph.Edges {
								if c2, isCall := e.(*ssa.Call); isCall && isBuiltin(c2, "append") {
									continue
								}
								if e != ssa.Value(ph) {
									next = e
								}
							}
							base = next
						}
					}
					if g := cc.StaticCallee(); g != nil && (funcPkgPath(g) == "sort" || funcPkgPath(g) == "slices" || funcPkgPath(g) == "math/rand") && mutatesSlice(g.Name()) {
						for _, arg := range cc.Args {
							v := arg
							if mi, ok := v.(*ssa.MakeInterface); ok {
								v = mi.X
							}
							if isCommitteeSlice(v.Type()) {
								target, what = v, g.String()
							}
						}
					}
				}
				if target == nil {
					continue
				}
				nMut++
				r.Check("I3.inplace", props("C18", "C12", "C02", "C06", "C01"), "a committee slice is reordered or overwritten in place only by the function that allocated it (the order of the committee is the leader schedule every node must agree on)", shortName(f), a.P.InstrPos(in), freshAddr(target),
					what+" on a committee slice this function did not allocate", "W")
			}
		}
	}
	if nMut == 0 {
		r.Check("I3.inplace", props("C18", "C12", "C02", "C06", "C01"), "a committee slice is reordered or overwritten in place only by the function that allocated it (the order of the committee is the leader schedule every node must agree on)", "none", a.P.Pos(a.P.Func("services/termincommittee.NewTermInCommittee").Pos()), true, "", "W")
	}
	// I3: committee written only by the constructor, after a positive size guard
	loc := "termincommittee.TermInCommittee.committeeMembers"
	nStores := 0
	for _, f := range a.P.Funcs {
		for _, b := range f.Blocks {
			for _, in := range b.Instrs {
				st, ok := in.(*ssa.Store)
				if !ok || a.addrLoc(st.Addr) != loc {
					continue
				}
				nStores++
				c := a.NewFCtx(f, a.EntryEnv(f, nil), 0)
				fl := a.NewFlow(c, nil)
				facts, _ := a.Normalize(fl.At(in))
				val := c.Term(st.Val)
				ok2 := false
				var guard string
				for _, key := range facts.SortedKeys() {
					ft := facts[key]
					if ft.Pred == "le" && ft.Args[0].Op == "const" && ft.Args[1].Key() == Len(val).Key() {
						if n := atoi(ft.Args[0].Name); n >= 1 {
							ok2 = true
							guard = ft.Site
						}
					}
					if ft.Pred == "lt" && ft.Args[0].Op == "const" && ft.Args[1].Key() == Len(val).Key() {
						if n := atoi(ft.Args[0].Name); n >= 0 {
							ok2 = true
							guard = ft.Site
						}
					}
				}
				isCtor := strings.HasPrefix(f.Name(), "New") && f.Signature.Recv() == nil
				o := r.Check("I3", pr, "the term's committee is written only by the constructor and only after a size guard len >= k > 0 whose failing edge does not return normally", shortName(f), a.P.InstrPos(in),
					ok2 && isCtor, fmtf("store in %s; size guard found=%v constructor=%v", funcID(f), ok2, isCtor), "A")
				if guard != "" {
					o.Guards = []string{guard}
				}
			}
		}
	}
	if nStores == 0 {
		r.Undecided = append(r.Undecided, "no store to TermInCommittee.committeeMembers found")
	}
	// I4: the leader closure handed to the proof validator is the leader function
	n := 0
	for _, f := range a.P.Funcs {
		for _, b := range f.Blocks {
			for _, in := range b.Instrs {
				call, ok := in.(*ssa.Call)
				if !ok {
					continue
				}
				callee := call.Call.StaticCallee()
				if callee == nil || funcID(callee) != idProof {
					continue
				}
				n++
				c := a.NewFCtx(f, a.EntryEnv(f, nil), 0)
				lt := c.Term(call.Call.Args[5])
				if lt.Contains(func(t *Term) bool { return t.Op == "root" }) {
					continue // handed through from a caller: judged on the call paths (ingest, same rule id)
				}
				ig := &ingest{a: a, k: k, r: r}
				r.Check("I4.closure", pr, "the leader function handed to ValidatePreparedProof is LeaderOf over the term's committee", shortName(f), a.P.InstrPos(in), ig.isLeaderClosure(lt), "argument is "+PP(lt), "A")
			}
		}
	}
	if n == 0 {
		r.Undecided = append(r.Undecided, "no call of ValidatePreparedProof found in library scope")
	}
}

func funcIDs(fs []*ssa.Function) []string {
	var out []string
	for _, f := range fs {
		out = append(out, funcID(f))
	}
	return out
}

// leaderIndexForm: idx == Convert(int <- REM(U(view), U(len(base)))) (or REM directly on unsigned operands)
func leaderIndexForm(a *Analyzer, f *ssa.Function, base, idx ssa.Value) (bool, string) {
	v := idx
	// strip the final conversion to int
	if cv, ok := v.(*ssa.Convert); ok {
		if !isInt(cv.Type()) {
			return false, "index converted to a non-integer type"
		}
		v = cv.X
	}
	rem, ok := v.(*ssa.BinOp)
	if !ok || rem.Op != token.REM {
		return false, "index is not a remainder: " + v.String()
	}
	if !isUnsignedInt(rem.X.Type()) || a.P.Sizes.Sizeof(rem.X.Type()) != 8 {
		return false, "the remainder is computed in " + rem.X.Type().String() + " (must be an unsigned 64-bit type): negative or truncated for large views"
	}
	// left operand: the view parameter through unsigned 64-bit conversions only
	x := rem.X
	for {
		cv, ok := x.(*ssa.Convert)
		if !ok {
			if ct, ok2 := x.(*ssa.ChangeType); ok2 {
				x = ct.X
				continue
			}
			break
		}
		if !isUnsignedInt(cv.X.Type()) || a.P.Sizes.Sizeof(cv.X.Type()) != 8 {
			return false, "the view passes through " + cv.X.Type().String() + " before the remainder"
		}
		x = cv.X
	}
	p, ok := x.(*ssa.Parameter)
	if !ok || typeShort(p.Type()) != "primitives.View" {
		return false, "the dividend is not the view parameter: " + x.String()
	}
	// right operand: len(base) converted to unsigned
	y := rem.Y
	for {
		cv, ok := y.(*ssa.Convert)
		if !ok {
			break
		}
		y = cv.X
	}
	lc, ok := y.(*ssa.Call)
	if !ok || !isBuiltin(lc, "len") {
		return false, "the divisor is not len(...) of the committee: " + y.String()
	}
	if lc.Call.Args[0] != base {
		return false, "the divisor measures a different slice than the one indexed"
	}
	return true, ""
}

// ---------------------------------------------------------------- C19 T1 (timeout formula)

func runC19formula(a *Analyzer, r *Results) {
	pr := props("C19")
	id := "(*services/electiontrigger.TimerBasedElectionTrigger).CalcTimeout"
	fn := a.P.Func(id)
	c := a.NewFCtx(fn, a.EntryEnv(fn, nil), 0)
	fl := a.NewFlow(c, nil)
	view := Root("view")
	tainted := func(v ssa.Value) bool {
		return c.Term(v).Contains(func(t *Term) bool { return t.Key() == view.Key() })
	}
	nSinks := 0
	for _, b := range fn.Blocks {
		for _, in := range b.Instrs {
			switch x := in.(type) {
			case *ssa.Convert:
				if isFloat(x.X.Type()) && isInt(x.Type()) && tainted(x.X) {
					nSinks++
					facts := fl.At(in)
					xt := c.Term(x.X)
					okBound, okNaN := false, false
					var guards []string
					if facts != nil {
						for _, key := range facts.SortedKeys() {
							ft := facts[key]
							if ft.Pred == "lt" && ft.Args[0].Key() == xt.Key() && ft.Args[1].Op == "const" {
								if constLE(ft.Args[1].Name, "9223372036854775808") {
									okBound = true
									guards = append(guards, ft.Site)
								}
							}
							if ft.Pred == "truth" && ft.Neg && ft.Args[0].Op == "call" && ft.Args[0].Name == "math.IsNaN" && ft.Args[0].Args[0].Key() == xt.Key() {
								okNaN = true
								guards = append(guards, ft.Site)
							}
						}
					}
					o := r.Check("T1.convert", pr, "every float-to-integer conversion of a view-derived value is dominated by an upper-bound test (< 2^63) and a NaN test of the same value", shortName(fn), a.P.InstrPos(in),
						okBound && okNaN, fmtf("upper bound guard=%v NaN guard=%v for %s", okBound, okNaN, PP(xt)), "N")
					o.Guards = guards
				}
			case *ssa.BinOp:
				if (x.Op == token.MUL || x.Op == token.SHL) && isInt(x.Type()) && (tainted(x.X) || tainted(x.Y)) {
					nSinks++
					r.Check("T1.intmul", pr, "no integer multiplication or shift is fed by a view-derived value (it would wrap for large views)", shortName(fn), a.P.InstrPos(in), false,
						"integer "+x.Op.String()+" of a view-derived value: "+PP(c.Term(x)), "N")
				}
			}
		}
	}
	if nSinks == 0 {
		// no integer sink at all: the formula must still mention the view
		r.Check("T1.convert", pr, "every float-to-integer conversion of a view-derived value is dominated by an upper-bound test (< 2^63) and a NaN test of the same value", shortName(fn), a.P.Pos(fn.Pos()), true, "", "N")
	}
	// returns: the saturated edge returns a positive constant; the computed edge returns base * 2^view
	base := Field(This("Electiontrigger.TimerBasedElectionTrigger"), "minTimeout")
	expBase := T("global", "Electiontrigger.TIMEOUT_EXP_BASE")
	want1 := Bin("*", Call("math.Pow", expBase, view), base)
	want2 := Bin("*", Call("math.Pow", Const("2"), view), base)
	for _, b := range fn.Blocks {
		ret, ok := b.Instrs[len(b.Instrs)-1].(*ssa.Return)
		if !ok || fl.In[b] == nil || len(ret.Results) != 1 {
			continue
		}
		val := c.Term(ret.Results[0])
		why := "returns " + PP(val)
		// (a helper computing "saturated ? max : base * 2^view" shows up as a conditional value: every case is judged)
		var leafOK func(v *Term) bool
		leafOK = func(v *Term) bool {
			if v.Op == "ite" && len(v.Args) == 3 {
				return leafOK(v.Args[1]) && leafOK(v.Args[2])
			}
			if v.Op == "const" {
				if strings.HasPrefix(v.Name, "-") || v.Name == "0" {
					why += " (saturated value must be positive)"
					return false
				}
				return true
			}
			return v.Key() == want1.Key() || v.Key() == want2.Key()
		}
		ok2 := leafOK(val)
		r.Check("T1.value", props("C19", "C05", "C18", "C12"), "CalcTimeout returns minTimeout * 2^view, or a positive constant on the saturated path", shortName(fn), a.P.InstrPos(ret), ok2, why, "N")
	}
	// the exponent base is the constant 2 and nobody writes it
	okBase := true
	why := ""
	for _, f := range a.P.Funcs {
		for _, b := range f.Blocks {
			for _, in := range b.Instrs {
				st, ok := in.(*ssa.Store)
				if !ok {
					continue
				}
				if g, ok := st.Addr.(*ssa.Global); ok && g.Name() == "TIMEOUT_EXP_BASE" {
					if f.Name() == "init" {
						if k, ok := st.Val.(*ssa.Const); !ok || constTerm(k).Name != "2" {
							okBase = false
							why = "initialised to " + st.Val.String()
						}
					} else {
						okBase = false
						why = "written by " + funcID(f)
					}
				}
			}
		}
	}
	r.Check("T1.base", pr, "the exponent base is the constant 2 and is never written by library code", "TIMEOUT_EXP_BASE", a.P.Pos(fn.Pos()), okBase, why, "W")
}

// constLE compares two non-negative decimal constants given as exact strings (possibly float syntax).
func constLE(x, y string) bool {
	// exact strings from go/constant may be like "9223372036854775807" or "9.223372036854775807e+18" or a fraction
	fx, ok1 := parseBig(x)
	fy, ok2 := parseBig(y)
	if !ok1 || !ok2 {
		return false
	}
	return fx.Cmp(fy) <= 0
}

// mutatesSlice: sort / slices / rand functions that reorder their argument (the read-only queries IsSorted, Search, Index, Contains ... do not).
func mutatesSlice(name string) bool {
	for _, p := range []string{"IsSorted", "SliceIsSorted", "Search", "BinarySearch", "Index", "Contains", "Equal", "Compare", "Max", "Min", "Clone"} {
		if strings.HasPrefix(name, p) {
			return false
		}
	}
	return true
}

// isThresholdFormula: th == (S == 0 ? z : form(S)) with S the sum of the Weight fields of the committee argument;
// quorum: z = 1, form = S - (S-1)/3 ; byzantine maximum: z = 0, form = (S-1)/3.
func isThresholdFormula(th, cmt *Term, quorum bool) bool {
	S := T("sum", "", cmt, Field(bound, "Weight"), tTrue)
	f := Bin("/", Bin("-", S, Const("1")), Const("3"))
	form, z := f, Const("0")
	if quorum {
		form, z = Bin("-", S, f), Const("1")
	}
	if th.Op != "ite" || len(th.Args) != 3 {
		return false
	}
	c, x, y := th.Args[0], th.Args[1], th.Args[2]
	neg := false
	for c.Op == "un" && c.Name == "!" && len(c.Args) == 1 {
		c, neg = c.Args[0], !neg
	}
	zero := Const("0")
	switch {
	case c.Op == "bin" && c.Name == "==" && len(c.Args) == 2 && ((c.Args[0].Key() == S.Key() && c.Args[1].Key() == zero.Key()) || (c.Args[1].Key() == S.Key() && c.Args[0].Key() == zero.Key())):
	case c.Op == "bin" && c.Name == "<" && len(c.Args) == 2 && c.Args[0].Key() == zero.Key() && c.Args[1].Key() == S.Key():
		neg = !neg // 0 < S : the non-zero case comes first
	default:
		return false
	}
	if neg {
		x, y = y, x
	}
	return x.Key() == z.Key() && y.Key() == form.Key()
}
