package main

import (
	"sort"
	"fmt"
	"os"
	"go/token"
	"go/types"
	"strings"

	"golang.org/x/tools/go/ssa"
)

// Flow is the forward must-analysis of one function instance (DESIGN §2.4).
type Flow struct {
	A    *Analyzer
	C    *FCtx
	Init Facts
	In   map[*ssa.BasicBlock]Facts // nil entry = not reached yet (top)
	// loop exit facts: forall/unique atoms per loop
	loopExit map[*Loop]Facts
	Rounds   int
	Diverged bool
	Assume   []*Atom // atoms (possibly with var patterns) assumed true: edges contradicting them are infeasible
	// RetChoice: for a call to a multi-outcome effectful helper, the return site assumed taken on this exploration
	// (nil value = "one of its failing returns"); see Walker.splitCalls
	RetChoice map[ssa.Instruction]*ssa.Return
	retCache  map[string]Facts
}

var deadAtom = &Atom{Pred: "dead", Args: []*Term{Const("unreachable")}}

func isDead(f Facts) bool {
	_, ok := f[deadAtom.Key()]
	return ok
}

func isElemOf(t *Term, l *Loop) bool {
	return (t.Op == "elem" || t.Op == "mapkey" || t.Op == "mapval") && t.Name == l.ID
}

func atomTerm(a *Atom) *Term {
	name := a.Pred
	if a.Neg {
		name = "!" + name
	}
	return T("atom", name, a.Args...)
}

func termAtom(t *Term, site string) *Atom {
	name := t.Name
	neg := false
	if len(name) > 0 && name[0] == '!' {
		neg = true
		name = name[1:]
	}
	return &Atom{Pred: name, Args: t.Args, Neg: neg, Site: site}
}

func (a *Analyzer) NewFlow(c *FCtx, init Facts, assume ...*Atom) *Flow {
	return a.NewFlowRC(c, init, nil, assume...)
}

func (a *Analyzer) NewFlowRC(c *FCtx, init Facts, rc map[ssa.Instruction]*ssa.Return, assume ...*Atom) *Flow {
	f := &Flow{A: a, C: c, Init: init, In: map[*ssa.BasicBlock]Facts{}, loopExit: map[*Loop]Facts{}, Assume: assume, RetChoice: rc}
	f.run()
	return f
}

// matchAtom: does fact a match pattern p (with variables)?
func matchAtom(p, a *Atom) bool {
	if p.Pred != a.Pred || p.Neg != a.Neg || len(p.Args) != len(a.Args) {
		return false
	}
	b := map[string]*Term{}
	ok := true
	for i := range p.Args {
		if !Match(p.Args[i], a.Args[i], b) {
			ok = false
			break
		}
	}
	if !ok && p.Pred == "eq" && len(p.Args) == 2 {
		b = map[string]*Term{}
		ok = Match(p.Args[0], a.Args[1], b) && Match(p.Args[1], a.Args[0], b)
	}
	return ok
}

// weaker: the atoms implied by an assumed atom (including itself).
func weaker(p *Atom) []*Atom {
	out := []*Atom{p}
	switch {
	case p.Pred == "lt":
		out = append(out, &Atom{Pred: "le", Args: p.Args}, &Atom{Pred: "eq", Args: p.Args, Neg: true})
	case p.Pred == "eq" && !p.Neg:
		out = append(out, &Atom{Pred: "le", Args: p.Args}, &Atom{Pred: "le", Args: []*Term{p.Args[1], p.Args[0]}})
	}
	return out
}

func (f *Flow) assumed(a *Atom) bool {
	for _, p := range f.Assume {
		for _, w := range weaker(p) {
			if matchAtom(w, a) {
				return true
			}
		}
	}
	return false
}

func (f *Flow) contradictsAssumption(a *Atom) bool {
	if len(f.Assume) == 0 {
		return false
	}
	return f.assumed(a.Negate())
}

type hasFn func(a *Atom) bool

func (f *Flow) withAssumptions(facts Facts) hasFn {
	return func(a *Atom) bool {
		return facts.Has(a) != nil || f.assumed(a)
	}
}

// evalBool: three-valued evaluation of a boolean term under a fact set: 1 true, -1 false, 0 unknown.
func evalBool(t *Term, facts hasFn) int {
	if t.Op == "and" || t.Op == "or" {
		// the compound itself may be a known fact (e.g. the negation of a conjunction)
		whole := &Atom{Pred: "truth", Args: []*Term{t}}
		if facts(whole) {
			return 1
		}
		if facts(whole.Negate()) {
			return -1
		}
	}
	switch t.Op {
	case "const":
		if t.Name == "true" {
			return 1
		}
		if t.Name == "false" {
			return -1
		}
		return 0
	case "un":
		if t.Name == "!" {
			return -evalBool(t.Args[0], facts)
		}
	case "and":
		res := 1
		for _, x := range t.Args {
			switch evalBool(x, facts) {
			case -1:
				return -1
			case 0:
				res = 0
			}
		}
		return res
	case "or":
		res := -1
		for _, x := range t.Args {
			switch evalBool(x, facts) {
			case 1:
				return 1
			case 0:
				res = 0
			}
		}
		return res
	case "bin":
		if (t.Name == "==" || t.Name == "!=") && isBoolTerm(t.Args[0]) && isBoolTerm(t.Args[1]) {
			x, y := evalBool(t.Args[0], facts), evalBool(t.Args[1], facts)
			if x != 0 && y != 0 {
				if (x == y) == (t.Name == "==") {
					return 1
				}
				return -1
			}
			return 0
		}
	}
	a := atomOf(t, "")
	if a == nil {
		return 0
	}
	if facts(a) {
		return 1
	}
	if facts(a.Negate()) {
		return -1
	}
	return 0
}

func isBoolTerm(t *Term) bool {
	switch t.Op {
	case "and", "or":
		return true
	case "un":
		return t.Name == "!"
	case "const":
		return t.Name == "true" || t.Name == "false"
	case "bin":
		switch t.Name {
		case "==", "!=", "<", "<=":
			return true
		}
	}
	return false
}

// addConjuncts: truth(and(xs)) gives every x; !truth(or(xs)) gives every !x. Returns the atoms added.
func addConjuncts(facts Facts, a *Atom) []*Atom {
	if a.Pred != "truth" || len(a.Args) != 1 {
		return nil
	}
	var added []*Atom
	t := a.Args[0]
	if t.Op == "and" && !a.Neg {
		for _, x := range t.Args {
			if c := atomOf(x, a.Site); c != nil {
				facts.Add(c)
				added = append(added, c)
				added = append(added, addConjuncts(facts, c)...)
			}
		}
	}
	if t.Op == "or" && a.Neg {
		for _, x := range t.Args {
			if c := atomOf(x, a.Site); c != nil {
				n := c.Negate()
				facts.Add(n)
				added = append(added, n)
				added = append(added, addConjuncts(facts, n)...)
			}
		}
	}
	// (A && L) || (!A && L): a conjunct common to every disjunct holds (a predicate helper with several return paths
	// that all end in the same test becomes such a term)
	if t.Op == "or" && !a.Neg && len(t.Args) >= 2 {
		conjs := func(x *Term) []*Term {
			if x.Op == "and" {
				return x.Args
			}
			return []*Term{x}
		}
		common := map[string]*Term{}
		for _, c := range conjs(t.Args[0]) {
			common[c.Key()] = c
		}
		for _, d := range t.Args[1:] {
			here := map[string]bool{}
			for _, c := range conjs(d) {
				here[c.Key()] = true
			}
			for k := range common {
				if !here[k] {
					delete(common, k)
				}
			}
		}
		var keys []string
		for k := range common {
			keys = append(keys, k)
		}
		sort.Strings(keys)
		for _, k := range keys {
			if c := atomOf(common[k], a.Site); c != nil {
				facts.Add(c)
				added = append(added, c)
				added = append(added, addConjuncts(facts, c)...)
			}
		}
	}
	return added
}

// condAtom: the atom that holds on the true edge of an If.
func (f *Flow) condAtom(in *ssa.If) *Atom {
	t := f.C.Term(in.Cond)
	return atomOf(t, f.A.P.CondPos(in))
}

func (f *Flow) edgeFacts(from *ssa.BasicBlock, succIdx int, out Facts) Facts {
	if isDead(out) {
		return nil
	}
	res := out.Clone()
	if ifi, ok := from.Instrs[len(from.Instrs)-1].(*ssa.If); ok {
		a := f.condAtom(ifi)
		if a != nil {
			if succIdx != 0 {
				a = a.Negate()
			}
			// an edge whose condition contradicts what is known is infeasible (case splits, correlated tests)
			if res.Has(a.Negate()) != nil || (a.Pred == "truth" && a.Args[0].Key() == tTrue.Key() && a.Neg) || f.contradictsAssumption(a) {
				return nil
			}
			// a value known to equal one constant cannot equal another one
			if a.Pred == "eq" && !a.Neg && len(a.Args) == 2 {
				x, k := a.Args[0], a.Args[1]
				if x.Op == "const" {
					x, k = k, x
				}
				if k.Op == "const" && x.Op != "const" && k.Key() != tNil.Key() {
					if k2 := knownConst(res, x); k2 != nil && k2.Key() != k.Key() {
						return nil
					}
				}
			}
			// a value has one dynamic type: is<A>(x) known (or assumed) excludes is<B>(x)
			if a.Pred == "truth" && !a.Neg && a.Args[0].Op == "istype" {
				if f.otherTypeKnown(res, a.Args[0]) {
					return nil
				}
			}
			// boolean evaluation of materialised conditions
			want := succIdx == 0
			if v := evalBool(f.C.Term(ifi.Cond), f.withAssumptions(res)); v != 0 && (v == 1) != want {
				return nil
			}
			// a condition on a snapshot that still equals the live value is also a condition on the live value
			// (both forms are kept: the live form dies with the next write, the snapshot form stays true)
			forms := []*Atom{a}
			if la := f.liveAtom(res, a); la != nil {
				forms = append(forms, la)
			}
			for _, a := range forms {
				res.Add(a)
				conj := addConjuncts(res, a)
				f.unitPropagate(res, a)
				f.saturate(res)
				// a conjunct may itself be a validator's verdict
				for _, cj := range conj {
					f.addDerived(res, cj)
				}
				// what a validator's verdict implies is materialised here, so that later writes kill it fact by fact
				f.addDerived(res, a)
			}
		}
	}
	// loop normal exit: add the generalised facts
	li := f.A.Loops(f.C.Fn)
	if l := li.ByHeader[from]; l != nil {
		to := from.Succs[succIdx]
		if !l.Body[to] {
			if ex := f.loopExit[l]; len(ex) > 0 {
				for _, a := range ex {
					res.Add(a)
				}
			}
		} else if l.Coll != nil {
			// ranging over a filtered copy  filter(C, x, G(x)) : the element at hand satisfies G
			if ct := f.C.Term(l.Coll); ct.Op == "filter" && len(ct.Args) == 3 && ct.Args[1].Op == "bound" {
				el := T("elem", l.ID, ct)
				g := ct.Args[2].Subst(map[string]*Term{ct.Args[1].Key(): el})
				if ga := atomOf(g, "element of a filtered collection"); ga != nil {
					res.Add(ga)
					addConjuncts(res, ga)
				}
			}
		}
	}
	return res
}

// transfer applies one instruction to the fact set (in place).
func (f *Flow) transfer(in ssa.Instruction, facts Facts) {
	f.transfer1(in, facts)
	// a snapshot taken here equals the live read until the next write of what it reads
	if v, ok := in.(ssa.Value); ok {
		switch in.(type) {
		case *ssa.Call, *ssa.UnOp:
			f.C.Term(v)
			for _, pr := range f.C.snap[in] {
				facts.Add(atomOf(Bin("==", pr[0], pr[1]), f.A.P.InstrPos(in)))
			}
		}
	}
}

func (f *Flow) transfer1(in ssa.Instruction, facts Facts) {
	switch x := in.(type) {
	case *ssa.Store:
		if l := f.A.addrLoc(x.Addr); l != "" {
			f.kill(facts, map[string]bool{l: true})
			// the stored value is now the field's value
			if fa, ok := x.Addr.(*ssa.FieldAddr); ok {
				lhs := f.C.Term(fa)
				rhs := f.C.Term(x.Val)
				if lhs.Op == "field" && len(lhs.Args) == 1 && lhs.Args[0].Op == "this" {
					reads := map[string]bool{}
					f.A.termReads(rhs, reads)
					if !reads[l] {
						facts.Add(atomOf(Bin("==", lhs, rhs), f.A.P.InstrPos(in)))
					}
				}
			}
		}
	case *ssa.MapUpdate:
		w := map[string]bool{}
		if l := f.A.addrLoc(x.Map); l != "" {
			w[l] = true
		}
		mt := f.C.Term(x.Map)
		if mt.Op == "make" {
			w["mem:"+mt.Key()] = true
		}
		// the not-seen idiom: the key is known to be absent right before it is inserted
		kt := f.C.Term(x.Key)
		notSeen := facts.Has(&Atom{Pred: "truth", Args: []*Term{T("haskey", "", mt, kt)}, Neg: true}) != nil
		if !notSeen && f.C.Term(x.Value).Key() == tTrue.Key() {
			notSeen = facts.Has(&Atom{Pred: "truth", Args: []*Term{T("lookup", "", mt, kt)}, Neg: true}) != nil
		}
		f.kill(facts, w)
		if notSeen {
			facts.Add(&Atom{Pred: "fresh", Args: []*Term{mt, kt}, Site: f.A.P.InstrPos(in)})
		}
	case ssa.CallInstruction:
		c := x.Common()
		if isLoggingCall(c) {
			return
		}
		if ret, ok := f.RetChoice[in]; ok {
			if f.transferRetChoice(in, c, ret, facts) {
				return
			}
		}
		w := f.A.callWrites(x)
		if b, ok := c.Value.(*ssa.Builtin); ok && b.Name() == "delete" {
			mt := f.C.Term(c.Args[0])
			if mt.Op == "make" {
				w["mem:"+mt.Key()] = true
			}
		}
		// a locally made map handed to a callee may be updated there
		if _, isB := c.Value.(*ssa.Builtin); !isB {
			for _, arg := range c.Args {
				if _, isMap := arg.Type().Underlying().(*types.Map); isMap {
					if at := f.C.Term(arg); at.Op == "make" {
						if w == nil {
							w = map[string]bool{}
						} else if !w["mem:"+at.Key()] {
							w2 := map[string]bool{"mem:" + at.Key(): true}
							for k := range w {
								w2[k] = true
							}
							w = w2
						}
						w["mem:"+at.Key()] = true
					}
				}
			}
		}
		if blocksOnContext(c) {
			w2 := map[string]bool{ctxLiveLoc: true}
			for k := range w {
				w2[k] = true
			}
			w = w2
		}
		if len(w) > 0 {
			f.kill(facts, w)
		}
		if v, ok := in.(*ssa.Call); ok {
			if _, isB := c.Value.(*ssa.Builtin); !isB {
				t := f.C.Term(v)
				if t.Op != "call" && t.Op != "calldyn" {
					// the call's value was inlined (a small effectful helper): what the helper must have done on every
					// path still happened here
					if g := c.StaticCallee(); g != nil && g.Blocks != nil && inLibraryScope(funcPkgPath(g)) && !isSpecTypesPkg(funcPkgPath(g)) && !f.A.effectFree[g] {
						args := f.C.freeze(v, f.C.args(c.Args))
						d := &Atom{Pred: "done", Args: []*Term{mkCall(shortName(g), args)}, Site: f.A.P.InstrPos(in)}
						facts.Add(d)
						f.addDerived(facts, d)
					}
				}
				if t.Op == "call" || t.Op == "calldyn" {
					// executing the same (effectful) call again yields a new value: forget what was known about the old one
					if !f.A.instrEffectFree(in, f.A.effectFree) {
						tk := t.Key()
						for k, a := range facts {
							if strings.Contains(a.Key(), tk) {
								delete(facts, k)
							}
						}
					}
					d := &Atom{Pred: "done", Args: []*Term{t}, Site: f.A.P.InstrPos(in)}
					facts.Add(d)
					f.addDerived(facts, d)
					if ret, chosen := f.RetChoice[in]; chosen && ret == nil {
						// the "failing outcome" exploration of a return-site split: the verdict is known to be negative
						if g := c.StaticCallee(); g != nil {
							if sm := f.A.Summary(g); sm != nil && sm.resIdx >= 0 {
								okTerm := t
								if sm.nres > 1 {
									okTerm = mkExt(itoa(sm.resIdx), t)
								}
								var na *Atom
								if sm.resKind == "error" {
									na = ErrNil(okTerm).Negate()
								} else {
									na = Truth(okTerm).Negate()
								}
								na.Site = f.A.P.InstrPos(in)
								facts.Add(na)
								f.addDerived(facts, na)
							}
						}
					}
				}
			}
		}
	}
}

func (f *Flow) kill(facts Facts, w map[string]bool) {
	for k, a := range facts {
		for l := range f.A.atomReads(a) {
			if w[l] {
				delete(facts, k)
				break
			}
		}
	}
}

func (f *Flow) out(b *ssa.BasicBlock) Facts {
	in := f.In[b]
	if in == nil {
		return nil
	}
	facts := in.Clone()
	for _, instr := range b.Instrs {
		f.transfer(instr, facts)
	}
	return facts
}

// transferRetChoice: the call is assumed to return through the given return site of its (static, library) callee:
// the facts after the call are the facts at that site (computed with the caller's facts as the callee's entry facts)
// plus the equalities between the call's results and the values returned there. ret == nil stands for "a failing return".
func (f *Flow) transferRetChoice(in ssa.Instruction, c *ssa.CallCommon, ret *ssa.Return, facts Facts) bool {
	g := c.StaticCallee()
	v, isVal := in.(*ssa.Call)
	if g == nil || g.Blocks == nil || !isVal {
		return false
	}
	callTerm := f.C.Term(v)
	if callTerm.Op != "call" {
		return false
	}
	sm := f.A.Summary(g)
	if sm == nil {
		return false
	}
	var okAtom *Atom
	if sm.resIdx >= 0 {
		okTerm := callTerm
		if sm.nres > 1 {
			okTerm = mkExt(itoa(sm.resIdx), callTerm)
		}
		if sm.resKind == "error" {
			okAtom = ErrNil(okTerm)
		} else {
			okAtom = Truth(okTerm)
		}
	}
	if ret == nil {
		// failing outcome: ordinary transfer, then the failure is known
		return false
	}
	key := fmtf("%p|%p|%s", in, ret, strings.Join(facts.SortedKeys(), ";"))
	if f.retCache == nil {
		f.retCache = map[string]Facts{}
	}
	nf, hit := f.retCache[key]
	if !hit {
		args := f.C.freeze(v, f.C.args(c.Args))
		var bindings []*Term
		if mc, ok := c.Value.(*ssa.MakeClosure); ok {
			bindings = f.C.args(mc.Bindings)
		}
		env := bindEnv(f.A, g, args, bindings)
		for _, p := range g.Params {
			if sg := f.A.singletonOf(p.Type()); sg != "" {
				env[p] = This(sg)
			}
		}
		gc := f.A.NewFCtx(g, env, 0)
		gfl := f.A.NewFlow(gc, facts.Clone(), f.Assume...)
		if dead := gfl.DeadEdges(); len(dead) > 0 {
			gc = f.A.NewFCtx(g, env, 0)
			gc.DeadEdge = dead
			gfl = f.A.NewFlow(gc, facts.Clone(), f.Assume...)
		}
		if gfl.In[ret.Block()] == nil {
			nf = Facts{deadAtom.Key(): deadAtom}
		} else {
			nf = gfl.At(ret)
			site := f.A.P.InstrPos(ret)
			for i, r := range ret.Results {
				lhs := callTerm
				if len(ret.Results) > 1 {
					lhs = mkExt(itoa(i), callTerm)
				}
				if i == sm.resIdx {
					continue
				}
				nf.Add(atomOf(Bin("==", lhs, gc.Term(r)), site))
			}
			if okAtom != nil {
				oa := *okAtom
				oa.Site = site
				nf.Add(&oa)
				// the site returns another function's verdict: on this (successful) outcome that verdict was positive
				if sm.resIdx < len(ret.Results) {
					if rt := gc.Term(ret.Results[sm.resIdx]); rt.Op == "call" && !isErrCtor(rt) && wrappedErr(rt) == nil {
						var da *Atom
						if sm.resKind == "error" {
							da = ErrNil(rt)
						} else {
							da = Truth(rt)
						}
						da.Site = site
						nf.Add(da)
						gfl.addDerived(nf, da)
					}
				}
			}
			nf.Add(&Atom{Pred: "done", Args: []*Term{callTerm}, Site: f.A.P.InstrPos(in)})
		}
		f.retCache[key] = nf
	}
	for k := range facts {
		delete(facts, k)
	}
	for k, a := range nf {
		facts[k] = a
	}
	return true
}

// unitPropagate: !and(x1..xn) with all but one conjunct known true gives the negation of the remaining one;
// or(x1..xn) with all but one disjunct known false gives the remaining one.
func (f *Flow) unitPropagate(facts Facts, a *Atom) {
	if a.Pred != "truth" || len(a.Args) != 1 {
		return
	}
	t := a.Args[0]
	has := f.withAssumptions(facts)
	switch {
	case t.Op == "and" && a.Neg:
		var open []*Term
		for _, x := range t.Args {
			switch evalBool(x, has) {
			case 1:
			case -1:
				return
			default:
				open = append(open, x)
			}
		}
		if len(open) == 1 {
			if c := atomOf(open[0], a.Site); c != nil {
				n := c.Negate()
				facts.Add(n)
				f.addDerived(facts, n)
			}
		}
	case t.Op == "or" && !a.Neg:
		var open []*Term
		for _, x := range t.Args {
			switch evalBool(x, has) {
			case -1:
			case 1:
				return
			default:
				open = append(open, x)
			}
		}
		if len(open) == 1 {
			if c := atomOf(open[0], a.Site); c != nil {
				facts.Add(c)
				addConjuncts(facts, c)
				f.addDerived(facts, c)
			}
		}
	}
}

// liveAtom: a with every snapshot sub-term replaced by its live read, for the snapshots whose equality with the live
// read is currently known (nil when nothing changes).
func (f *Flow) liveAtom(facts Facts, a *Atom) *Atom {
	m := map[string]*Term{}
	for _, t := range a.Args {
		t.Walk(func(x *Term) {
			if x.Op == "pre" && strings.HasSuffix(x.Name, "!snap") && len(x.Args) == 1 {
				if facts.Has(atomOf(Bin("==", x, x.Args[0]), "")) != nil {
					m[x.Key()] = x.Args[0]
				}
			}
		})
	}
	if len(m) == 0 {
		return nil
	}
	n := a.Subst(m)
	n.Site = a.Site
	if n.Key() == a.Key() {
		return nil
	}
	return n
}

// saturate: unit propagation over every clause-shaped fact until nothing new is learned (bounded).
func (f *Flow) saturate(facts Facts) {
	for round := 0; round < 4; round++ {
		var cl []*Atom
		for _, x := range facts {
			if x.Pred == "truth" && len(x.Args) == 1 && ((x.Args[0].Op == "and" && x.Neg) || (x.Args[0].Op == "or" && !x.Neg)) {
				cl = append(cl, x)
			}
		}
		if len(cl) == 0 {
			return
		}
		n := len(facts)
		for _, x := range cl {
			f.unitPropagate(facts, x)
		}
		if len(facts) == n {
			return
		}
	}
}

func (f *Flow) otherTypeKnown(facts Facts, it *Term) bool {
	same := func(x *Atom) bool {
		return x.Pred == "truth" && !x.Neg && len(x.Args) == 1 && x.Args[0].Op == "istype" && x.Args[0].Name != it.Name &&
			len(x.Args[0].Args) == 1 && x.Args[0].Args[0].Key() == it.Args[0].Key()
	}
	for _, x := range facts {
		if same(x) {
			return true
		}
	}
	for _, x := range f.Assume {
		if same(x) {
			return true
		}
	}
	return false
}

func (f *Flow) addDerived(facts Facts, a *Atom) {
	work := []*Atom{a}
	for depth := 0; depth < 5 && len(work) > 0; depth++ {
		var next []*Atom
		for _, x := range work {
			for _, d := range f.A.expandCtx(x, &sumCtx{facts: facts, assume: f.Assume}) {
				if dbg := os.Getenv("LH_DEBUG_DERIVE"); dbg != "" && strings.Contains(x.Key(), dbg) && strings.Contains(x.Key(), "!snap") {
					fmt.Fprintf(os.Stderr, "derive from %.80s... : %.300s\n", x.Key(), d.Key())
				}
				if _, ok := facts[d.Key()]; ok {
					continue
				}
				if d.Site == "" {
					d.Site = x.Site
				}
				facts.Add(d)
				addConjuncts(facts, d)
				next = append(next, d)
			}
		}
		work = next
	}
}

func (f *Flow) isPureCallTerm(t *Term) bool {
	if t.Op != "call" {
		return false
	}
	fs := f.A.funcsByShort()[t.Name]
	if len(fs) == 0 {
		// SPI / external: pure when it is a known reader
		i := strings.LastIndex(t.Name, ".")
		if i >= 0 {
			n := t.Name[i+1:]
			if strings.HasPrefix(n, "Get") || strings.HasPrefix(n, "Verify") || n == "ValidateBlockCommitment" || n == "Err" || n == "MyMemberId" {
				return true
			}
		}
		return false
	}
	for _, fn := range fs {
		if !f.A.effectFree[fn] {
			return false
		}
	}
	return true
}

// DeadEdges: CFG edges that are infeasible under the assumptions / known facts (after convergence).
func (f *Flow) DeadEdges() map[[2]*ssa.BasicBlock]bool {
	dead := map[[2]*ssa.BasicBlock]bool{}
	for _, b := range f.C.Fn.Blocks {
		o := f.out(b)
		for si, s := range b.Succs {
			if o == nil || f.edgeFacts(b, si, o) == nil {
				dead[[2]*ssa.BasicBlock{b, s}] = true
			}
		}
	}
	return dead
}

// At returns the facts holding just before the instruction.
func (f *Flow) At(in ssa.Instruction) Facts {
	b := in.Block()
	inF := f.In[b]
	if inF == nil {
		return nil
	}
	facts := inF.Clone()
	for _, instr := range b.Instrs {
		if instr == in {
			break
		}
		f.transfer(instr, facts)
	}
	return facts
}

func (f *Flow) run() {
	fn := f.C.Fn
	if len(fn.Blocks) == 0 {
		return
	}
	li := f.A.Loops(fn)
	order := rpo(fn)
	init := f.Init
	if init == nil {
		init = Facts{}
	}
	f.In[fn.Blocks[0]] = init.Clone()
	for round := 0; round < 40; round++ {
		f.Rounds = round + 1
		changed := false
		outs := map[*ssa.BasicBlock]Facts{}
		for _, b := range order {
			if b != fn.Blocks[0] {
				var acc Facts
				reached := false
				for _, p := range b.Preds {
					po, ok := outs[p]
					if !ok {
						po = f.out(p)
						outs[p] = po
					}
					if po == nil {
						continue
					}
					for si, s := range p.Succs {
						if s != b {
							continue
						}
						ef := f.edgeFacts(p, si, po)
						if ef == nil {
							continue
						}
						if !reached {
							acc = ef.Clone()
							reached = true
						} else {
							acc = acc.Intersect(ef)
						}
					}
				}
				if !reached {
					continue
				}
				old := f.In[b]
				if old == nil || !old.Equal(acc) {
					f.In[b] = acc
					changed = true
				}
			}
			o := f.out(b)
			outs[b] = o
		}
		// recompute loop exit facts from the latch outs
		for _, l := range li.Loops {
			ex := f.computeLoopExit(l, outs)
			for _, at := range ex.Clone() {
				f.addDerived(ex, at)
			}
			old := f.loopExit[l]
			if !old.Equal(ex) {
				f.loopExit[l] = ex
				changed = true
			}
		}
		if !changed {
			return
		}
	}
	f.Diverged = true
}

func rpo(fn *ssa.Function) []*ssa.BasicBlock {
	seen := map[*ssa.BasicBlock]bool{}
	var post []*ssa.BasicBlock
	var dfs func(b *ssa.BasicBlock)
	dfs = func(b *ssa.BasicBlock) {
		seen[b] = true
		for _, s := range b.Succs {
			if !seen[s] {
				dfs(s)
			}
		}
		post = append(post, b)
	}
	dfs(fn.Blocks[0])
	for i, j := 0, len(post)-1; i < j; i, j = i+1, j-1 {
		post[i], post[j] = post[j], post[i]
	}
	return post
}

// computeLoopExit: forall(C, G) for the facts G that hold at every latch, mention the loop element and do not
// depend on anything the loop body may write; unique(C, key) for the recognised not-seen idiom.
func (f *Flow) computeLoopExit(l *Loop, outs map[*ssa.BasicBlock]Facts) Facts {
	res := Facts{}
	if !l.Clean || l.Coll == nil || l.Kind == "other" {
		return res
	}
	coll := f.C.Term(l.Coll)
	var g Facts
	for _, lt := range l.Latches {
		o := outs[lt]
		if o == nil {
			return res
		}
		// edge facts latch->header
		for si, s := range lt.Succs {
			if s == l.Header {
				ef := f.edgeFacts(lt, si, o)
				if ef == nil {
					continue
				}
				if g == nil {
					g = ef.Clone()
				} else {
					g = g.Intersect(ef)
				}
			}
		}
	}
	if g == nil {
		return res
	}
	// locations written anywhere in the loop body
	w := map[string]bool{}
	for b := range l.Body {
		for _, in := range b.Instrs {
			switch x := in.(type) {
			case *ssa.Store:
				if loc := f.A.addrLoc(x.Addr); loc != "" {
					w[loc] = true
				}
			case *ssa.MapUpdate:
				if loc := f.A.addrLoc(x.Map); loc != "" {
					w[loc] = true
				}
				if mt := f.C.Term(x.Map); mt.Op == "make" {
					w["mem:"+mt.Key()] = true
				}
			case ssa.CallInstruction:
				if !isLoggingCall(x.Common()) {
					for k := range f.A.callWrites(x) {
						w[k] = true
					}
				}
			}
		}
	}
	for _, a := range g {
		if a.Pred == "done" {
			continue
		}
		if !a.Mentions(func(t *Term) bool { return isElemOf(t, l) }) {
			continue
		}
		dep := false
		for loc := range f.A.atomReads(a) {
			if w[loc] {
				dep = true
			}
		}
		if dep {
			continue
		}
		ga := a.Subst(generalizeMap(l, coll))
		ga.Site = a.Site
		res.Add(&Atom{Pred: "forall", Args: []*Term{coll, atomTerm(ga)}, Site: a.Site})
	}
	// uniqueness idiom
	for b := range l.Body {
		if !l.dominatesAllLatches(b) {
			continue
		}
		for _, in := range b.Instrs {
			mu, ok := in.(*ssa.MapUpdate)
			if !ok {
				continue
			}
			mm, ok := mu.Map.(*ssa.MakeMap)
			if !ok || l.Body[mm.Block()] {
				continue
			}
			n := 0
			for _, r := range *mm.Referrers() {
				if _, ok := r.(*ssa.MapUpdate); ok {
					n++
				}
			}
			if n != 1 {
				continue
			}
			at := f.At(in)
			if at == nil {
				continue
			}
			mt, kt := f.C.Term(mu.Map), f.C.Term(mu.Key)
			seen1 := &Atom{Pred: "truth", Args: []*Term{T("lookup", "", mt, kt)}, Neg: true}
			seen2 := &Atom{Pred: "truth", Args: []*Term{T("haskey", "", mt, kt)}, Neg: true}
			if (at.Has(seen1) != nil && f.C.Term(mu.Value).Key() == tTrue.Key()) || at.Has(seen2) != nil {
				res.Add(&Atom{Pred: "unique", Args: []*Term{coll, generalize(kt, l, coll)}, Site: f.A.P.InstrPos(in)})
			}
		}
	}
	// the same idiom with a slice as the set: `if contains(seen, k) { leave }; seen = append(seen, k)` where `contains`
	// is a library function that is a pure membership test (one loop over its slice, true exactly on an equal element)
	for b := range l.Body {
		if !l.dominatesAllLatches(b) {
			continue
		}
		for _, in := range b.Instrs {
			ap, ok := in.(*ssa.Call)
			if !ok || !isBuiltin(ap, "append") || len(ap.Call.Args) != 2 {
				continue
			}
			acc, ok := ap.Call.Args[0].(*ssa.Phi)
			if !ok || acc.Block() != l.Header {
				continue
			}
			// the accumulator starts empty outside the loop and is only ever extended by this append
			okAcc := true
			for i, e := range acc.Edges {
				pred := acc.Block().Preds[i]
				if l.Body[pred] {
					if e != ssa.Value(ap) {
						okAcc = false
					}
					continue
				}
				switch x := e.(type) {
				case *ssa.MakeSlice:
					if c, isC := x.Len.(*ssa.Const); !isC || c.Int64() != 0 {
						okAcc = false
					}
				case *ssa.Const:
					if !x.IsNil() {
						okAcc = false
					}
				default:
					okAcc = false
				}
			}
			// the appended element: a one-element slice literal [k]
			var kv ssa.Value
			if sl, isSl := ap.Call.Args[1].(*ssa.Slice); isSl {
				if al, isAl := sl.X.(*ssa.Alloc); isAl {
					for _, r := range *al.Referrers() {
						if ia, isIA := r.(*ssa.IndexAddr); isIA {
							for _, r2 := range *ia.Referrers() {
								if st, isSt := r2.(*ssa.Store); isSt && st.Addr == ssa.Value(ia) {
									if kv != nil {
										okAcc = false
									}
									kv = st.Val
								}
							}
						}
					}
				}
			}
			if !okAcc || kv == nil {
				continue
			}
			at := f.At(in)
			if at == nil {
				continue
			}
			accT, kT := f.C.Term(acc), f.C.Term(kv)
			for _, fa := range at {
				if fa.Pred != "truth" || !fa.Neg || len(fa.Args) != 1 || fa.Args[0].Op != "call" || len(fa.Args[0].Args) != 2 {
					continue
				}
				ct := fa.Args[0]
				if ct.Args[0].Key() != accT.Key() || ct.Args[1].Key() != kT.Key() {
					continue
				}
				if g := f.A.calleeOf(ct); g != nil && isMembershipFn(g) {
					res.Add(&Atom{Pred: "unique", Args: []*Term{coll, generalize(kT, l, coll)}, Site: f.A.P.InstrPos(in)})
				}
			}
		}
	}
	// the same idiom with the check-and-insert inside a helper that is handed the set: every iteration that reaches
	// a latch is known to have inserted a key that was absent (fresh), and nothing else touches the set
	for _, a := range g {
		if a.Pred != "fresh" || len(a.Args) != 2 || a.Args[0].Op != "make" {
			continue
		}
		if !a.Args[1].Contains(func(t *Term) bool { return isElemOf(t, l) }) {
			continue
		}
		if mm := f.insertOnlySet(a.Args[0], l); mm != nil {
			res.Add(&Atom{Pred: "unique", Args: []*Term{coll, generalize(a.Args[1], l, coll)}, Site: a.Site})
		}
	}
	return res
}

// insertOnlySet: the map made outside loop l whose term is mt, when its only uses are lookups and exactly one inserting
// site inside the loop: a direct update, or a call to a library function that only looks its parameter up and inserts
// into it at one place.
func (f *Flow) insertOnlySet(mt *Term, l *Loop) *ssa.MakeMap {
	for _, b := range f.C.Fn.Blocks {
		for _, in := range b.Instrs {
			mm, ok := in.(*ssa.MakeMap)
			if !ok || l.Body[b] || f.C.Term(mm).Key() != mt.Key() {
				continue
			}
			inserts := 0
			for _, r := range *mm.Referrers() {
				switch x := r.(type) {
				case *ssa.Lookup, *ssa.DebugRef:
				case *ssa.MapUpdate:
					if x.Map != ssa.Value(mm) || !l.Body[x.Block()] {
						return nil
					}
					inserts++
				case *ssa.Call:
					g := x.Call.StaticCallee()
					if g == nil || g.Blocks == nil || !l.Body[x.Block()] || x.Call.IsInvoke() {
						return nil
					}
					for i, arg := range x.Call.Args {
						if arg != ssa.Value(mm) {
							continue
						}
						if i >= len(g.Params) {
							return nil
						}
						n := 0
						for _, pr := range *g.Params[i].Referrers() {
							switch y := pr.(type) {
							case *ssa.Lookup, *ssa.DebugRef:
							case *ssa.MapUpdate:
								if y.Map != ssa.Value(g.Params[i]) {
									return nil
								}
								n++
							default:
								return nil
							}
						}
						if n != 1 {
							return nil
						}
						inserts++
					}
				default:
					return nil
				}
			}
			if inserts == 1 {
				return mm
			}
			return nil
		}
	}
	return nil
}

var _ = token.ADD

// isMembershipFn: func(s []T, x T) bool with one loop over s that returns true exactly when an element equals x
// (x.Equal(e) / e.Equal(x) / bytes.Equal / ==) and false after the loop; no other effects.
func isMembershipFn(g *ssa.Function) bool {
	if len(g.Params) != 2 || g.Signature.Results().Len() != 1 || !isBoolType(g.Signature.Results().At(0).Type()) {
		return false
	}
	if _, ok := g.Params[0].Type().Underlying().(*types.Slice); !ok {
		return false
	}
	li := analyzeLoops(g)
	if len(li.Loops) != 1 {
		return false
	}
	l := li.Loops[0]
	fromSlice := func(v ssa.Value) bool {
		// an element of params[0]
		switch x := v.(type) {
		case *ssa.UnOp:
			if ia, ok := x.X.(*ssa.IndexAddr); ok {
				return ia.X == ssa.Value(g.Params[0])
			}
		case *ssa.Index:
			return x.X == ssa.Value(g.Params[0])
		}
		return false
	}
	isEq := func(v ssa.Value) bool {
		switch x := v.(type) {
		case *ssa.Call:
			var a0, a1 ssa.Value
			if sc := x.Call.StaticCallee(); sc != nil && sc.Name() == "Equal" && len(x.Call.Args) == 2 {
				a0, a1 = x.Call.Args[0], x.Call.Args[1]
			} else {
				return false
			}
			return (fromSlice(a0) && a1 == ssa.Value(g.Params[1])) || (fromSlice(a1) && a0 == ssa.Value(g.Params[1]))
		case *ssa.BinOp:
			if x.Op != token.EQL {
				return false
			}
			return (fromSlice(x.X) && x.Y == ssa.Value(g.Params[1])) || (fromSlice(x.Y) && x.X == ssa.Value(g.Params[1]))
		}
		return false
	}
	nTrue, nFalse := 0, 0
	for _, b := range g.Blocks {
		for _, in := range b.Instrs {
			switch x := in.(type) {
			case *ssa.Return:
				c, ok := x.Results[0].(*ssa.Const)
				if !ok {
					return false
				}
				if c.Value != nil && c.Value.String() == "true" {
					nTrue++
					// reached only through the true edge of an equality test inside the loop
					if len(b.Preds) != 1 {
						return false
					}
					p := b.Preds[0]
					ifi, isIf := p.Instrs[len(p.Instrs)-1].(*ssa.If)
					if !isIf || p.Succs[0] != b || !l.Body[p] || !isEq(ifi.Cond) {
						return false
					}
				} else {
					nFalse++
					if l.Body[b] {
						return false
					}
				}
			case *ssa.Store, *ssa.MapUpdate, *ssa.Send, *ssa.Go, *ssa.Defer, *ssa.Panic:
				return false
			case *ssa.Call:
				if _, isB := x.Call.Value.(*ssa.Builtin); isB {
					continue // len / cap
				}
				if !isEq(x) && !isLoggingCall(&x.Call) {
					return false
				}
			}
		}
	}
	return nTrue == 1 && nFalse == 1
}

// knownConst: the (non-nil) constant that the facts say x equals, if any.
func knownConst(facts Facts, x *Term) *Term {
	xk := x.Key()
	for _, f := range facts {
		if f.Pred != "eq" || f.Neg || len(f.Args) != 2 {
			continue
		}
		a, b := f.Args[0], f.Args[1]
		if a.Key() == xk && b.Op == "const" && b.Key() != tNil.Key() {
			return b
		}
		if b.Key() == xk && a.Op == "const" && a.Key() != tNil.Key() {
			return a
		}
	}
	return nil
}

// blocksOnContext: a call of a consumer SPI method or of a consumer callback (a function value) that takes a context:
// it may block until that context is cancelled.
func blocksOnContext(c *ssa.CallCommon) bool {
	hasCtx := false
	for _, a := range c.Args {
		if typeShort(a.Type()) == "context.Context" {
			hasCtx = true
		}
	}
	if !hasCtx {
		return false
	}
	if c.IsInvoke() {
		ts := typeShort(c.Value.Type())
		// (Membership calls report cancellation through their error result; BlockUtils calls have no error result for it:
		// the repository's own convention is to re-check ctx.Err() after them)
		return ts == "interfaces.BlockUtils"
	}
	return c.StaticCallee() == nil // a callback held in a field / variable
}
