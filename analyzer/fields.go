package main

import (
	"fmt"
	"go/types"
	"sort"
	"strings"
)

// Renamed-field resolution. The rules name a handful of unexported struct fields (the state the properties are anchored
// in). A behaviour-preserving rename must not break them: when a field of the reference table is missing and exactly
// one field of the struct has the reference field's type (and is not itself a reference name), that field stands in
// for it. fieldNameStruct reports the canonical (reference) name, so terms, locations and rules are unaffected.

var fieldAlias = map[string]map[string]string{} // struct type key -> actual field name -> canonical name

func structKey(t types.Type) string {
	if n, ok := t.(*types.Named); ok && n.Obj().Pkg() != nil {
		return strings.TrimPrefix(n.Obj().Pkg().Path(), modPath+"/") + "." + n.Obj().Name()
	}
	return ""
}

func relTypeString(t types.Type) string {
	return types.TypeString(t, func(p *types.Package) string { return strings.TrimPrefix(p.Path(), modPath+"/") })
}

func dumpFields(p *Prog) {
	var lines []string
	for path, pkg := range p.ByPath {
		if isSpecTypesPkg(path) {
			continue
		}
		sc := pkg.Types.Scope()
		for _, n := range sc.Names() {
			tn, ok := sc.Lookup(n).(*types.TypeName)
			if !ok {
				continue
			}
			st, ok := tn.Type().Underlying().(*types.Struct)
			if !ok {
				continue
			}
			for i := 0; i < st.NumFields(); i++ {
				lines = append(lines, fmt.Sprintf("\t{%q, %q, %q},", structKey(tn.Type()), st.Field(i).Name(), relTypeString(st.Field(i).Type())))
			}
		}
	}
	sort.Strings(lines)
	for _, l := range lines {
		fmt.Println(l)
	}
}

// resolveFieldAliases fills fieldAlias for the loaded tree.
func resolveFieldAliases(p *Prog) {
	fieldAlias = map[string]map[string]string{}
	byStruct := map[string][][3]string{}
	for _, r := range referenceFields {
		byStruct[r[0]] = append(byStruct[r[0]], r)
	}
	for path, pkg := range p.ByPath {
		if isSpecTypesPkg(path) {
			continue
		}
		sc := pkg.Types.Scope()
		for _, n := range sc.Names() {
			tn, ok := sc.Lookup(n).(*types.TypeName)
			if !ok {
				continue
			}
			st, ok := tn.Type().Underlying().(*types.Struct)
			if !ok {
				continue
			}
			key := structKey(tn.Type())
			refs := byStruct[key]
			if len(refs) == 0 {
				continue
			}
			have := map[string]bool{}
			for i := 0; i < st.NumFields(); i++ {
				have[st.Field(i).Name()] = true
			}
			refName := map[string]bool{}
			for _, r := range refs {
				refName[r[1]] = true
			}
			for _, r := range refs {
				if have[r[1]] {
					continue
				}
				var cands []string
				for i := 0; i < st.NumFields(); i++ {
					f := st.Field(i)
					if refName[f.Name()] || relTypeString(f.Type()) != r[2] {
						continue
					}
					cands = append(cands, f.Name())
				}
				// also: how many missing reference fields compete for the same type? resolve only when one-to-one
				competing := 0
				for _, r2 := range refs {
					if !have[r2[1]] && r2[2] == r[2] {
						competing++
					}
				}
				if len(cands) == 1 && competing == 1 {
					if fieldAlias[key] == nil {
						fieldAlias[key] = map[string]string{}
					}
					fieldAlias[key][cands[0]] = r[1]
				}
			}
		}
	}
}

func canonicalField(t types.Type, name string) string {
	if len(fieldAlias) == 0 {
		return name
	}
	if m := fieldAlias[structKey(t)]; m != nil {
		if c, ok := m[name]; ok {
			return c
		}
	}
	return name
}
