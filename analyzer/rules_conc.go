package main

import (
	"go/token"
	"go/types"
	"sort"
	"strings"

	"golang.org/x/tools/go/ssa"
)

// Concurrency-shape engines X (channels), L (locks), W (ownership), registry laws (DESIGN §2.13) for C13-C16, C19.

// ---------------------------------------------------------------- helpers

func isCtxDone(v ssa.Value) bool {
	// ctx.Done() : invoke Done on context.Context
	c, ok := v.(*ssa.Call)
	if !ok {
		return false
	}
	if c.Call.IsInvoke() && c.Call.Method.Name() == "Done" && typeShort(c.Call.Value.Type()) == "context.Context" {
		return true
	}
	return false
}

func isStructChan(v ssa.Value) bool {
	ch, ok := v.Type().Underlying().(*types.Chan)
	if !ok {
		return false
	}
	st, ok := ch.Elem().Underlying().(*types.Struct)
	return ok && st.NumFields() == 0
}

func chanLabel(c *FCtx, v ssa.Value) string {
	t := c.Term(v)
	return PP(t)
}

// selectsOf lists all Select instructions, bare sends and bare receives of library code.
type chanOp struct {
	fn   *ssa.Function
	in   ssa.Instruction
	kind string // select | send | recv
}

func (a *Analyzer) chanOps() []chanOp {
	var out []chanOp
	for _, f := range a.P.Funcs {
		if isSpecTypesPkg(funcPkgPath(f)) || strings.HasPrefix(funcPkgPath(f), modPath+"/services/logger") {
			continue
		}
		for _, b := range f.Blocks {
			for _, in := range b.Instrs {
				switch x := in.(type) {
				case *ssa.Select:
					out = append(out, chanOp{f, in, "select"})
				case *ssa.Send:
					out = append(out, chanOp{f, in, "send"})
				case *ssa.UnOp:
					if x.Op == token.ARROW {
						out = append(out, chanOp{f, in, "recv"})
					}
				}
			}
		}
	}
	return out
}

func runChannels(a *Analyzer, r *Results) {
	// Z4.sleep: waiting is done on a context (select / <-ctx.Done()), never by an uninterruptible sleep
	{
		blocking := map[string]bool{"time.Sleep": true, "(*sync.WaitGroup).Wait": true, "(*sync.Cond).Wait": true}
		n := 0
		for _, f := range a.P.Funcs {
			for _, b := range f.Blocks {
				for _, in := range b.Instrs {
					ci, ok := in.(ssa.CallInstruction)
					if !ok {
						continue
					}
					g := ci.Common().StaticCallee()
					if g == nil || !blocking[g.String()] {
						continue
					}
					n++
					r.Check("Z4.sleep", props("C16", "C15", "C12"), "library code never waits in a call that cancellation cannot interrupt (time.Sleep, WaitGroup/Cond waits): every pause is a select or receive on a context", funcID(f), a.P.InstrPos(in), false,
						g.String()+" cannot be interrupted by the context: shutdown (or a superseded height) waits for it", "X")
				}
			}
		}
		if n == 0 {
			r.Check("Z4.sleep", props("C16", "C15", "C12"), "library code never waits in a call that cancellation cannot interrupt (time.Sleep, WaitGroup/Cond waits): every pause is a select or receive on a context", "none", a.P.Pos(a.P.Func(idMainRun).Pos()), true, "", "X")
		}
	}
	ops := a.chanOps()
	r.Stats["X.channel_ops"] = len(ops)
	nSel := 0
	for _, op := range ops {
		c := a.NewFCtx(op.fn, a.EntryEnv(op.fn, nil), 0)
		switch x := op.in.(type) {
		case *ssa.Select:
			nSel++
			hasCancel := false
			var sends []*ssa.SelectState
			var descr []string
			for _, st := range x.States {
				if st.Dir == types.RecvOnly && (isCtxDone(st.Chan) || isStructChan(st.Chan)) {
					hasCancel = true
				}
				if st.Dir == types.SendOnly {
					sends = append(sends, st)
				}
				d := "recv "
				if st.Dir == types.SendOnly {
					d = "send "
				}
				descr = append(descr, d+chanLabel(c, st.Chan))
			}
			ok := !x.Blocking || hasCancel
			r.Check("Z4.select", props("C16", "C14"), "every blocking select in library code has a cancellation arm (ctx.Done() or a close-only signal channel)", funcID(op.fn)+"|"+strings.Join(descr, ","), a.P.InstrPos(op.in), ok,
				"blocking select without a cancellation arm: "+strings.Join(descr, ", "), "X")
			// hand-off sends: a select that sends must not be able to drop the new value, unless the drop is the documented
			// "never block the main loop" forward of raw messages (capacity 1000, loss == network loss)
			for _, st := range sends {
				lbl := chanLabel(c, st.Chan)
				elem := st.Chan.Type().Underlying().(*types.Chan).Elem()
				isHandoff := typeShort(elem) == "interfaces.ElectionTrigger" || typeShort(elem) == syncMsgType
				if !isHandoff {
					continue
				}
				// the timer goroutine's own send (into the unbuffered election channel) is governed by Z6
				if funcPkgPath(op.fn) != modPath || op.fn.Parent() != nil {
					continue
				}
				if op.fn.Name() == "UpdateState" || (c.Term(st.Chan).Op == "field" && len(c.Term(st.Chan).Args) == 1 && c.Term(st.Chan).Args[0].Key() == This("leanhelix.MainLoop").Key()) {
					continue // public API -> main loop (the main loop's own inbound channel): blocks until taken or ctx is cancelled (U8 / Z8)
				}
				okH := x.Blocking && hasCancel && len(x.States) == 2
				r.Check("U7.handoff", props("C14", "C05", "C19"), "the main loop's hand-off of an election trigger / sync to the worker cannot drop the newest value: the sending select has no default arm, only a ctx.Done() arm", funcID(op.fn)+"|"+lbl, a.P.InstrPos(op.in), okH,
					"the hand-off send on "+lbl+" can be skipped (default arm / extra arms)", "X")
				if okH {
					okO, why := overwriteIdiom(op.fn, x, st.Chan, c)
					r.Check("U7.overwrite", props("C14", "C05", "C15"), "before the hand-off send a full buffer is emptied by one non-blocking receive (newest value replaces the pending one), so the single-producer send cannot block", funcID(op.fn)+"|"+lbl, a.P.InstrPos(op.in), okO, why, "X")
				}
			}
		case *ssa.Send:
			r.Check("Z4.send", props("C16"), "no bare (un-selected) channel send in library code: it could block forever after shutdown", funcID(op.fn), a.P.InstrPos(op.in), false, "bare send on "+chanLabel(c, x.Chan), "X")
		case *ssa.UnOp:
			ok := isCtxDone(x.X)
			r.Check("Z4.recv", props("C16"), "a bare channel receive in library code waits only on a context's Done channel", funcID(op.fn), a.P.InstrPos(op.in), ok, "bare receive on "+chanLabel(c, x.X), "X")
		}
	}
	r.Stats["X.selects"] = nSel
	if nSel < 10 {
		r.Undecided = append(r.Undecided, fmtf("only %d select statements found in library scope (12 confirmed by reading): load incomplete?", nSel))
	}

	// capacities of the hand-off channels: literal >= 1
	for _, f := range a.P.Funcs {
		for _, b := range f.Blocks {
			for _, in := range b.Instrs {
				mc, ok := in.(*ssa.MakeChan)
				if !ok {
					continue
				}
				elem := mc.Type().Underlying().(*types.Chan).Elem()
				ts := typeShort(elem)
				if ts != "interfaces.ElectionTrigger" && ts != syncMsgType {
					continue
				}
				// which field is it stored to?
				field := ""
				for _, ref := range *mc.Referrers() {
					if st, ok := ref.(*ssa.Store); ok {
						if fa, ok := st.Addr.(*ssa.FieldAddr); ok {
							field = typeShort(fa.X.Type()) + "." + fieldName(fa.X.Type(), fa.Field)
						}
					}
				}
				k, isConst := mc.Size.(*ssa.Const)
				switch field {
				case "leanhelix.WorkerLoop.workerUpdateStateChannel", "leanhelix.WorkerLoop.electionChannel":
					ok := isConst && k.Int64() >= 1
					r.Check("U7.cap", props("C14", "C05"), "the worker's hand-off channels are created with a literal capacity >= 1", field, a.P.InstrPos(in), ok, "capacity is "+mc.Size.String(), "X")
				case "Electiontrigger.TimerBasedElectionTrigger.electionChannel":
					ok := isConst && k.Int64() == 0
					r.Check("T.cap", props("C19"), "the timer's election channel is unbuffered (a trigger is never parked where Stop cannot cancel it)", field, a.P.InstrPos(in), ok, "capacity is "+mc.Size.String(), "X")
				}
			}
		}
	}

	// single producer of each hand-off channel
	prod := map[string][]string{}
	for _, op := range ops {
		var chans []ssa.Value
		switch x := op.in.(type) {
		case *ssa.Select:
			for _, st := range x.States {
				if st.Dir == types.SendOnly {
					chans = append(chans, st.Chan)
				}
			}
		case *ssa.Send:
			chans = append(chans, x.Chan)
		}
		for _, ch := range chans {
			ts := typeShort(ch.Type().Underlying().(*types.Chan).Elem())
			if ts == "interfaces.ElectionTrigger" || ts == syncMsgType {
				c := a.NewFCtx(op.fn, a.EntryEnv(op.fn, nil), 0)
				prod[chanLabel(c, ch)] = append(prod[chanLabel(c, ch)], funcID(op.fn))
			}
		}
	}
	var labels []string
	for l := range prod {
		labels = append(labels, l)
	}
	sort.Strings(labels)
	for _, l := range labels {
		ps := dedupSorted(prod[l])
		r.Check("U7.producer", props("C14", "C05"), "each hand-off channel has a single producing function (so the emptied slot cannot be refilled by someone else before the send)", l, "-", len(ps) == 1, fmtf("producers of %s: %v", l, ps), "W")
	}
}

// overwriteIdiom: before the select, on every path: if len(ch) == cap(ch) { select { case <-ch: default: } }
// either inline or in a helper that is called (with the channel) in a block dominating the send.
func overwriteIdiom(fn *ssa.Function, sel *ssa.Select, ch ssa.Value, c *FCtx) (bool, string) {
	if ok, _ := overwriteIdiomIn(fn, sel, ch, c); ok {
		return true, ""
	}
	key := c.Term(ch).Key()
	for _, b := range fn.Blocks {
		if !b.Dominates(sel.Block()) {
			continue
		}
		for _, in := range b.Instrs {
			call, ok := in.(*ssa.Call)
			if !ok {
				continue
			}
			if b == sel.Block() {
				// must precede the select
				before := false
				for _, i2 := range b.Instrs {
					if i2 == ssa.Instruction(call) {
						before = true
					}
					if i2 == ssa.Instruction(sel) {
						break
					}
				}
				if !before {
					continue
				}
			}
			g := call.Call.StaticCallee()
			if g == nil || g.Blocks == nil {
				continue
			}
			for i, arg := range call.Call.Args {
				if c.Term(arg).Key() != key || i >= len(g.Params) {
					continue
				}
				gc := c.A.NewFCtx(g, c.A.EntryEnv(g, nil), 0)
				if ok, _ := overwriteIdiomIn(g, nil, g.Params[i], gc); ok {
					return true, ""
				}
			}
		}
	}
	return false, "no `if len(ch)==cap(ch) { select { case <-ch: default: } }` precedes the send"
}

func overwriteIdiomIn(fn *ssa.Function, sel *ssa.Select, ch ssa.Value, c *FCtx) (bool, string) {
	key := c.Term(ch).Key()
	// find a non-blocking select receiving from the same channel in a block dominating the send-select, guarded by len==cap
	for _, b := range fn.Blocks {
		for _, in := range b.Instrs {
			s2, ok := in.(*ssa.Select)
			if !ok || s2 == sel || s2.Blocking || len(s2.States) != 1 {
				continue
			}
			if s2.States[0].Dir != types.RecvOnly || c.Term(s2.States[0].Chan).Key() != key {
				continue
			}
			// guarded by len(ch) == cap(ch)
			if len(b.Preds) != 1 {
				continue
			}
			ifi, ok := b.Preds[0].Instrs[len(b.Preds[0].Instrs)-1].(*ssa.If)
			if !ok {
				continue
			}
			cmp, ok := ifi.Cond.(*ssa.BinOp)
			if !ok || (cmp.Op != token.EQL && cmp.Op != token.NEQ) {
				continue
			}
			// the receive must be on the "buffer is full" side
			fullSide := b.Preds[0].Succs[0]
			if cmp.Op == token.NEQ {
				fullSide = b.Preds[0].Succs[1]
			}
			if fullSide != b {
				continue
			}
			isLenCap := func(x, y ssa.Value) bool {
				lx, ok1 := x.(*ssa.Call)
				if !ok1 || !isBuiltin(lx, "len") || c.Term(lx.Call.Args[0]).Key() != key {
					return false
				}
				// cap may be evaluated once into a variable
				if cy, ok := y.(*ssa.Call); ok && isBuiltin(cy, "cap") && c.Term(cy.Call.Args[0]).Key() == key {
					return true
				}
				return false
			}
			if !(isLenCap(cmp.X, cmp.Y) || isLenCap(cmp.Y, cmp.X)) {
				continue
			}
			if sel == nil || b.Preds[0].Dominates(sel.Block()) {
				return true, ""
			}
		}
	}
	return false, "no `if len(ch)==cap(ch) { select { case <-ch: default: } }` precedes the send"
}

// ---------------------------------------------------------------- spawn inventory (Z5)

func runSpawn(a *Analyzer, r *Results) {
	counts := map[string]int{}
	for _, f := range a.P.Funcs {
		if isSpecTypesPkg(funcPkgPath(f)) {
			continue
		}
		for _, b := range f.Blocks {
			for _, in := range b.Instrs {
				if _, ok := in.(*ssa.Go); ok {
					r.Check("Z5.go", props("C16", "C12"), "library code starts goroutines only through the supervised creators (no bare go statement)", funcID(f), a.P.InstrPos(in), false, "go statement in "+funcID(f), "W")
				}
				if call, ok := in.(*ssa.Call); ok {
					if sc := call.Call.StaticCallee(); sc != nil {
						id := funcPkgPath(sc) + "." + sc.Name()
						switch id {
						case "github.com/orbs-network/govnr.Forever", "github.com/orbs-network/govnr.Once", "time.AfterFunc", "time.NewTimer", "time.NewTicker", "time.Tick", "time.After":
							counts[id]++
							// who may create: the supervised loops are started by methods of MainLoop; the election timer is created by a
							// method of the trigger that owns it and is stored in the field Stop() stops (any helper of that type may hold the call)
							recv := ""
							if f.Signature.Recv() != nil {
								recv = typeShort(f.Signature.Recv().Type())
							} else if f.Parent() != nil && f.Parent().Signature.Recv() != nil {
								recv = typeShort(f.Parent().Signature.Recv().Type())
							}
							ok, reason := false, ""
							switch {
							case sc.Name() == "Forever" && strings.HasSuffix(recv, "leanhelix.MainLoop"):
								ok, reason = true, "event loop, supervised, started by the MainLoop that owns the Run context"
							case id == "time.AfterFunc" && strings.HasSuffix(recv, "TimerBasedElectionTrigger"):
								stored := false
								for _, ref := range *call.Referrers() {
									if st, isSt := ref.(*ssa.Store); isSt && strings.HasSuffix(a.addrLoc(st.Addr), "TimerBasedElectionTrigger.timer") {
										stored = true
									}
								}
								ok, reason = stored, "election timer owned by the trigger: stopped by Stop (Z7), its send is cancellable (Z6)"
							}
							r.Check("Z5.creators", props("C16", "C12"), "goroutine / timer creators are called only by their owners: supervised loops by MainLoop methods, the election timer by a method of the trigger that stores it where Stop() finds it", id+"|"+recv, a.P.InstrPos(in), ok, "goroutine/timer creator call in "+funcID(f)+" outside the owning type (or the timer is not kept for Stop)", "W").Guards = []string{reason}
						}
					}
				}
			}
		}
	}
	r.Check("Z5.count", props("C16"), "the supervised loops are started exactly twice and the election timer is armed at exactly one site", "creators", "-",
		counts["github.com/orbs-network/govnr.Forever"] == 2 && counts["time.AfterFunc"] == 1, fmtf("creator calls: %v", counts), "W")
}

// ---------------------------------------------------------------- lock discipline (L)

// guarded fields per struct: every access must be in a method that takes the struct's lock in its entry block
// (Lock/RLock + deferred Unlock), or in an unexported helper all of whose callers do.
func runLocks(a *Analyzer, r *Results) {
	type guard struct {
		typ    string   // typeShort of the struct
		fields []string // guarded fields
		mutex  string   // name of the mutex field ("" = embedded)
	}
	guards := []guard{
		{"state.State", []string{"height", "view"}, "RWMutex"},
		{"state.ViewContexts", []string{"hvToContext", "newestHvCanceledOlder", "shutdown"}, "mutex"},
		{"storage.InMemoryStorage", []string{"preprepareStorage", "prepareStorage", "commitStorage", "viewChangeStorage"}, "mutext"},
	}
	locksIn := func(f *ssa.Function, g guard) bool {
		if len(f.Blocks) == 0 {
			return false
		}
		locked, deferred := false, false
		for _, in := range f.Blocks[0].Instrs {
			switch x := in.(type) {
			case *ssa.Call:
				if sc := x.Call.StaticCallee(); sc != nil && (sc.Name() == "Lock" || sc.Name() == "RLock") && funcPkgPath(sc) == "sync" {
					locked = true
				}
			case *ssa.Defer:
				if sc := x.Call.StaticCallee(); sc != nil && (sc.Name() == "Unlock" || sc.Name() == "RUnlock") && funcPkgPath(sc) == "sync" {
					deferred = true
				}
			}
		}
		if locked && deferred {
			return true
		}
		// straight-line accessor with an explicit unlock: Lock; reads / writes; Unlock; return  (one block, nothing
		// guarded touched after the unlock)
		if locked && len(f.Blocks) == 1 {
			lockIdx, unlockIdx := -1, -1
			for i, in := range f.Blocks[0].Instrs {
				if c, ok := in.(*ssa.Call); ok {
					if sc := c.Call.StaticCallee(); sc != nil && funcPkgPath(sc) == "sync" {
						switch sc.Name() {
						case "Lock", "RLock":
							if lockIdx < 0 {
								lockIdx = i
							}
						case "Unlock", "RUnlock":
							unlockIdx = i
						}
					}
				}
			}
			if lockIdx >= 0 && unlockIdx > lockIdx {
				for i, in := range f.Blocks[0].Instrs {
					if fa, ok := in.(*ssa.FieldAddr); ok && (i < lockIdx || i > unlockIdx) {
						if pt, ok := fa.X.Type().Underlying().(*types.Pointer); ok && typeShort(pt.Elem()) == g.typ {
							for _, gf := range g.fields {
								if fieldName(fa.X.Type(), fa.Field) == gf {
									return false
								}
							}
						}
					}
				}
				return true
			}
		}
		return false
	}
	// L.reentrant: sync mutexes are not re-entrant: a method that holds the object's lock never calls (directly or through
	// helpers) another method that takes it - not even a read lock, and not on an error branch only
	for _, g := range guards {
		for _, f := range a.P.Funcs {
			if f.Signature.Recv() == nil || typeShort(f.Signature.Recv().Type()) != g.typ || !locksIn(f, g) {
				continue
			}
			var bad string
			seenF := map[*ssa.Function]bool{f: true}
			var visit func(h *ssa.Function, depth int)
			visit = func(h *ssa.Function, depth int) {
				for _, b := range h.Blocks {
					for _, in := range b.Instrs {
						ci, ok := in.(ssa.CallInstruction)
						if !ok {
							continue
						}
						if _, isGo := in.(*ssa.Go); isGo {
							continue
						}
						sc := ci.Common().StaticCallee()
						if sc == nil || len(sc.Blocks) == 0 || seenF[sc] {
							continue
						}
						if sc.Signature.Recv() == nil || typeShort(sc.Signature.Recv().Type()) != g.typ {
							continue
						}
						// same object? the receiver must be the caller's own receiver
						if len(ci.Common().Args) == 0 || len(h.Params) == 0 || ci.Common().Args[0] != ssa.Value(h.Params[0]) {
							continue
						}
						seenF[sc] = true
						if locksIn(sc, g) {
							if bad == "" {
								bad = shortName(sc) + " (called at " + a.P.InstrPos(in) + ")"
							}
							continue
						}
						if depth < 3 {
							visit(sc, depth+1)
						}
					}
				}
			}
			visit(f, 0)
			r.Check("L.reentrant", props("C16", "C13", "C15", "C12"), "a method that holds the lock of State / ViewContexts / InMemoryStorage does not call another method of the same object that takes that lock (Go mutexes are not re-entrant: the call would block forever with the lock held)", g.typ+"|"+f.Name(), a.P.Pos(f.Pos()), bad == "", "calls "+bad+" while holding the lock", "L")
		}
	}
	for _, g := range guards {
		isGuarded := map[string]bool{}
		for _, f := range g.fields {
			isGuarded[f] = true
		}
		nAcc := 0
		for _, f := range a.P.Funcs {
			for _, b := range f.Blocks {
				for _, in := range b.Instrs {
					fa, ok := in.(*ssa.FieldAddr)
					if !ok {
						continue
					}
					pt, ok := fa.X.Type().Underlying().(*types.Pointer)
					if !ok || typeShort(pt.Elem()) != g.typ {
						continue
					}
					name := fieldName(fa.X.Type(), fa.Field)
					if !isGuarded[name] {
						continue
					}
					// constructor: the object is not shared yet
					if _, isAlloc := fa.X.(*ssa.Alloc); isAlloc {
						continue
					}
					nAcc++
					// held: the function takes the lock itself, or it is a helper all of whose (transitive) static callers hold it
					why := ""
					var held func(h *ssa.Function, depth int, seen map[*ssa.Function]bool) bool
					held = func(h *ssa.Function, depth int, seen map[*ssa.Function]bool) bool {
						if locksIn(h, g) {
							return true
						}
						if seen[h] || depth > 6 {
							return false
						}
						seen[h] = true
						callers := a.staticCallers(h)
						if len(callers) == 0 {
							why = "accessed in " + funcID(h) + " without taking the lock"
							return false
						}
						for _, cf := range callers {
							if !held(cf, depth+1, seen) {
								if why == "" || depth == 0 {
									why = "caller " + funcID(cf) + " does not hold the lock"
								}
								return false
							}
						}
						return true
					}
					ok2 := held(f, 0, map[*ssa.Function]bool{})
					r.Check("L.lock", props("C13", "C15", "C12", "C16"), "every access to the mutex-guarded fields of State / ViewContexts / InMemoryStorage happens under the lock (Lock + deferred Unlock in the method, or in a helper whose callers all hold it)",
						g.typ+"."+name+"|"+shortName(f), a.P.InstrPos(in), ok2, why, "L")
				}
			}
		}
		if nAcc == 0 {
			r.Undecided = append(r.Undecided, "no access to the guarded fields of "+g.typ+" found (anchor)")
		}
	}
}

func (a *Analyzer) staticCallers(f *ssa.Function) []*ssa.Function {
	var out []*ssa.Function
	seen := map[*ssa.Function]bool{}
	for _, g := range a.P.Funcs {
		for _, b := range g.Blocks {
			for _, in := range b.Instrs {
				if ci, ok := in.(ssa.CallInstruction); ok && ci.Common().StaticCallee() == f && !seen[g] {
					seen[g] = true
					out = append(out, g)
				}
			}
		}
	}
	return out
}
