package main

import (
	"fmt"
	"go/ast"
	"go/parser"
	"go/token"
	"os"
	"path/filepath"
	"runtime"
	"runtime/debug"
	"sort"
	"strconv"
	"strings"
)

// Guard-sensitivity sweep (thorough tier, DESIGN §8.1): for every guard site that discharged an obligation, an
// in-memory variant of that one file neutralises the guard; the analysis of the variant must report at least one of
// the obligations the guard had discharged. Nothing is written to disk and nothing is executed.

type sweepResult struct {
	Site      string   `json:"site"`
	Variants  int      `json:"variants"`
	Detected  bool     `json:"detected"`
	NewViol   []string `json:"new_violations,omitempty"`
	Note      string   `json:"note,omitempty"`
	UsedBy    []string `json:"used_by"`
}

func parseSite(s string) (file string, line, col int, ok bool) {
	parts := strings.Split(s, ":")
	if len(parts) != 3 {
		return "", 0, 0, false
	}
	l, e1 := strconv.Atoi(parts[1])
	c, e2 := strconv.Atoi(parts[2])
	if e1 != nil || e2 != nil {
		return "", 0, 0, false
	}
	return parts[0], l, c, true
}

// neutralise returns the variants of src in which the condition containing (line, col) is forced false / true.
func neutralise(path string, src []byte, line, col int) [][]byte {
	fset := token.NewFileSet()
	f, err := parser.ParseFile(fset, path, src, parser.ParseComments)
	if err != nil {
		return nil
	}
	var target ast.Expr
	ast.Inspect(f, func(n ast.Node) bool {
		var cond ast.Expr
		switch x := n.(type) {
		case *ast.IfStmt:
			cond = x.Cond
		}
		if cond == nil {
			return true
		}
		s, e := fset.Position(cond.Pos()), fset.Position(cond.End())
		in := (s.Line < line || (s.Line == line && s.Column <= col)) && (e.Line > line || (e.Line == line && e.Column >= col))
		if in {
			if target == nil || (cond.End()-cond.Pos()) < (target.End()-target.Pos()) {
				target = cond
			}
		}
		return true
	})
	if target == nil {
		return nil
	}
	so, eo := fset.Position(target.Pos()).Offset, fset.Position(target.End()).Offset
	orig := string(src[so:eo])
	mk := func(repl string) []byte {
		return []byte(string(src[:so]) + repl + string(src[eo:]))
	}
	return [][]byte{mk("false && (" + orig + ")"), mk("true || (" + orig + ")")}
}

func runSweep(repo, prop, goarch string, obls []*Obl, maxSites int) ([]sweepResult, map[string]int) {
	// guard site -> obligation keys that used it
	used := map[string]map[string]bool{}
	baseViol := map[string]bool{}
	for _, o := range obls {
		if o.Status != "discharged" {
			baseViol[o.Key] = true
		}
		for _, g := range o.Guards {
			if _, _, _, ok := parseSite(g); !ok {
				continue
			}
			if used[g] == nil {
				used[g] = map[string]bool{}
			}
			used[g][o.Key] = true
		}
	}
	var sites []string
	for s := range used {
		sites = append(sites, s)
	}
	sort.Strings(sites)
	stats := map[string]int{"guard_sites": len(sites)}
	if maxSites > 0 && len(sites) > maxSites {
		// deterministic thinning: every k-th site
		k := (len(sites) + maxSites - 1) / maxSites
		var thin []string
		for i, s := range sites {
			if i%k == 0 {
				thin = append(thin, s)
			}
		}
		sites = thin
	}
	stats["guard_sites_swept"] = len(sites)
	var results []sweepResult
	for _, site := range sites {
		file, line, col, _ := parseSite(site)
		abs := filepath.Join(repo, file)
		src, err := os.ReadFile(abs)
		res := sweepResult{Site: site}
		for k := range used[site] {
			res.UsedBy = append(res.UsedBy, k)
		}
		sort.Strings(res.UsedBy)
		if err != nil {
			res.Note = "cannot read file"
			results = append(results, res)
			continue
		}
		variants := neutralise(abs, src, line, col)
		if len(variants) == 0 {
			res.Note = "condition is not the condition of an if statement (not neutralised)"
			results = append(results, res)
			continue
		}
		for _, v := range variants {
			res.Variants++
			stats["variants"]++
			viol, ok := analyseVariant(repo, prop, goarch, map[string][]byte{abs: v})
			if !ok {
				stats["variants_not_typechecking"]++
				continue
			}
			for k := range viol {
				if !baseViol[k] {
					res.NewViol = append(res.NewViol, k)
				}
			}
			for k := range used[site] {
				if viol[k] && !baseViol[k] {
					res.Detected = true
				}
			}
			if len(res.NewViol) > 0 {
				// any new violation shows the verdict depends on this guard
				res.Detected = true
			}
		}
		sort.Strings(res.NewViol)
		res.NewViol = dedupSorted(res.NewViol)
		if len(res.NewViol) > 6 {
			res.NewViol = res.NewViol[:6]
		}
		if res.Detected {
			stats["detected"]++
		}
		results = append(results, res)
		runtime.GC()
		debug.FreeOSMemory()
	}
	return results, stats
}

// analyseVariant loads the tree with the overlay and returns the violated obligation keys of the property.
func analyseVariant(repo, prop, goarch string, overlay map[string][]byte) (viol map[string]bool, ok bool) {
	defer func() {
		if r := recover(); r != nil {
			viol, ok = nil, false
		}
	}()
	p := Load(repo, goarch, overlay)
	a := NewAnalyzer(p)
	res := NewResults()
	for _, s := range propSets[prop] {
		ruleSets[s](a, res)
	}
	viol = map[string]bool{}
	for _, o := range res.Obls {
		if hasProp(o, prop) && o.Status != "discharged" {
			viol[o.Key] = true
		}
	}
	return viol, true
}

var _ = fmt.Sprintf
