package main

import (
	"encoding/json"
	"fmt"
	"go/types"
	"os"
	"path/filepath"
	"sort"
	"strings"
	"time"
)

type ruleSet struct {
	name string
	run  func(a *Analyzer, r *Results)
}

var ruleSets = map[string]func(a *Analyzer, r *Results){
	"ingest": runIngest,
	"proof":  runProof,
	"c06":    runC06,
	"c18":    runC18,
	"c19f":   runC19formula,
	"c02":    runC02,
	"c12":    runC12,
	"c17":    runC17,
	"chan":   runChannels,
	"spawn":  runSpawn,
	"locks":  runLocks,
	"registry": runRegistry,
	"setters": runStateSetters,
	"sync":   runSyncShape,
	"loops":  runLoops,
	"shutdown": runShutdown,
	"timer":  runTimer,
	"c20":    runC20,
	"more":   runMore,
	"r3":     runR3,
	"prim":   runPrimitives,
}

// which rule sets each property needs
var propSets = map[string][]string{
	"C01": {"prim", "r3", "more", "ingest", "proof", "c06", "c18", "setters"},
	"C02": {"prim", "r3", "c02", "c12", "c20", "c06", "c18"},
	"C03": {"prim", "r3", "ingest", "c20", "c02", "c06"},
	"C04": {"prim", "more", "ingest", "proof", "r3", "c06"},
	"C05": {"r3", "more", "ingest", "chan", "loops", "setters", "c19f", "c20", "registry", "proof", "prim", "shutdown"},
	"C06": {"prim", "c06", "c18", "r3"},
	"C07": {"prim", "r3", "more", "ingest", "proof", "c20", "c06"},
	"C08": {"prim", "r3", "more", "ingest", "proof", "c17"},
	"C09": {"prim", "r3", "more", "ingest", "c20", "proof"},
	"C10": {"prim", "r3", "ingest", "setters", "c20", "c17", "more", "c06"},
	"C11": {"prim", "r3", "more", "ingest", "proof", "c20", "loops", "sync"},
	"C12": {"r3", "more", "c12", "c18", "locks", "ingest", "loops", "spawn", "chan", "registry", "proof", "timer", "shutdown", "c19f"},
	"C13": {"prim", "r3", "more", "ingest", "setters", "locks", "registry", "loops", "c17"},
	"C14": {"prim", "r3", "more", "ingest", "chan", "sync", "loops", "registry", "shutdown", "timer"},
	"C15": {"r3", "more", "ingest", "registry", "locks", "loops", "sync", "shutdown", "chan", "prim"},
	"C16": {"r3", "more", "chan", "spawn", "shutdown", "timer", "c12", "registry", "ingest", "locks"},
	"C17": {"r3", "more", "ingest", "c17", "c12", "setters"},
	"C18": {"prim", "more", "c18", "ingest", "r3", "c19f"},
	"C19": {"r3", "more", "c19f", "timer", "chan", "loops", "ingest", "registry"},
	"C20": {"r3", "more", "c20", "ingest", "prim"},
}

// minimum number of obligation instances per rule confirmed by reading (vacuity guard)
var minInstances = map[string]int{}

type knownFinding struct {
	Property string `json:"property"`
	Key      string `json:"key"`
	Status   string `json:"status"` // known | fixed
	Commit   string `json:"commit,omitempty"`
	What     string `json:"what"`
	Witness  string `json:"witness,omitempty"`
}

func loadKnown(path string) []knownFinding {
	b, err := os.ReadFile(path)
	if err != nil {
		return nil
	}
	var ks []knownFinding
	if err := json.Unmarshal(b, &ks); err != nil {
		broken("known findings file %s is not valid JSON: %v", path, err)
	}
	return ks
}

type levelInfo struct {
	level string
}

var propLevel = map[string]string{"C06": "proof", "C18": "proof"}

func runChecks(repo, prop, tier, outDir, knownPath, explain, goarch string, start time.Time) int {
	if prop == "" {
		fmt.Println("usage: lhcheck -prop C01..C20 [-tier quick|thorough]")
		return 2
	}
	if explain != "" {
		b, err := os.ReadFile(explain)
		if err != nil {
			fmt.Printf("BROKEN: cannot read %s: %v\n", explain, err)
			return 2
		}
		var rep struct {
			Key string `json:"key"`
		}
		if err := json.Unmarshal(b, &rep); err != nil || rep.Key == "" {
			fmt.Printf("BROKEN: %s is not a violation report\n", explain)
			return 2
		}
		explainKey, explainPath = rep.Key, explain
		tier = "quick"
	}
	sets, ok := propSets[prop]
	if !ok && prop != "all" {
		fmt.Printf("BROKEN: no rule set registered for %s\n", prop)
		return 2
	}
	if prop == "all" {
		seen := map[string]bool{}
		for _, ss := range propSets {
			for _, s := range ss {
				if !seen[s] {
					seen[s] = true
					sets = append(sets, s)
				}
			}
		}
		sort.Strings(sets)
	}
	p := Load(repo, goarch, nil)
	a := NewAnalyzer(p)
	res := NewResults()
	for _, s := range sets {
		t0 := time.Now()
		n0 := len(res.Obls)
		ruleSets[s](a, res)
		res.Stats["ms."+s] = int(time.Since(t0).Milliseconds())
		if prop == "all" {
			// self-check of the registration table: a rule set that produces obligations for a property must be run for it
			for _, o := range res.Obls[n0:] {
				for _, pp := range o.Props {
					reg := false
					for _, x := range propSets[pp] {
						if x == s {
							reg = true
						}
					}
					if !reg {
						broken("rule set %q produces obligations for %s (rule %s) but is not registered for it in propSets", s, pp, o.Rule)
					}
				}
			}
		}
	}
	if os.Getenv("LH_DEBUG_TIMES") != "" {
		for k, v := range res.Stats {
			if strings.HasPrefix(k, "ms.") {
				fmt.Fprintf(os.Stderr, "%s=%d\n", k, v)
			}
		}
	}
	extra := map[string]interface{}{}
	if tier == "thorough" && prop != "all" {
		// (1) alternate architecture for the arithmetic properties
		if prop == "C06" || prop == "C18" || prop == "C19" {
			p2 := Load(repo, "386", nil)
			a2 := NewAnalyzer(p2)
			res2 := NewResults()
			for _, s := range sets {
				ruleSets[s](a2, res2)
			}
			n := 0
			for _, o := range res2.Obls {
				o.Key += "@386"
				o.Rule += "@386"
				res.Add(o)
				n++
			}
			res.Undecided = append(res.Undecided, res2.Undecided...)
			extra["goarch_386_instances"] = n
			extra["goarch_386_uint_bytes"] = p2.Sizes.Sizeof(types.Typ[types.Uint])
		}
		// (2) guard-sensitivity sweep
		var mine []*Obl
		for _, o := range res.Obls {
			if hasProp(o, prop) && !strings.HasSuffix(o.Key, "@386") {
				mine = append(mine, o)
			}
		}
		max := 40
		if v := os.Getenv("LH_SWEEP_MAX"); v != "" {
			fmt.Sscanf(v, "%d", &max)
		}
		// (3) canaries: positive examples for the rules that expect zero findings
		{
			expServes := map[string]bool{}
			if b, err := os.ReadFile(filepath.Join(filepath.Dir(knownPath), "expected_rules.json")); err == nil {
				exp := map[string][]string{}
				if json.Unmarshal(b, &exp) == nil {
					for rule, pps := range exp {
						for _, pp := range pps {
							if pp == prop {
								expServes[rule] = true
							}
						}
					}
				}
			}
			// rules that only ever produce findings (no passing instance on a correct tree) are registered here
			zeroRules := map[string][]string{"Z5.go": {"C16", "C12"}, "R5": {"C12"}}
			for rule, pps := range zeroRules {
				for _, pp := range pps {
					if pp == prop {
						expServes[rule] = true
					}
				}
			}
			baseViol := map[string]bool{}
			for _, o := range mine {
				if o.Status != "discharged" {
					baseViol[o.Key] = true
				}
			}
			cres, cfailed := runCanaries(repo, prop, goarch, func(rule string) bool { return expServes[rule] }, baseViol)
			extra["canaries"] = cres
			nf, ns := 0, 0
			for _, c := range cres {
				if c.Fired {
					nf++
				}
				if c.Skipped {
					ns++
				}
			}
			fmt.Printf("CANARY: %d positive examples analysed for %s, %d fired, %d skipped\n", len(cres), prop, nf, ns)
			for _, rule := range cfailed {
				res.Undecided = append(res.Undecided, "canary: rule "+rule+" did not fire on its positive example (the rule no longer matches what it is meant to find)")
			}
		}
		sw, st := runSweep(repo, prop, goarch, mine, max)
		extra["sensitivity"] = sw
		for k, v := range st {
			res.Stats["sweep."+k] = v
		}
		und := 0
		for _, x := range sw {
			if !x.Detected && x.Variants > 0 {
				und++
				fmt.Printf("SWEEP: guard at %s can be neutralised without any rule of %s noticing (redundant guard or blind spot); used by %v\n", x.Site, prop, x.UsedBy)
			}
		}
		fmt.Printf("SWEEP: %d guard sites, %d swept, %d variants, %d sites detected, %d undetected\n", st["guard_sites"], st["guard_sites_swept"], st["variants"], st["detected"], und)
	}
	thoroughExtra = extra
	if os.Getenv("LH_CATALOG") != "" {
		type row struct{ rule, text, engine string; props map[string]bool; n int }
		rows := map[string]*row{}
		for _, o := range res.Obls {
			rw := rows[o.Rule]
			if rw == nil {
				rw = &row{rule: o.Rule, text: o.Text, engine: o.Engine, props: map[string]bool{}}
				rows[o.Rule] = rw
			}
			rw.n++
			for _, p := range o.Props {
				rw.props[p] = true
			}
		}
		var names []string
		for n := range rows {
			names = append(names, n)
		}
		sort.Strings(names)
		f, _ := os.Create(os.Getenv("LH_CATALOG"))
		fmt.Fprintf(f, "# Rule catalogue (generated by `LH_CATALOG=<file> bin/lhcheck -prop all` from the rules evaluated on the current tree)\n\n")
		fmt.Fprintf(f, "| rule | engine | properties | instances | text |\n|---|---|---|---|---|\n")
		for _, n := range names {
			rw := rows[n]
			fmt.Fprintf(f, "| %s | %s | %s | %d | %s |\n", rw.rule, rw.engine, strings.Join(sortedSet(rw.props), " "), rw.n, strings.ReplaceAll(rw.text, "|", "\\|"))
		}
		f.Close()
	}
	if cf := os.Getenv("LH_COVERAGE"); cf != "" {
		// debug: per library function: walked by some walker? how many obligation / guard sites fall inside it?
		type span struct {
			file       string
			start, end int
			id         string
		}
		var spans []span
		for _, fn := range a.P.Funcs {
			if fn.Syntax() == nil || isSpecTypesPkg(funcPkgPath(fn)) {
				continue
			}
			ps, pe := a.P.Fset.Position(fn.Syntax().Pos()), a.P.Fset.Position(fn.Syntax().End())
			rel, _ := filepath.Rel(a.P.Repo, ps.Filename)
			spans = append(spans, span{rel, ps.Line, pe.Line, funcID(fn)})
		}
		cnt := map[string]int{}
		note := func(site string) {
			parts := strings.Split(site, ":")
			if len(parts) < 2 {
				return
			}
			ln := atoi(strings.TrimSuffix(parts[1], "(fn)"))
			best := -1
			for i, sp := range spans {
				if sp.file == parts[0] && sp.start <= ln && ln <= sp.end && (best < 0 || sp.end-sp.start < spans[best].end-spans[best].start) {
					best = i
				}
			}
			if best >= 0 {
				cnt[spans[best].id]++
			}
		}
		for _, o := range res.Obls {
			note(o.Site)
			for _, g := range o.Guards {
				note(g)
			}
		}
		sort.Slice(spans, func(i, j int) bool { return spans[i].id < spans[j].id })
		f, _ := os.Create(cf)
		for _, sp := range spans {
			fmt.Fprintf(f, "%-5v sites=%-3d lines=%-4d %s\n", visitedAll[sp.id], cnt[sp.id], sp.end-sp.start+1, sp.id)
		}
		f.Close()
	}
	if kf := os.Getenv("LH_KEYS"); kf != "" {
		// debug: the obligation keys evaluated on this tree with their worst status (for diffing two trees)
		worst := map[string]string{}
		for _, o := range res.Obls {
			if w, ok := worst[o.Key]; !ok || (w == "discharged" && o.Status != "discharged") {
				worst[o.Key] = o.Status
			}
		}
		var ks []string
		for k, st := range worst {
			ks = append(ks, k+"\t"+st)
		}
		sort.Strings(ks)
		os.WriteFile(kf, []byte(strings.Join(ks, "\n")+"\n"), 0644)
	}
	return report(a, res, prop, tier, outDir, knownPath, start)
}

func hasProp(o *Obl, prop string) bool {
	if prop == "all" {
		return true
	}
	for _, p := range o.Props {
		if p == prop {
			return true
		}
	}
	return false
}

// explainKey: when replaying a violation report, only the recorded obligation key is re-evaluated and printed
var explainKey, explainPath string

func report(a *Analyzer, res *Results, prop, tier, outDir, knownPath string, start time.Time) int {
	if explainKey != "" {
		found, violated := false, false
		for _, o := range res.Obls {
			if o.Key != explainKey {
				continue
			}
			found = true
			if o.Status != "discharged" {
				violated = true
				fmt.Printf("STILL VIOLATED: %s\n  rule %s: %s\n  at %s\n  missing: %s\n  path: %s\n", o.Key, o.Rule, o.Text, o.Site, o.Missing, o.Path)
				for _, h := range o.Held {
					fmt.Printf("    held: %s\n", h)
				}
			}
		}
		switch {
		case !found:
			fmt.Printf("NOT FOUND: no obligation with key %s is generated on the current tree (the construct is gone)\n", explainKey)
			return 0
		case violated:
			fmt.Printf("VIOLATION property=%s replay=%s\n", prop, explainPath)
			return 1
		default:
			fmt.Printf("DISCHARGED: %s holds on the current tree\n", explainKey)
			return 0
		}
	}
	known := loadKnown(knownPath)
	var obls []*Obl
	for _, o := range res.Obls {
		if hasProp(o, prop) {
			obls = append(obls, o)
		}
	}
	sort.SliceStable(obls, func(i, j int) bool {
		if obls[i].Key != obls[j].Key {
			return obls[i].Key < obls[j].Key
		}
		return obls[i].Site < obls[j].Site
	})
	// group by key
	type group struct {
		key      string
		rule     string
		insts    []*Obl
		violated []*Obl
	}
	groups := map[string]*group{}
	var order []string
	for _, o := range obls {
		g := groups[o.Key]
		if g == nil {
			g = &group{key: o.Key, rule: o.Rule}
			groups[o.Key] = g
			order = append(order, o.Key)
		}
		g.insts = append(g.insts, o)
		if o.Status != "discharged" {
			g.violated = append(g.violated, o)
		}
	}
	code := 0
	// what could not be decided (a lost anchor, an exceeded bound, a rule matching fewer sites than confirmed by reading)
	// is reported like a violation: the property was not shown to hold on this tree
	undecided := func(what string) {
		o := &Obl{Rule: "UNDECIDED", Key: "UNDECIDED|" + what, Props: []string{prop}, Status: "undecided", Site: "-", Engine: "-",
			Text: "every obligation of the property is decided on this tree (an anchor the rules rely on was found, bounds were not exceeded, rules match at least the sites confirmed by reading)", Missing: what}
		g := &group{key: o.Key, rule: o.Rule, insts: []*Obl{o}, violated: []*Obl{o}}
		groups[o.Key] = g
		order = append(order, o.Key)
	}
	for _, u := range dedupSorted(res.Undecided) {
		fmt.Printf("UNDECIDED: %s\n", u)
		undecided(u)
	}
	// vacuity
	ruleCount := map[string]int{}
	for _, o := range obls {
		ruleCount[o.Rule]++
	}
	var vac []string
	for rule, min := range minInstances {
		if ruleServes(rule, prop) && ruleCount[rule] < min {
			vac = append(vac, fmt.Sprintf("rule %s matched %d sites, fewer than the %d confirmed by reading (vacuous pass refused)", rule, ruleCount[rule], min))
		}
	}
	// every rule of the catalogue confirmed on the reference tree must still find something to judge: a rule whose
	// anchor construct disappeared would otherwise pass vacuously for ever
	if explainKey == "" {
		expFile := filepath.Join(filepath.Dir(knownPath), "expected_rules.json")
		if w := os.Getenv("LH_EXPECTED"); w != "" && prop == "all" {
			exp := map[string][]string{}
			for _, o := range obls {
				for _, pp := range o.Props {
					found := false
					for _, x := range exp[o.Rule] {
						if x == pp {
							found = true
						}
					}
					if !found {
						exp[o.Rule] = append(exp[o.Rule], pp)
					}
				}
			}
			for k := range exp {
				sort.Strings(exp[k])
			}
			b, _ := json.MarshalIndent(exp, "", " ")
			os.WriteFile(w, append(b, '\n'), 0o644)
		}
		if b, err := os.ReadFile(expFile); err == nil {
			exp := map[string][]string{}
			if json.Unmarshal(b, &exp) == nil {
				var names []string
				for rule := range exp {
					names = append(names, rule)
				}
				sort.Strings(names)
				for _, rule := range names {
					serves := prop == "all"
					for _, pp := range exp[rule] {
						if pp == prop {
							serves = true
						}
					}
					if serves && ruleCount[rule] == 0 {
						vac = append(vac, fmt.Sprintf("rule %s found nothing to judge on this tree (it is confirmed on the reference tree: the construct it is anchored in is gone or no longer recognised)", rule))
					}
				}
			}
		} else {
			vac = append(vac, "cannot read "+expFile)
		}
	}
	sort.Strings(vac)
	for _, v := range vac {
		fmt.Printf("BROKEN: %s\n", v)
		undecided(v)
	}
	if len(obls) == 0 {
		fmt.Printf("BROKEN: no obligations generated for %s\n", prop)
		undecided("no obligations generated for " + prop)
	}
	nViol, nKnown, nDis := 0, 0, 0
	os.MkdirAll(filepath.Join(outDir, "violations"), 0o755)
	// remove stale violation reports of this property
	if old, _ := filepath.Glob(filepath.Join(outDir, "violations", prop+"-*.json")); old != nil {
		for _, f := range old {
			os.Remove(f)
		}
	}
	var lines []string
	for _, k := range order {
		g := groups[k]
		if len(g.violated) == 0 {
			nDis++
			continue
		}
		// known?
		var kf *knownFinding
		for i := range known {
			if known[i].Status == "known" && known[i].Key == g.key && (known[i].Property == prop || prop == "all") {
				kf = &known[i]
			}
		}
		if kf != nil {
			nKnown++
			lines = append(lines, fmt.Sprintf("KNOWN-FINDING: property=%s %s %s", prop, g.key, kf.What))
			continue
		}
		nViol++
		path := filepath.Join(outDir, "violations", fmt.Sprintf("%s-%d.json", prop, nViol))
		rep := map[string]interface{}{
			"property": prop, "key": g.key, "rule": g.rule, "text": g.violated[0].Text,
			"instances": g.violated, "replay": fmt.Sprintf("/verif/bin/lhcheck -prop %s -explain %s", prop, path),
		}
		b, _ := json.MarshalIndent(rep, "", " ")
		os.WriteFile(path, b, 0o644)
		v := g.violated[0]
		lines = append(lines, fmt.Sprintf("VIOLATION property=%s replay=%s", prop, path))
		lines = append(lines, fmt.Sprintf("  rule %s: %s", g.rule, v.Text))
		lines = append(lines, fmt.Sprintf("  at %s  missing: %s", v.Site, v.Missing))
		if v.Path != "" {
			lines = append(lines, fmt.Sprintf("  path: %s", v.Path))
		}
	}
	for _, l := range lines {
		fmt.Println(l)
	}
	if nViol > 0 {
		code = 1 // a decided violation stands even if other obligations could not be decided
	}
	wall := time.Since(start).Seconds()
	fmt.Printf("%s: %d obligation keys (%d instances): %d discharged, %d known findings, %d violations; %d packages, %d functions; %.1fs\n",
		prop, len(order), len(obls), nDis, nKnown, nViol, len(a.P.Pkgs), len(a.P.Funcs), wall)
	if prop != "all" {
		writeEvidence(a, res, prop, tier, outDir, obls, len(order), nDis, nKnown, nViol, wall, code)
	}
	return code
}

// reportUndecidedOnly: the analysis stopped at a lost anchor; write the report and the VIOLATION line for it.
func reportUndecidedOnly(prop, outDir, what string) int {
	os.MkdirAll(filepath.Join(outDir, "violations"), 0o755)
	if old, _ := filepath.Glob(filepath.Join(outDir, "violations", prop+"-*.json")); old != nil {
		for _, f := range old {
			os.Remove(f)
		}
	}
	path := filepath.Join(outDir, "violations", prop+"-1.json")
	o := &Obl{Rule: "UNDECIDED", Key: "UNDECIDED|" + what, Props: []string{prop}, Status: "undecided", Site: "-", Engine: "-",
		Text: "every obligation of the property is decided on this tree", Missing: what}
	rep := map[string]interface{}{
		"property": prop, "key": o.Key, "rule": o.Rule, "text": o.Text,
		"instances": []*Obl{o}, "replay": fmt.Sprintf("/verif/bin/lhcheck -prop %s -explain %s", prop, path),
	}
	b, _ := json.MarshalIndent(rep, "", " ")
	os.WriteFile(path, b, 0o644)
	fmt.Printf("VIOLATION property=%s replay=%s\n", prop, path)
	fmt.Printf("  rule UNDECIDED: %s\n  missing: %s\n", o.Text, what)
	return 1
}

func ruleServes(rule, prop string) bool {
	return true
}

func writeEvidence(a *Analyzer, res *Results, prop, tier, outDir string, obls []*Obl, nKeys, nDis, nKnown, nViol int, wall float64, code int) {
	level := propLevel[prop]
	if level == "" {
		level = "other"
	}
	var samples []interface{}
	guardSites := map[string]bool{}
	nontrivial := map[string]bool{}
	ruleInst := map[string]int{}
	for _, o := range obls {
		ruleInst[o.Rule]++
		for _, g := range o.Guards {
			guardSites[g] = true
		}
		if len(o.Guards) > 0 || o.Status != "discharged" || o.Engine != "A" {
			nontrivial[o.Key] = true
		}
	}
	seenRule := map[string]bool{}
	for _, o := range obls {
		if seenRule[o.Rule] || len(samples) >= 12 {
			continue
		}
		seenRule[o.Rule] = true
		samples = append(samples, map[string]interface{}{"rule": o.Rule, "key": o.Key, "text": o.Text, "status": o.Status, "site": o.Site, "path": o.Path, "guards": o.Guards, "missing": o.Missing})
	}
	var pkgs []string
	for _, p := range a.P.Pkgs {
		pkgs = append(pkgs, strings.TrimPrefix(p.PkgPath, modPath))
	}
	seed := 0
	fmt.Sscanf(os.Getenv("VERIF_SEED"), "%d", &seed)
	cov := map[string]interface{}{
		"explanation":         explanationFor(prop, obls),
		"packages":            pkgs,
		"functions_analysed":  len(a.P.Funcs),
		"rule_instances":      ruleInst,
		"obligations":         nKeys,
		"discharged":          nDis + nKnown,
		"known_findings":      nKnown,
		"guard_sites_used":    len(guardSites),
		"evaluations":         len(obls),
		"distinct_nontrivial": len(nontrivial),
		"rule":                "one evaluation per (rule, effect site, call path, case split); distinct = distinct obligation keys (rule|entry|effect|kind); non-trivial = discharged through at least one guard site, structural, or violated",
		"samples":             samples,
		"checker_cmd":         fmt.Sprintf("/verif/bin/lhcheck -prop %s -tier %s", prop, tier),
		"trusted_base":        []string{"go/types, go/ssa, callgraph/cha+vta of golang.org/x/tools v0.29.0", "Go language semantics of integer arithmetic and control flow", "SPI contracts of services/interfaces taken at their documented meaning", "observational purity of the generated membuffers readers"},
		"exhaustive":          true,
		"stats":               res.Stats,
		"exit_code":           code,
	}
	for k, v := range thoroughExtra {
		cov[k] = v
	}
	if level == "proof" && nDis+nKnown != nKeys {
		// a proof-level claim needs all obligations discharged
		cov["note"] = "not all obligations discharged on this run"
	}
	ev := map[string]interface{}{
		"property_id": prop, "tier": tier, "seed": seed, "level": level, "coverage": cov,
		"assumptions": []string{"single worker goroutine executes all term logic (checked by who-may-call rules)", "singleton-by-type abstraction of the long-lived objects", "SPI implementations honour their interface contracts"},
		"wall_s":      wall, "violations": nViol,
	}
	os.MkdirAll(outDir, 0o755)
	b, _ := json.MarshalIndent(ev, "", " ")
	os.WriteFile(filepath.Join(outDir, prop+".json"), b, 0o644)
}

var propExplanation = map[string]string{}

var thoroughExtra map[string]interface{}

func explanationFor(prop string, obls []*Obl) string {
	var sb strings.Builder
	sb.WriteString("Static analysis of /repo's current source (type-checked packages, SSA, VTA call graph); nothing is executed. ")
	if s := propExplanation[prop]; s != "" {
		sb.WriteString(s + " ")
	}
	sb.WriteString("Each rule below is a universally quantified claim over all paths of the program; an obligation is one rule at one effect site on one call path (and case split). Rules decided in this run: ")
	seen := map[string]bool{}
	var rules []string
	for _, o := range obls {
		if !seen[o.Rule] {
			seen[o.Rule] = true
			rules = append(rules, o.Rule+" = "+o.Text)
		}
	}
	sort.Strings(rules)
	sb.WriteString(strings.Join(rules, "; "))
	sb.WriteString(". What is NOT decided is listed per property in DESIGN.md §4.")
	return sb.String()
}
