package main

import (
	"go/token"
	"fmt"
	"sort"
	"strings"

	"golang.org/x/tools/go/ssa"
)

// Obl is one obligation instance (rule x effect site x call path), DESIGN §2.14.
type Obl struct {
	Rule    string   `json:"rule"`
	Key     string   `json:"key"`
	Props   []string `json:"properties"`
	Text    string   `json:"text"`
	Status  string   `json:"status"` // discharged | violated | undecided
	Entry   string   `json:"entry,omitempty"`
	Site    string   `json:"site"`
	Path    string   `json:"path,omitempty"`
	Missing string   `json:"missing,omitempty"`
	Guards  []string `json:"guards,omitempty"`
	Held    []string `json:"held,omitempty"`
	Engine  string   `json:"engine,omitempty"`
	Subject string   `json:"subject,omitempty"`
}

type Results struct {
	Obls      []*Obl
	Undecided []string
	Stats     map[string]int
	Notes     []string
}

func NewResults() *Results { return &Results{Stats: map[string]int{}} }

func (r *Results) Add(o *Obl) { r.Obls = append(r.Obls, o) }

func (r *Results) CountRule(rule string) int {
	n := 0
	for _, o := range r.Obls {
		if o.Rule == rule {
			n++
		}
	}
	return n
}

// Structural obligation helper for the non-dataflow engines.
func (r *Results) Check(rule string, props []string, text, key, site string, ok bool, missing string, engine string) *Obl {
	o := &Obl{Rule: rule, Key: rule + "|" + key, Props: props, Text: text, Site: site, Engine: engine, Subject: key}
	if ok {
		o.Status = "discharged"
	} else {
		o.Status = "violated"
		o.Missing = missing
	}
	r.Add(o)
	return o
}

// ---------------------------------------------------------------- evaluation context at an effect

type Eval struct {
	A     *Analyzer
	E     *Effect
	R     *Results
	facts Facts
	rw    map[string]*Term
	// ExtraProps: properties every verdict of this evaluation also belongs to (set by the effect's context)
	ExtraProps []string
}

func (a *Analyzer) NewEval(e *Effect, r *Results) *Eval {
	ev := &Eval{A: a, E: e, R: r}
	// facts are already closed under the validator summaries (materialised eagerly by the dataflow)
	ev.facts, ev.rw = a.Normalize(e.Facts)
	return ev
}

// Normalize derives rewrite rules from value equalities  ext:k(call) = t  and saturates the fact set.
func (a *Analyzer) Normalize(f Facts) (Facts, map[string]*Term) {
	rw := map[string]*Term{}
	for _, at := range f {
		if at.Pred != "eq" || at.Neg {
			continue
		}
		for i := 0; i < 2; i++ {
			l, r := at.Args[i], at.Args[1-i]
			// a snapshot that still equals the live read is the live read
			if l.Op == "pre" && strings.HasSuffix(l.Name, "!snap") && len(l.Args) == 1 && l.Args[0].Key() == r.Key() {
				rw[l.Key()] = r
				continue
			}
			base := l
			if base.Op == "field" && len(base.Args) == 1 {
				base = base.Args[0]
			}
			// the single result of an unexported helper that is known to equal something more primitive (what the helper
			// returns: typically a factory / SPI call) is rewritten to it
			if l.Op == "call" && r.Op == "call" && l.Key() != r.Key() {
				if g := a.calleeOf(l); g != nil && !token.IsExported(g.Name()) && g.Signature.Results().Len() == 1 {
					rg := a.calleeOf(r)
					internal := r.Contains(func(t *Term) bool { return t.Op == "phi" || t.Op == "unk" || t.Op == "make" })
					if !internal && !r.ContainsKey(l.Key()) && (rg == nil || token.IsExported(rg.Name()) || r.Key() < l.Key()) {
						if _, dup := rw[l.Key()]; !dup {
							rw[l.Key()] = r
						}
						continue
					}
				}
			}
			isHelperResult := base.Op == "ext" && len(base.Args) == 1 && base.Args[0].Op == "call" && a.calleeOf(base.Args[0]) != nil
			if !isHelperResult && base != l && base.Op == "call" {
				// a field of the single (struct / pointer) result of an unexported helper
				if g := a.calleeOf(base); g != nil && g.Signature.Results().Len() == 1 && !token.IsExported(g.Name()) {
					isHelperResult = true
				}
			}
			if isHelperResult &&
				(a.rwRank(l) > a.rwRank(r) || (a.rwRank(l) == a.rwRank(r) && a.rwTieBreak(l, r))) {
				internal := r.Contains(func(t *Term) bool { return t.Op == "phi" || t.Op == "unk" || t.Op == "make" })
				if !r.ContainsKey(l.Key()) && r.Key() != tNil.Key() && !internal {
					if _, dup := rw[l.Key()]; !dup {
						rw[l.Key()] = r
					}
				}
			}
		}
	}
	if len(rw) == 0 {
		return f, rw
	}
	res := f.Clone()
	for _, at := range f {
		cur := at
		for i := 0; i < 4; i++ {
			n := cur.Subst(rw)
			if n.Key() == cur.Key() {
				break
			}
			n.Site = at.Site
			res.Add(n)
			cur = n
		}
	}
	return res, rw
}

// Assume adds an atom (and what it implies through the validator summaries) to the facts of this evaluation:
// used for "this return accepts only if <returned value> is nil/true".
func (ev *Eval) Assume(a *Atom) {
	f := ev.facts.Clone()
	f.Add(a)
	addConjuncts(f, a)
	if ev.E.Flow != nil {
		ev.E.Flow.addDerived(f, a)
	}
	ev.facts, ev.rw = ev.A.Normalize(f)
}

// Simplify resolves conditional (ite) sub-terms whose condition is decided by the facts.
func (ev *Eval) Simplify(t *Term) *Term {
	has := func(a *Atom) bool { return ev.facts.Has(a) != nil }
	var rec func(t *Term) *Term
	rec = func(t *Term) *Term {
		if t.Op == "ite" && len(t.Args) == 3 {
			switch evalBool(t.Args[0], has) {
			case 1:
				return rec(t.Args[1])
			case -1:
				return rec(t.Args[2])
			}
		}
		if len(t.Args) == 0 {
			return t
		}
		changed := false
		na := make([]*Term, len(t.Args))
		for i, x := range t.Args {
			na[i] = rec(x)
			if na[i] != x {
				changed = true
			}
		}
		if !changed {
			return t
		}
		return rebuild(t, na)
	}
	return rec(t)
}

func (ev *Eval) Norm(t *Term) *Term {
	for i := 0; i < 4; i++ {
		n := t.Subst(ev.rw)
		if n.Key() == t.Key() {
			return n
		}
		t = n
	}
	return t
}

func (ev *Eval) NormAtom(a *Atom) *Atom {
	for i := 0; i < 4; i++ {
		n := a.Subst(ev.rw)
		if n.Key() == a.Key() {
			return n
		}
		a = n
	}
	return a
}

// Arg returns the i-th argument of the effect. Values frozen for THIS call (read just before it) are shown live:
// at the call point the snapshot and the live value coincide.
func (ev *Eval) Arg(i int) *Term {
	if i < len(ev.E.Args) {
		t := ev.E.Args[i]
		if v, ok := ev.E.Instr.(interface{ Name() string }); ok {
			t = unfreezeID(t, funcID(ev.E.C.Fn)+"#"+v.Name())
		}
		return ev.Norm(t)
	}
	return Unk("noarg")
}

func unfreezeID(t *Term, id string) *Term {
	if t.Op == "pre" && t.Name == id && len(t.Args) == 1 {
		return unfreezeID(t.Args[0], id)
	}
	if len(t.Args) == 0 {
		return t
	}
	changed := false
	na := make([]*Term, len(t.Args))
	for i, a := range t.Args {
		na[i] = unfreezeID(a, id)
		if na[i] != a {
			changed = true
		}
	}
	if !changed {
		return t
	}
	return rebuild(t, na)
}

// Has: does the atom (or a stronger one) hold at the effect? Exact, then by implication, then modulo the
// congruence closure of the known equalities.
func (ev *Eval) Has(a *Atom) *Atom {
	if h := ev.facts.Has(a); h != nil {
		return h
	}
	n := ev.NormAtom(a)
	if n.Key() != a.Key() {
		if h := ev.facts.Has(n); h != nil {
			return h
		}
	}
	// trivially true equalities
	if a.Pred == "eq" && !a.Neg && ev.Same(a.Args[0], a.Args[1]) {
		return &Atom{Pred: "eq", Args: a.Args, Site: ""}
	}
	for _, cand := range []*Atom{a, stronger1(a), stronger2(a)} {
		if cand == nil {
			continue
		}
		for _, k := range ev.facts.SortedKeys() {
			f := ev.facts[k]
			if f.Pred != cand.Pred || f.Neg != cand.Neg || len(f.Args) != len(cand.Args) {
				continue
			}
			if ev.sameArgs(f.Args, cand.Args) {
				return f
			}
			if (f.Pred == "eq") && len(f.Args) == 2 && ev.Same(f.Args[0], cand.Args[1]) && ev.Same(f.Args[1], cand.Args[0]) {
				return f
			}
		}
	}
	return nil
}

func stronger1(a *Atom) *Atom {
	switch {
	case a.Pred == "le":
		return &Atom{Pred: "lt", Args: a.Args}
	case a.Pred == "eq" && a.Neg:
		return &Atom{Pred: "lt", Args: a.Args}
	}
	return nil
}

func stronger2(a *Atom) *Atom {
	switch {
	case a.Pred == "le":
		return &Atom{Pred: "eq", Args: a.Args}
	case a.Pred == "eq" && a.Neg:
		return &Atom{Pred: "lt", Args: []*Term{a.Args[1], a.Args[0]}}
	}
	return nil
}

func (ev *Eval) sameArgs(x, y []*Term) bool {
	for i := range x {
		if !ev.Same(x[i], y[i]) {
			return false
		}
	}
	return true
}

// Same: equal keys, a known equality, or congruent (same constructor over Same arguments).
func (ev *Eval) Same(x, y *Term) bool {
	return ev.same(x, y, 0)
}

func (ev *Eval) same(x, y *Term, depth int) bool {
	if x.Key() == y.Key() {
		return true
	}
	if depth == 0 && (x.ContainsKey("ite(") || y.ContainsKey("ite(")) {
		x, y = ev.Simplify(x), ev.Simplify(y)
		if x.Key() == y.Key() {
			return true
		}
	}
	if depth > 8 {
		return false
	}
	if ev.facts.Has(Eq(x, y)) != nil {
		return true
	}
	nx, ny := ev.Norm(x), ev.Norm(y)
	if nx.Key() == ny.Key() {
		return true
	}
	if x.Op == y.Op && x.Name == y.Name && len(x.Args) == len(y.Args) && len(x.Args) > 0 {
		if x.Op == "struct" {
			for i := range x.FNames {
				if x.FNames[i] != y.FNames[i] {
					return false
				}
			}
		}
		for i := range x.Args {
			if !ev.same(x.Args[i], y.Args[i], depth+1) {
				return false
			}
		}
		return true
	}
	return false
}

// Find returns the bindings of every fact matching the pattern atom.
func (ev *Eval) Find(p *Atom) []map[string]*Term {
	var out []map[string]*Term
	for _, k := range ev.facts.SortedKeys() {
		f := ev.facts[k]
		if f.Pred != p.Pred || f.Neg != p.Neg || len(f.Args) != len(p.Args) {
			continue
		}
		b := map[string]*Term{}
		ok := true
		for i := range p.Args {
			if !Match(p.Args[i], f.Args[i], b) {
				ok = false
				break
			}
		}
		if !ok && p.Pred == "eq" && len(p.Args) == 2 {
			b = map[string]*Term{}
			ok = Match(p.Args[0], f.Args[1], b) && Match(p.Args[1], f.Args[0], b)
		}
		if ok {
			out = append(out, b)
		}
	}
	return out
}

func entryLabels() []string { return []string{idE1, idE2, idE3, idE4} }

func (ev *Eval) key(rule, kind string) string {
	entry := ev.E.Entry
	// the nearest known entry on the call path labels the obligation (a drain reached from a sync is still "the drain")
	for i := len(ev.E.Path) - 1; i >= 0; i-- {
		found := false
		for _, l := range entryLabels() {
			if ev.E.Path[i].Fn == l {
				entry = l
				found = true
			}
		}
		if found {
			break
		}
	}
	if i := strings.LastIndex(entry, "."); i >= 0 {
		entry = entry[i+1:]
	}
	k := rule + "|" + entry + "|" + ev.E.Name
	if kind != "" {
		k += "|" + kind
	}
	return k
}

func (ev *Eval) heldSample() []string {
	var out []string
	for _, k := range ev.facts.SortedKeys() {
		if strings.HasPrefix(k, "done(") {
			continue
		}
		if strings.Contains(k, "#t") && (strings.HasPrefix(k, "le(len") || strings.Contains(k, "quorum.Calc") || strings.Contains(k, "quorum.getCommitteeSubsetWeight")) {
			continue
		}
		out = append(out, PPAtom(ev.facts[k]))
		if len(out) >= 60 {
			break
		}
	}
	return out
}

// Require: all atoms must hold. kind distinguishes root kinds in the key.
func (ev *Eval) Require(rule string, props []string, text, kind string, atoms ...*Atom) bool {
	o := &Obl{Rule: rule, Key: ev.key(rule, kind), Props: ev.withExtra(props), Text: text, Entry: ev.E.Entry, Site: ev.E.Pos(ev.A), Path: ev.E.PathString(), Engine: "A"}
	ok := true
	for _, a := range atoms {
		h := ev.Has(a)
		if h == nil {
			ok = false
			if o.Missing != "" {
				o.Missing += " ; "
			}
			o.Missing += PPAtom(a)
		} else if h.Site != "" {
			o.Guards = append(o.Guards, h.Site)
		}
	}
	if ok {
		o.Status = "discharged"
	} else {
		o.Status = "violated"
		o.Held = ev.heldSample()
	}
	ev.R.Add(o)
	return ok
}

// RequireAny: at least one alternative (a conjunction) must hold.
func (ev *Eval) RequireAny(rule string, props []string, text, kind string, alts ...[]*Atom) bool {
	o := &Obl{Rule: rule, Key: ev.key(rule, kind), Props: ev.withExtra(props), Text: text, Entry: ev.E.Entry, Site: ev.E.Pos(ev.A), Path: ev.E.PathString(), Engine: "A"}
	var missing []string
	for _, alt := range alts {
		ok := true
		var guards []string
		var miss []string
		for _, a := range alt {
			h := ev.Has(a)
			if h == nil {
				ok = false
				miss = append(miss, PPAtom(a))
			} else if h.Site != "" {
				guards = append(guards, h.Site)
			}
		}
		if ok {
			o.Status = "discharged"
			o.Guards = guards
			ev.R.Add(o)
			return true
		}
		missing = append(missing, strings.Join(miss, " & "))
	}
	o.Status = "violated"
	o.Missing = strings.Join(missing, "  |OR|  ")
	o.Held = ev.heldSample()
	ev.R.Add(o)
	return false
}

// Verdict records a rule outcome computed by custom logic at this effect.
func (ev *Eval) withExtra(props []string) []string {
	if len(ev.ExtraProps) == 0 {
		return props
	}
	return dedupSorted(append(append([]string{}, props...), ev.ExtraProps...))
}

func (ev *Eval) Verdict(rule string, props []string, text, kind string, ok bool, missing string, guards ...string) bool {
	o := &Obl{Rule: rule, Key: ev.key(rule, kind), Props: ev.withExtra(props), Text: text, Entry: ev.E.Entry, Site: ev.E.Pos(ev.A), Path: ev.E.PathString(), Engine: "A"}
	if ok {
		o.Status = "discharged"
		o.Guards = guards
	} else {
		o.Status = "violated"
		o.Missing = missing
		o.Held = ev.heldSample()
	}
	ev.R.Add(o)
	return ok
}

// ---------------------------------------------------------------- atom constructors for rules

func ErrNil(t *Term) *Atom  { return atomOf(Bin("==", t, tNil), "") }
func Truth(t *Term) *Atom   { return atomOf(t, "") }
func Eq(a, b *Term) *Atom   { return atomOf(Bin("==", a, b), "") }
func Ne(a, b *Term) *Atom   { return atomOf(Bin("==", a, b), "").Negate() }
func Lt(a, b *Term) *Atom   { return &Atom{Pred: "lt", Args: []*Term{a, b}} }
func Le(a, b *Term) *Atom   { return &Atom{Pred: "le", Args: []*Term{a, b}} }
func NotA(a *Atom) *Atom    { return a.Negate() }
func Done(t *Term) *Atom    { return &Atom{Pred: "done", Args: []*Term{t}} }
func ForAll(c *Term, inner *Atom) *Atom {
	inner = inner.Subst(map[string]*Term{"<none>": tNil}) // re-canonicalise argument order
	return &Atom{Pred: "forall", Args: []*Term{c, atomTerm(inner)}}
}
func Unique(c, key *Term) *Atom { return &Atom{Pred: "unique", Args: []*Term{c, key}} }

var bound = T("bound", "e")

func props(p ...string) []string { return p }

func dedupSorted(xs []string) []string {
	sort.Strings(xs)
	out := xs[:0]
	for i, x := range xs {
		if i == 0 || x != xs[i-1] {
			out = append(out, x)
		}
	}
	return out
}

func fmtf(format string, a ...interface{}) string { return fmt.Sprintf(format, a...) }

// rwRank orients value equalities into rewrite rules (no cycles): a projection of a helper's result struct is rewritten
// to what it equals, the result of an unexported helper is rewritten to the result of an exported (anchor) function,
// never the other way round.
// rwTieBreak: two helper results of equal rank. The result of the helper that (transitively) calls the other one is
// rewritten to the inner one (a wrapper's result is defined by what it wraps); unrelated helpers are ordered by key.
func (a *Analyzer) rwTieBreak(l, r *Term) bool {
	fnOf := func(t *Term) *ssa.Function {
		b := t
		if b.Op == "field" && len(b.Args) == 1 {
			b = b.Args[0]
		}
		if b.Op == "ext" && len(b.Args) == 1 {
			b = b.Args[0]
		}
		if b.Op == "call" {
			return a.calleeOf(b)
		}
		return nil
	}
	lf, rf := fnOf(l), fnOf(r)
	if lf != nil && rf != nil && lf != rf {
		lr := a.callsTransitively(lf, rf)
		rl := a.callsTransitively(rf, lf)
		if lr && !rl {
			return true
		}
		if rl && !lr {
			return false
		}
	}
	return !(r.Op == "ext" && len(r.Args) == 1 && r.Args[0].Op == "call" && r.Key() > l.Key())
}

func (a *Analyzer) callsTransitively(f, g *ssa.Function) bool {
	seen := map[*ssa.Function]bool{}
	var rec func(x *ssa.Function, d int) bool
	rec = func(x *ssa.Function, d int) bool {
		if seen[x] || d > 6 {
			return false
		}
		seen[x] = true
		for _, c := range a.calleesOf(x) {
			if c == g || rec(c, d+1) {
				return true
			}
		}
		return false
	}
	return rec(f, 0)
}

func (a *Analyzer) rwRank(t *Term) int {
	rank := 0
	base := t
	if base.Op == "field" && len(base.Args) == 1 {
		base = base.Args[0]
		rank = 2
	}
	if base.Op == "ext" && len(base.Args) == 1 && base.Args[0].Op == "call" {
		if f := a.calleeOf(base.Args[0]); f != nil {
			if !token.IsExported(f.Name()) {
				rank++
			}
			return rank
		}
	}
	if base.Op == "call" {
		// the single result of a library helper
		if f := a.calleeOf(base); f != nil && f.Signature.Results().Len() == 1 {
			if !token.IsExported(f.Name()) {
				rank++
			}
			return rank
		}
	}
	return -1 // not a helper result at all: never a left-hand side anyway
}
