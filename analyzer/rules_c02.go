package main

import (
	"strings"

	"golang.org/x/tools/go/ssa"
)

// C02: every accepting return of ValidateBlockConsensus is dominated by the full check list (DESIGN §4 C02).

const idVBC = "(*leanhelix.WorkerLoop).ValidateBlockConsensus"

func runC02(a *Analyzer, r *Results) {
	pr := props("C02")
	k := a.Anchors()
	fn := a.P.Func(idVBC)
	if len(fn.Params) != 7 {
		broken("unresolved anchor: WorkerLoop.ValidateBlockConsensus no longer has 6 parameters")
	}
	names := []string{"recv", "ctx", "block", "proofBytes", "prevBlock", "prevProofBytes", "soft"}
	roots := map[string]*Term{}
	for i, p := range fn.Params {
		roots[p.Name()] = Root(names[i])
	}
	ctx, block, pb, prev, ppb, soft := Root("ctx"), Root("block"), Root("proofBytes"), Root("prevBlock"), Root("prevProofBytes"), Root("soft")
	BP := Call("protocol.BlockProofReader", pb)
	BR := Call("protocol.BlockRef", BP)
	NODES := Call("protocol.NodesIterator", BP)
	height := Call("interfaces.Height", block)
	cfg := This("interfaces.Config")
	nAccept := 0
	for _, mode := range []struct {
		name   string
		assume *Atom
	}{{"soft", Truth(soft)}, {"strict", NotA(Truth(soft))}} {
		w := a.NewWalker(func(e *Effect) {
			if e.Kind != "return" || len(e.Args) != 1 {
				return
			}
			val := e.Args[0]
			ev := a.NewEval(e, r)
			if isErrCtor(val) {
				return
			}
			if w := wrappedErr(val); w != nil {
				// errors.Wrap(err, ..) is nil exactly when err is: a rejection only if err is known to be non-nil here
				if w.Key() != tNil.Key() && ev.Has(Ne(w, tNil)) != nil {
					return
				}
				val = w
			}
			if val.Key() != tNil.Key() && ev.Has(Ne(val, tNil)) != nil {
				return // passes a known non-nil error through
			}
			nAccept++
			kind := mode.name
			if val.Key() != tNil.Key() {
				// the verdict is delegated to the returned expression: acceptance means it is nil
				ev.Assume(ErrNil(val))
			}
			ev.Require("V1", pr, "acceptance only under a live context", kind, ErrNil(Call("context.Err", ctx)))
			ev.Require("V2", pr, "acceptance only for a non-nil block", kind, Ne(block, tNil))
			ev.Require("V3", pr, "acceptance only for non-empty proof bytes", kind, Ne(Len(pb), Const("0")))
			ev.Require("V4", pr, "the certificate is typed COMMIT", kind, Eq(mtype(BR), k.ProtoConst("LEAN_HELIX_COMMIT")))
			ev.Require("V5", pr, "the certificate belongs to this instance", kind, Eq(inst(BR), Field(cfg, "InstanceId")))
			ev.Require("V6", pr, "the certificate is for the block's height", kind, Eq(height, ht(BR)))
			ev.Require("V7", pr, "the block satisfies the certified hash", kind, Truth(Call("interfaces.ValidateBlockCommitment", k.BU, height, block, hash(BR))))
			// V8: committee
			var K *Term
			missing := "no successful RequestCommitteeForBlockProof on the path"
			for _, b := range ev.Find(ErrNil(Ext(1, Call("interfaces.RequestCommitteeForBlockProof", This("interfaces.Membership"), Var("ctx"), Var("h"), Var("rt"))))) {
				miss := []string{}
				if !ev.Same(b["ctx"], ctx) {
					miss = append(miss, "context "+PP(b["ctx"]))
				}
				if !(ev.Same(b["h"], height) || ev.Same(b["h"], Call("blockheight.GetBlockHeight", block))) {
					miss = append(miss, "height "+PP(b["h"]))
				}
				if !(ev.Same(b["rt"], Call("blockreferencetime.GetBlockReferenceTime", prev)) || ev.Same(b["rt"], Call("interfaces.ReferenceTime", prev))) {
					miss = append(miss, "reference time "+PP(b["rt"]))
				}
				if len(miss) == 0 {
					K = Ext(0, Call("interfaces.RequestCommitteeForBlockProof", This("interfaces.Membership"), b["ctx"], b["h"], b["rt"]))
					break
				}
				missing = strings.Join(miss, "; ")
			}
			ev.Verdict("V8", props("C02", "C03"), "the committee is RequestCommitteeForBlockProof(ctx, height of the block, reference time of the previous block) and its error was checked", kind, K != nil, missing)
			if K == nil {
				K = Unk("no-committee")
			}
			ev.Require("V9", pr, "every signer's signature over the certificate's block reference verifies", kind,
				ForAll(NODES, ErrNil(Call("interfaces.VerifyConsensusMessage", k.KM, ht(BR), raw(BR), bound))))
			ev.Require("V10", pr, "signers are pairwise distinct", kind, Unique(NODES, mid(bound)))
			ev.Require("V11", pr, "every signer is a member of that committee", kind, ForAll(NODES, k.MemberOf(K, mid(bound))))
			ids := T("map", "", NODES, mid(bound))
			if mode.name == "soft" {
				ev.Require("V12", pr, "soft mode: the signers' weight exceeds f of the same committee, counted over exactly the verified signers", kind, Truth(Ext(0, Call("quorum.HasHonest", ids, K))))
			} else {
				ev.Require("V12", pr, "strict mode: the signers' weight reaches the quorum of the same committee, counted over exactly the verified signers", kind, Truth(Ext(0, Call("quorum.IsQuorum", ids, K))))
			}
			rss := Call("protocol.RandomSeedSignature", BP)
			ev.Require("V13.nonempty", pr, "the proof carries a random-seed signature", kind, Ne(Len(rss), Const("0")))
			prevBP := Call("protocol.BlockProofReader", ppb)
			seed := Call("randomseed.RandomSeedToBytes", Call("randomseed.CalculateRandomSeed", Call("protocol.RandomSeedSignature", prevBP)))
			sig := Call("protocol.Build", Struct("protocol.SenderSignatureBuilder", []string{"MemberId", "Signature"}, []*Term{tNil, rss}))
			ev.Require("V13.verify", pr, "the random-seed signature verifies against the seed derived from the previous proof, at the block's height", kind,
				ErrNil(Call("interfaces.VerifyRandomSeed", k.KM, height, seed, sig)))
		})
		w.Config = mode.name
		w.Assume = []*Atom{mode.assume}
		w.NoDescend = map[string]bool{}
		w.Run(fn, roots, nil)
		for _, u := range w.Undecided {
			r.Undecided = append(r.Undecided, idVBC+": "+u)
		}
	}
	if nAccept < 2 {
		r.Undecided = append(r.Undecided, "ValidateBlockConsensus: fewer than two accepting returns found (one per mode expected)")
	}
	// V15: the MainLoop API forwards to the worker's validator with the same arguments
	mfn := a.P.Func("(*leanhelix.MainLoop).ValidateBlockConsensus")
	rets, und := a.Returns(funcID(mfn), nil)
	r.Undecided = append(r.Undecided, und...)
	for _, e := range rets {
		val := e.Args[0]
		ok := val.Op == "call" && val.Name == "leanhelix.ValidateBlockConsensus" && len(val.Args) == 7
		why := "returns " + PP(val)
		if ok {
			for i, p := range mfn.Params[1:] {
				if val.Args[i+1].Key() != Root(p.Name()).Key() {
					ok = false
					why = "argument " + itoa(i+1) + " is " + PP(val.Args[i+1])
				}
			}
		}
		r.Check("V15", pr, "MainLoop.ValidateBlockConsensus returns exactly the worker's verdict for the same arguments", "MainLoop.ValidateBlockConsensus", e.Pos(a), ok, why, "A")
	}
	_ = ssa.Instruction(nil)
}
