package main

import (
	"path/filepath"
	"sort"
	"strings"
)

// Canaries (thorough tier): rules whose expected number of findings on a correct tree is zero pass vacuously for ever if
// they stop matching. For each such rule a tiny positive example - one extra file added to a package through an
// in-memory overlay (nothing on disk, nothing executed) - must make the rule fire on every thorough run. A canary that
// does not type-check on the current tree (a field it mentions was renamed) is reported as skipped, not as a failure.

type canary struct {
	rule string
	dir  string // package directory relative to the repository root ("" = root)
	src  string
}

var canaries = []canary{
	{"Z5.go", "", `package leanhelix

func zzCanaryGo() { go func() {}() }
`},
	{"Z4.sleep", "", `package leanhelix

import "time"

func zzCanarySleep() { time.Sleep(time.Second) }
`},
	{"R5", "", `package leanhelix

func zzCanaryPanic() { panic("canary") }
`},
	{"U7.consumer", "", `package leanhelix

func (lh *WorkerLoop) zzCanaryDrain() {
	select {
	case <-lh.electionChannel:
	default:
	}
}
`},
	{"A1.inplace", "services/blockextractor", `package blockextractor

import "github.com/orbs-network/lean-helix-go/services/interfaces"

func zzCanaryInplace(m []*interfaces.ViewChangeMessage) []*interfaces.ViewChangeMessage {
	r := m[:0]
	for _, x := range m {
		if x != nil {
			r = append(r, x)
		}
	}
	return r
}
`},
	{"W5.frozen", "services/interfaces", `package interfaces

import "github.com/orbs-network/lean-helix-go/spec/types/go/protocol"

func zzCanaryFrozen(b *protocol.ViewChangeHeaderBuilder) { b.PreparedProof = nil }
`},
	{"ST.keep", "services/storage", `package storage

import "github.com/orbs-network/lean-helix-go/spec/types/go/primitives"

func (storage *InMemoryStorage) zzCanaryDrop(h primitives.BlockHeight) { delete(storage.prepareStorage, h) }
`},
	{"S0.single", "", `package leanhelix

import "github.com/orbs-network/lean-helix-go/state"

func zzCanarySecondState() *state.State { return state.NewState() }
`},
	{"I3.inplace", "services/quorum", `package quorum

import (
	"sort"

	"github.com/orbs-network/lean-helix-go/services/interfaces"
)

func zzCanarySort(c []interfaces.CommitteeMember) {
	sort.Slice(c, func(i, j int) bool { return c[i].Weight < c[j].Weight })
}
`},
}

type canaryResult struct {
	Rule     string `json:"rule"`
	File     string `json:"file"`
	Fired    bool   `json:"fired"`
	Skipped  bool   `json:"skipped,omitempty"`
	Note     string `json:"note,omitempty"`
}

// runCanaries: for the canaries whose rule serves the property (it produced obligations for it, or is known to from the
// expected-rules table), analyse the tree with the canary file added and require a violation of that rule.
func runCanaries(repo, prop, goarch string, serves func(rule string) bool, baseViol map[string]bool) ([]canaryResult, []string) {
	var out []canaryResult
	var failed []string
	for _, c := range canaries {
		if !serves(c.rule) {
			continue
		}
		file := filepath.Join(repo, c.dir, "zz_lhcheck_canary_"+strings.ToLower(strings.ReplaceAll(c.rule, ".", "_"))+".go")
		viol, ok := analyseVariant(repo, prop, goarch, map[string][]byte{file: []byte(c.src)})
		res := canaryResult{Rule: c.rule, File: file}
		if !ok {
			res.Skipped, res.Note = true, "the canary does not type-check on this tree (it names an unexported identifier that changed)"
			out = append(out, res)
			continue
		}
		var keys []string
		for k := range viol {
			if !baseViol[k] && strings.HasPrefix(k, c.rule+"|") {
				keys = append(keys, k)
			}
		}
		sort.Strings(keys)
		res.Fired = len(keys) > 0
		if !res.Fired {
			res.Note = "the rule reported nothing on its positive example"
			failed = append(failed, c.rule)
		}
		out = append(out, res)
	}
	return out, failed
}
