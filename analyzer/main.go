package main

import (
	"flag"
	"fmt"
	"os"
	"runtime"
	"runtime/debug"
	"runtime/pprof"
	"strings"
	"time"
)

func main() {
	repo := flag.String("repo", envOr("LH_REPO", "/repo"), "repository working tree to analyse")
	prop := flag.String("prop", "", "property id (C01..C20) or 'all'")
	tier := flag.String("tier", envOr("VERIF_TIER", "quick"), "quick | thorough")
	dump := flag.String("dump", "", "debug: dump effects and facts reachable from the entry function id")
	dumpFilter := flag.String("filter", "", "debug: only effects whose name contains this")
	listFuncs := flag.Bool("funcs", false, "debug: list library functions")
	listMutable := flag.Bool("mutable", false, "debug: list the fields written after construction (reference table for S0.state)")
	listFields := flag.Bool("fields", false, "debug: list the fields of library struct types (reference table for renamed-field resolution)")
	sumOf := flag.String("summary", "", "debug: print the summary of a function id")
	explain := flag.String("explain", "", "re-evaluate the obligation recorded in a violation report")
	outDir := flag.String("out", envOr("LH_OUT", "/verif/evidence"), "evidence directory")
	known := flag.String("known", envOr("LH_KNOWN", "/verif/known_findings.json"), "known findings file")
	goarch := flag.String("goarch", "", "GOARCH override")
	flag.Parse()
	// allocation-heavy, short-lived: fewer GC cycles and fewer scheduler threads cut the run time by more than half on
	// this kind of machine (the analysis itself is deterministic and does not depend on either setting)
	if os.Getenv("GOGC") == "" {
		debug.SetGCPercent(400)
		if os.Getenv("GOMEMLIMIT") == "" {
			debug.SetMemoryLimit(4 << 30) // soft limit: the collector works harder instead of growing past ~4 GiB
		}
	}
	if os.Getenv("GOMAXPROCS") == "" && runtime.NumCPU() > 8 {
		runtime.GOMAXPROCS(8)
	}

	start := time.Now()
	code := 0
	if pf := os.Getenv("LH_PROF"); pf != "" {
		if f, err := os.Create(pf); err == nil {
			pprof.StartCPUProfile(f)
			defer func() { pprof.StopCPUProfile(); f.Close() }()
		}
	}
	func() {
		defer func() {
			if r := recover(); r != nil {
				if be, ok := r.(brokenError); ok {
					fmt.Printf("BROKEN: %s\n", be.msg)
					code = 2
					// the tree loads and type-checks but a construct the property is anchored in is gone: the property
					// cannot be shown to hold on this tree, which is reported like any other undecided obligation
					if strings.HasPrefix(be.msg, "unresolved anchor") && *prop != "" {
						code = reportUndecidedOnly(*prop, *outDir, be.msg)
					}
					return
				}
				fmt.Printf("BROKEN: analyser panic: %v\n%s\n", r, debug.Stack())
				code = 2
			}
		}()
		switch {
		case *listMutable:
			p := Load(*repo, *goarch, nil)
			dumpMutable(NewAnalyzer(p))
		case *listFields:
			p := Load(*repo, *goarch, nil)
			dumpFields(p)
		case *listFuncs:
			p := Load(*repo, *goarch, nil)
			for _, f := range p.Funcs {
				fmt.Println(funcID(f), "|", shortName(f))
			}
		case *sumOf != "":
			p := Load(*repo, *goarch, nil)
			a := NewAnalyzer(p)
			sm := a.Summary(a.P.Func(*sumOf))
			fmt.Println("value summary:", a.valueSummary(a.P.Func(*sumOf)))
			fmt.Println("resKind", sm.resKind, "resIdx", sm.resIdx)
			for _, k := range sm.succ.SortedKeys() {
				fmt.Println("  succ:", k)
			}
			for _, k := range sm.fail.SortedKeys() {
				fmt.Println("  fail:", k)
			}
			for _, k := range sm.post.SortedKeys() {
				fmt.Println("  post:", k)
			}
		case *dump != "":
			p := Load(*repo, *goarch, nil)
			a := NewAnalyzer(p)
			debugDump(a, *dump, *dumpFilter)
		default:
			code = runChecks(*repo, *prop, *tier, *outDir, *known, *explain, *goarch, start)
		}
	}()
	pprof.StopCPUProfile()
	os.Exit(code)
}

func envOr(k, d string) string {
	if v := os.Getenv(k); v != "" {
		return v
	}
	return d
}

func debugDump(a *Analyzer, entry, filter string) {
	fn := a.P.Func(entry)
	w := a.NewWalker(func(e *Effect) {
		if filter != "" && !strings.Contains(e.Name, filter) {
			return
		}
		fmt.Printf("== %s %s @%s splits=%v\n   path: %s\n", e.Kind, e.Name, e.Pos(a), e.Splits, e.PathString())
		for i, t := range e.Args {
			fmt.Printf("   arg%d: %s\n", i, t.Key())
		}
		cl := e.Facts
		for _, k := range cl.SortedKeys() {
			if strings.HasPrefix(k, "done(") {
				continue
			}
			fmt.Printf("     %s\n", k)
		}
	})
	w.AutoSplit = os.Getenv("LH_DUMP_SPLIT") != ""
	w.Run(fn, nil, nil)
	fmt.Printf("paths=%d undecided=%v\n", w.Paths, w.Undecided)
}
