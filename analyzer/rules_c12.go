package main

import (
	"go/constant"
	"go/types"
	"sort"
	"strings"

	"golang.org/x/tools/go/ssa"
)

// C12: recover boundaries, nil-result discipline, Shutdown ownership, panic inventory (DESIGN §2.13 R, §4 C12).

func isProtocolDecoder(f *ssa.Function) bool {
	if funcPkgPath(f) != modPath+"/spec/types/go/protocol" {
		return false
	}
	if recv := f.Signature.Recv(); recv != nil {
		if strings.HasSuffix(typeShort(recv.Type()), "Builder") {
			return false
		}
		return true
	}
	return strings.HasSuffix(f.Name(), "Reader")
}

// recoverBoundary: does f install, in its entry block before any other call, a deferred function that calls recover()?
// assignsResult reports whether that deferred function writes a captured variable (converting the panic to a result).
func recoverBoundary(f *ssa.Function) (has bool, assignsResult bool) {
	if len(f.Blocks) == 0 {
		return false, false
	}
	for _, in := range f.Blocks[0].Instrs {
		switch x := in.(type) {
		case *ssa.Defer:
			var df *ssa.Function
			if mc, ok := x.Call.Value.(*ssa.MakeClosure); ok {
				df = mc.Fn.(*ssa.Function)
			} else if sf := x.Call.StaticCallee(); sf != nil {
				df = sf
			}
			if df == nil || df.Blocks == nil {
				continue
			}
			rec, asg := false, false
			for _, b := range df.Blocks {
				for _, i2 := range b.Instrs {
					if c, ok := i2.(*ssa.Call); ok {
						if bi, ok := c.Call.Value.(*ssa.Builtin); ok && bi.Name() == "recover" {
							rec = true
						}
					}
					if st, ok := i2.(*ssa.Store); ok {
						if _, isFV := st.Addr.(*ssa.FreeVar); isFV {
							asg = true
						}
					}
				}
			}
			if rec {
				return true, asg
			}
		case *ssa.Call:
			if _, isB := x.Call.Value.(*ssa.Builtin); isB || isLoggingCall(&x.Call) {
				continue
			}
			return false, false // a call precedes any recovering defer
		}
	}
	return false, false
}

// unprotectedDecoders: decoders reachable from f (inclusive) over CHA without entering a recover boundary.
func (a *Analyzer) unprotectedDecoders(start []*ssa.Function) []string {
	seen := map[*ssa.Function]bool{}
	var found []string
	var visit func(f *ssa.Function, trail []string)
	visit = func(f *ssa.Function, trail []string) {
		if f == nil || seen[f] {
			return
		}
		seen[f] = true
		if isProtocolDecoder(f) {
			found = append(found, strings.Join(append(trail, funcID(f)), " -> "))
			return
		}
		if f.Blocks == nil || !inLibraryScope(funcPkgPath(f)) {
			return
		}
		if has, _ := recoverBoundary(f); has {
			return
		}
		n := a.P.CHA().Nodes[f]
		if n == nil {
			return
		}
		for _, e := range n.Out {
			if isLoggingCall(e.Site.Common()) {
				continue
			}
			visit(e.Callee.Func, append(trail, funcID(f)))
		}
	}
	for _, f := range start {
		visit(f, nil)
	}
	sort.Strings(found)
	return found
}

func isRawMsgPtr(t types.Type) bool {
	return typeShort(t) == "interfaces.ConsensusRawMessage"
}

// dependsOn: does value v depend (through SSA operands within the function) on src?
func dependsOn(v, src ssa.Value, seen map[ssa.Value]bool) bool {
	if v == src {
		return true
	}
	if seen[v] {
		return false
	}
	seen[v] = true
	in, ok := v.(ssa.Instruction)
	if !ok {
		return false
	}
	for _, op := range in.Operands(nil) {
		if *op != nil && dependsOn(*op, src, seen) {
			return true
		}
	}
	return false
}

func runC12(a *Analyzer, r *Results) {
	pr := props("C12")
	// ---- R1 loops: message arms
	loops := []string{"(*leanhelix.WorkerLoop).Run", idMainRun}
	for _, id := range loops {
		lb := a.loopBodyOf(id)
		fn := lb.body
		// received raw messages: Select with a receive state on a chan of *ConsensusRawMessage, or a plain receive
		var received []ssa.Value
		for _, b := range fn.Blocks {
			for _, in := range b.Instrs {
				switch x := in.(type) {
				case *ssa.Select:
					idx := 0
					for _, st := range x.States {
						if st.Dir == types.RecvOnly {
							if ch, ok := st.Chan.Type().Underlying().(*types.Chan); ok && isRawMsgPtr(ch.Elem()) {
								// the received value is Extract #(2+idx)
								for _, ref := range *x.Referrers() {
									if ex, ok := ref.(*ssa.Extract); ok && ex.Index == 2+idx {
										received = append(received, ex)
									}
								}
							}
							idx++
						}
					}
				case *ssa.UnOp:
					if x.Op.String() == "<-" {
						if ch, ok := x.X.Type().Underlying().(*types.Chan); ok && isRawMsgPtr(ch.Elem()) {
							received = append(received, x)
						}
					}
				}
			}
		}
		if len(received) == 0 {
			r.Undecided = append(r.Undecided, id+": no receive of *ConsensusRawMessage found (anchor: message channels)")
			continue
		}
		selfBoundary, _ := recoverBoundary(fn)
		if lb.entry != fn {
			if sb, _ := recoverBoundary(lb.entry); sb {
				selfBoundary = true
			}
		}
		r.Check("R1.loop-boundary", pr, "the event loop function itself does not recover (a boundary around the loop would end the loop)", shortName(fn), a.P.Pos(fn.Pos()), !selfBoundary, "the loop function installs a recover", "R")
		nScope := 0
		for _, b := range fn.Blocks {
			for _, in := range b.Instrs {
				ci, ok := in.(ssa.CallInstruction)
				if !ok {
					continue
				}
				cc := ci.Common()
				if _, isB := cc.Value.(*ssa.Builtin); isB || isLoggingCall(cc) {
					continue
				}
				dep := false
				for _, arg := range cc.Args {
					for _, rv := range received {
						if dependsOn(arg, rv, map[ssa.Value]bool{}) {
							dep = true
						}
					}
				}
				if cc.IsInvoke() {
					for _, rv := range received {
						if dependsOn(cc.Value, rv, map[ssa.Value]bool{}) {
							dep = true
						}
					}
				}
				if !dep {
					continue
				}
				nScope++
				var callees []*ssa.Function
				if n := a.P.CHA().Nodes[fn]; n != nil {
					for _, e := range n.Out {
						if e.Site == ci {
							callees = append(callees, e.Callee.Func)
						}
					}
				}
				bad := a.unprotectedDecoders(callees)
				why := ""
				if len(bad) > 0 {
					why = "decoder reachable without a recover boundary: " + bad[0]
					if len(bad) > 1 {
						why += fmtf(" (+%d more)", len(bad)-1)
					}
				}
				r.Check("R1.loop", pr, "every call in an event loop's message arm that depends on the received raw message reaches byte decoders only through a function that recovers (one malformed message must not unwind the loop; in the main loop it would trigger the irreversible Shutdown)",
					shortName(fn)+"|"+calleeLabel(cc), a.P.InstrPos(in), len(bad) == 0, why, "R")
			}
		}
		r.Stats["C12.scope_calls."+shortName(fn)] = nScope
	}
	// ---- R1.cache: messages at rest in the future cache are untrusted bytes too; their replay must not unwind a loop arm
	{
		fn := a.P.Func(idE2)
		c := a.NewFCtx(fn, a.EntryEnv(fn, nil), 0)
		cache := Field(This("rawmessagesfilter.RawMessageFilter"), "futureCache")
		// is the drain reachable from an event loop without passing a recover boundary?
		exposed := false
		for _, id := range loops {
			lf := a.P.Func(id)
			seen := map[*ssa.Function]bool{}
			var visit func(f *ssa.Function) bool
			visit = func(f *ssa.Function) bool {
				if f == fn {
					return true
				}
				if seen[f] || f.Blocks == nil || !inLibraryScope(funcPkgPath(f)) {
					return false
				}
				seen[f] = true
				if has, _ := recoverBoundary(f); has && f != lf {
					return false
				}
				for _, g := range a.calleesOf(f) {
					if visit(g) {
						return true
					}
				}
				return false
			}
			if visit(lf) {
				exposed = true
			}
		}
		n := 0
		for _, part := range drainParts(a, fn, c) {
			fn, c := part.fn, part.c
			if has, _ := recoverBoundary(fn); has && part.site != nil {
				continue // calls made inside a recovering helper are protected by it
			}
			for _, b := range fn.Blocks {
				for _, in := range b.Instrs {
					ci, ok := in.(ssa.CallInstruction)
					if !ok || isLoggingCall(ci.Common()) {
						continue
					}
					if _, isB := ci.Common().Value.(*ssa.Builtin); isB {
						continue
					}
					dep := false
					for _, arg := range ci.Common().Args {
						if strings.Contains(c.Term(arg).Key(), cache.Key()) && c.Term(arg).Op != "field" {
							dep = true
						}
					}
					if !dep {
						continue
					}
					n++
					var callees []*ssa.Function
					if nd := a.P.CHA().Nodes[fn]; nd != nil {
						for _, e := range nd.Out {
							if e.Site == ci {
								callees = append(callees, e.Callee.Func)
							}
						}
					}
					bad := a.unprotectedDecoders(callees)
					why := ""
					if len(bad) > 0 && exposed {
						why = "the drain is reachable from an event loop arm without a recover boundary, and the replayed message reaches decoders unprotected: " + bad[0]
					}
					r.Check("R1.cache", props("C12", "C17"), "cached (future-height) messages are untrusted bytes decoded lazily: their replay reaches decoders only through a recovering function, unless every way into the drain already passes one", "ConsumeCacheMessages|"+calleeLabel(ci.Common()), a.P.InstrPos(in), len(bad) == 0 || !exposed, why, "R")
				}
			}
		}
		r.Stats["C12.cache_replay_calls"] = n
		if n == 0 {
			r.Undecided = append(r.Undecided, "R1.cache: no call in the drain passes a cached message on (anchor)")
		}
	}
	// ---- R1 APIs
	for _, id := range []string{"(*leanhelix.WorkerLoop).ValidateBlockConsensus", "(*leanhelix.MainLoop).ValidateBlockConsensus", "leanhelix.GetMemberIdsFromBlockProof"} {
		fn := a.P.Func(id)
		has, asg := recoverBoundary(fn)
		var bad []string
		if !(has && asg) {
			var callees []*ssa.Function
			if n := a.P.CHA().Nodes[fn]; n != nil {
				for _, e := range n.Out {
					if !isLoggingCall(e.Site.Common()) {
						callees = append(callees, e.Callee.Func)
					}
				}
			}
			bad = a.unprotectedDecoders(callees)
		}
		why := ""
		if len(bad) > 0 {
			why = "proof bytes are decoded without a recover-to-error boundary: " + bad[0]
		}
		r.Check("R1.api", props("C12", "C02"), "the public proof APIs decode caller-supplied bytes only under a recover boundary that converts a decoder panic into the returned error", shortName(fn), a.P.Pos(fn.Pos()), len(bad) == 0, why, "R")
	}
	// ---- R2 Shutdown ownership
	{
		sd := a.P.Func("(*state.ViewContexts).Shutdown")
		var callers []string
		var deferOnly = true
		for _, f := range a.P.Funcs {
			for _, b := range f.Blocks {
				for _, in := range b.Instrs {
					if ci, ok := in.(ssa.CallInstruction); ok && ci.Common().StaticCallee() == sd {
						callers = append(callers, funcID(f))
					}
				}
			}
		}
		sort.Strings(callers)
		ok := len(callers) == 1
		var via *ssa.Function
		if ok {
			via = a.P.FuncByID[callers[0]]
		}
		var outer []string
		if via != nil {
			for _, f := range a.P.Funcs {
				for _, b := range f.Blocks {
					for _, in := range b.Instrs {
						if ci, ok := in.(ssa.CallInstruction); ok && ci.Common().StaticCallee() == via {
							outer = append(outer, funcID(f))
							if _, isDefer := in.(*ssa.Defer); !isDefer {
								deferOnly = false
							}
						}
					}
				}
			}
		}
		ok = ok && len(outer) == 1 && outer[0] == idMainRun && deferOnly
		r.Check("R2", props("C12", "C16"), "ViewContexts.Shutdown (irreversible) is reachable only from the main loop's deferred interrupt", "Shutdown", a.P.Pos(sd.Pos()), ok,
			fmtf("callers of Shutdown: %v; callers of that: %v; deferred only: %v", callers, outer, deferOnly), "W")
	}
	// ---- R5 explicit panic inventory
	{
		// the inventory is keyed by what the panic says (its constant message / format), not by the function that happens
		// to contain it: moving a configuration check into a helper does not add a panic, a new message does
		allowed := []struct{ prefix, reason string }{
			{"unknown message type", "unreachable default of a type switch over the five message types (nil is filtered before)"},
			{"LH Received only %d committee members", "configuration error: committee below the hard minimum (consumer-supplied)"},
			{"Election trigger was not configured", "configuration error: no election trigger"},
			{"electionChannel buffer size must be at least 1", "configuration error: channel capacity is a literal >= 1 (checked by C14)"},
			{"workerUpdateStateChannel buffer size must be at least 1", "configuration error: channel capacity is a literal >= 1 (checked by C14)"},
			{"ValidateBlockConsensus() worker is nil", "API misuse: called before Run"},
		}
		panicText := func(pi *ssa.Panic) string {
			v := pi.X
			if mi, ok := v.(*ssa.MakeInterface); ok {
				v = mi.X
			}
			if c, ok := v.(*ssa.Const); ok && c.Value != nil && c.Value.Kind() == constant.String {
				return constant.StringVal(c.Value)
			}
			if call, ok := v.(*ssa.Call); ok {
				if sc := call.Call.StaticCallee(); sc != nil && (sc.String() == "fmt.Sprintf" || sc.String() == "fmt.Errorf") && len(call.Call.Args) > 0 {
					if c, ok := call.Call.Args[0].(*ssa.Const); ok && c.Value != nil && c.Value.Kind() == constant.String {
						return constant.StringVal(c.Value)
					}
				}
			}
			return ""
		}
		n := 0
		for _, f := range a.P.Funcs {
			if isSpecTypesPkg(funcPkgPath(f)) || strings.HasPrefix(funcPkgPath(f), modPath+"/services/logger") {
				continue
			}
			for _, b := range f.Blocks {
				for _, in := range b.Instrs {
					if pi, ok := in.(*ssa.Panic); ok {
						if !pi.Pos().IsValid() {
							continue // synthetic (e.g. "blocking select matched no case")
						}
						n++
						txt := panicText(pi)
						reason, ok := "", false
						for _, al := range allowed {
							if txt != "" && strings.HasPrefix(txt, al.prefix) {
								reason, ok = al.reason, true
							}
						}
						key := txt
						if len(key) > 40 {
							key = key[:40]
						}
						if key == "" {
							key = funcID(f)
						}
						r.Check("R5", pr, "explicit panic sites in library code are exactly the inventoried ones (unreachable defaults, configuration errors), identified by their message", key, a.P.InstrPos(in), ok, "new explicit panic in "+funcID(f)+": "+txt, "W").Guards = []string{reason}
					}
				}
			}
		}
		r.Stats["C12.panics"] = n
	}
	// ---- R3 / R6: engine A over the worker loop
	runNilDiscipline(a, r)
}

func calleeLabel(cc *ssa.CallCommon) string {
	if cc.IsInvoke() {
		return methodShort(cc.Method)
	}
	if f := cc.StaticCallee(); f != nil {
		return shortName(f)
	}
	return "dynamic"
}

// mayReturnNilIface: library functions returning an interface with a nil return path.
func (a *Analyzer) mayReturnNil(f *ssa.Function) bool {
	if f.Signature.Results().Len() != 1 {
		return false
	}
	if _, ok := f.Signature.Results().At(0).Type().Underlying().(*types.Interface); !ok {
		return false
	}
	var isNilable func(v ssa.Value, seen map[ssa.Value]bool) bool
	isNilable = func(v ssa.Value, seen map[ssa.Value]bool) bool {
		if seen[v] {
			return false
		}
		seen[v] = true
		switch x := v.(type) {
		case *ssa.Const:
			return x.IsNil()
		case *ssa.Phi:
			for _, e := range x.Edges {
				if isNilable(e, seen) {
					return true
				}
			}
		}
		return false
	}
	for _, b := range f.Blocks {
		if ret, ok := b.Instrs[len(b.Instrs)-1].(*ssa.Return); ok && len(ret.Results) == 1 {
			if isNilable(ret.Results[0], map[ssa.Value]bool{}) {
				return true
			}
		}
	}
	return false
}

func runNilDiscipline(a *Analyzer, r *Results) {
	pr := props("C12")
	nilable := map[string]bool{}
	for _, f := range a.P.Funcs {
		if isSpecTypesPkg(funcPkgPath(f)) || f.Parent() != nil {
			continue
		}
		if f.Signature.Results().Len() != 1 || isErrorType(f.Signature.Results().At(0).Type()) {
			continue
		}
		if a.mayReturnNil(f) {
			nilable[shortName(f)] = true
		}
	}
	r.Stats["C12.nilable_functions"] = len(nilable)
	n3, n6 := 0, 0
	on := func(e *Effect) {
		if e.Kind != "call" || len(e.Args) == 0 {
			return
		}
		recv := e.Args[0]
		call, isInvoke := e.Instr.(ssa.CallInstruction)
		if !isInvoke {
			return
		}
		// R3: method call / interface invoke on the possibly-nil result of a nilable function
		// (a snapshot of the call's value is that value)
		bare := func(t *Term) *Term {
			for t.Op == "pre" && len(t.Args) == 1 {
				t = t.Args[0]
			}
			return t
		}
		if rc := bare(recv); rc.Op == "call" && nilable[rc.Name] {
			cc := call.Common()
			isMethod := cc.IsInvoke() || (cc.StaticCallee() != nil && cc.StaticCallee().Signature.Recv() != nil)
			if isMethod {
				n3++
				ev := a.NewEval(e, r)
				ev.Require("R3", pr, "the result of a parse function that may return nil is nil-tested before any method is invoked on it", "", Ne(recv, tNil))
			}
		}
		// R6: method call on the pointer result of a (ptr, ok) storage getter
		if recv.Op == "ext" && recv.Name == "0" && bare(recv.Args[0]).Op == "call" && strings.HasPrefix(bare(recv.Args[0]).Name, "interfaces.Get") {
			cc := call.Common()
			if sc := cc.StaticCallee(); sc != nil && sc.Signature.Recv() != nil {
				n6++
				ev := a.NewEval(e, r)
				ev.Require("R6", pr, "the pointer result of a (value, ok) storage getter is dereferenced only under ok", "", Truth(Ext(1, recv.Args[0])))
			}
		}
	}
	for _, id := range []string{"(*leanhelix.WorkerLoop).Run", idMainRun} {
		w := a.NewWalker(on)
		w.Run(a.P.Func(id), nil, nil)
		for _, u := range w.Undecided {
			r.Undecided = append(r.Undecided, id+": "+u)
		}
	}
	r.Stats["C12.R3_sites"] = n3
	r.Stats["C12.R6_sites"] = n6
}
