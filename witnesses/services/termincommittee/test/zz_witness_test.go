package test

import (
	"context"
	"fmt"
	"testing"

	"github.com/orbs-network/lean-helix-go/services/interfaces"
	"github.com/orbs-network/lean-helix-go/services/messagesfactory"
	"github.com/orbs-network/lean-helix-go/services/preparedmessages"
	"github.com/orbs-network/lean-helix-go/spec/types/go/primitives"
	"github.com/orbs-network/lean-helix-go/spec/types/go/protocol"
	"github.com/orbs-network/lean-helix-go/test"
	"github.com/orbs-network/lean-helix-go/test/builders"
	"github.com/orbs-network/lean-helix-go/test/mocks"
)

// D1: a VIEW_CHANGE from anybody with view >= 2^63 panics in the leader computation (before any authentication)
func TestWitnessD1_HugeView(t *testing.T) {
	test.WithContext(func(ctx context.Context) {
		h := NewHarness(ctx, t)
		outsider := primitives.MemberId("OUTSIDER")
		vc := builders.AViewChangeMessage(h.instanceId, mocks.NewMockKeyManager(outsider), outsider, 1, primitives.View(1)<<63+1, nil)
		func() {
			defer func() { fmt.Println("D1: recovered:", recover()) }()
			h.termInCommittee.HandleViewChange(vc)
		}()
	})
}

// D8: NEW_VIEW whose votes carry garbage signatures is adopted
func TestWitnessD8_ForgedVotes(t *testing.T) {
	test.WithContext(func(ctx context.Context) {
		block := mocks.ABlock(interfaces.GenesisBlock)
		h := NewHarness(ctx, t, block)
		// leader of view 1 is node1; it fabricates votes of node0,2,3 with bogus signatures
		var votes []*protocol.ViewChangeMessageContentBuilder
		for _, i := range []int{0, 2, 3} {
			votes = append(votes, &protocol.ViewChangeMessageContentBuilder{
				SignedHeader: &protocol.ViewChangeHeaderBuilder{MessageType: protocol.LEAN_HELIX_VIEW_CHANGE, InstanceId: h.instanceId, BlockHeight: 1, View: 1},
				Sender:       &protocol.SenderSignatureBuilder{MemberId: h.getNodeMemberId(i), Signature: []byte("forged")},
			})
		}
		nvm := builders.NewNewViewBuilder().LeadBy(h.getMemberKeyManager(1), h.getNodeMemberId(1)).WithViewChangeVotes(votes).OnBlock(block).OnBlockHeight(1).OnView(1).Build()
		h.handleNewViewMessage(ctx, nvm)
		fmt.Printf("D8: view after forged NEW_VIEW = %d, stored PP for view1 = %v, prepares sent = %d\n", h.termInCommittee.State.View(), h.hasPreprepare(1, 1, block), h.countPrepare(1, 1, block))
	})
}

// D6: COMMIT from an outsider with a valid key is stored and ends up in the commit set handed to the proof builder
func TestWitnessD6_OutsiderCommit(t *testing.T) {
	test.WithContext(func(ctx context.Context) {
		block := mocks.ABlock(interfaces.GenesisBlock)
		var got []*interfaces.CommitMessage
		onCommit := func(ctx context.Context, b interfaces.Block, cms []*interfaces.CommitMessage) { got = cms }
		h := NewHarnessForNodeInd(ctx, 0, onCommit, t, []interfaces.Block{block})
		outsider := primitives.MemberId("OUTSIDER")
		okm := mocks.NewMockKeyManager(outsider)
		cm := builders.ACommitMessage(h.instanceId, okm, outsider, 1, 0, block, 0)
		h.termInCommittee.HandleCommit(cm)
		fmt.Printf("D6: commits stored after outsider commit = %d\n", h.countCommits(1, 0, block))
		h.receiveAndHandlePrepare(ctx, 1, 1, 0, block)
		h.receiveAndHandlePrepare(ctx, 2, 1, 0, block)
		h.receiveAndHandlePrepare(ctx, 3, 1, 0, block)
		h.receiveAndHandleCommit(ctx, 1, 1, 0, block, 0)
		h.receiveAndHandleCommit(ctx, 2, 1, 0, block, 0)
		h.receiveAndHandleCommit(ctx, 3, 1, 0, block, 0)
		for _, c := range got {
			fmt.Printf("D6: commit in proof set from %q\n", string(c.SenderMemberId()))
		}
	})
}

// D11: a PREPARE-typed signed header wrapped as COMMIT content is accepted as a commit
func TestWitnessD11_TypeTag(t *testing.T) {
	test.WithContext(func(ctx context.Context) {
		block := mocks.ABlock(interfaces.GenesisBlock)
		h := NewHarness(ctx, t, block)
		n2 := h.net.Nodes[2]
		mf := messagesfactory.NewMessageFactory(h.instanceId, n2.KeyManager, n2.MemberId, 0)
		pm := mf.CreatePrepareMessage(1, 0, mocks.CalculateBlockHash(block))
		realCommit := mf.CreateCommitMessage(1, 0, []byte("other-hash")) // only used to take node2's share
		fake := (&protocol.CommitContentBuilder{
			SignedHeader: protocol.BlockRefBuilderFromRaw(pm.Content().SignedHeader().Raw()),
			Sender:       protocol.SenderSignatureBuilderFromRaw(pm.Content().Sender().Raw()),
			Share:        realCommit.Content().Share(),
		}).Build()
		cm := interfaces.NewCommitMessage(fake)
		fmt.Printf("D11: fake commit header type = %s\n", cm.Content().SignedHeader().MessageType())
		h.termInCommittee.HandleCommit(cm)
		fmt.Printf("D11: commits stored for (1,0,block) = %d\n", h.countCommits(1, 0, block))
	})
}

func preparedAtView0(h *harness, block interfaces.Block) *preparedmessages.PreparedMessages {
	leader0 := h.net.Nodes[0]
	ppm := builders.APreprepareMessage(h.instanceId, leader0.KeyManager, leader0.MemberId, 1, 0, block)
	var pms []*interfaces.PrepareMessage
	for _, i := range []int{1, 2, 3} {
		n := h.net.Nodes[i]
		pms = append(pms, builders.APrepareMessage(h.instanceId, n.KeyManager, n.MemberId, 1, 0, block))
	}
	return &preparedmessages.PreparedMessages{PreprepareMessage: ppm, PrepareMessages: pms}
}

// D9: NEW_VIEW: block matches the proven hash, but the embedded (signed) proposal header carries another hash
func TestWitnessD9_HashBinding(t *testing.T) {
	test.WithContext(func(ctx context.Context) {
		block := mocks.ABlock(interfaces.GenesisBlock)
		other := mocks.ABlock(interfaces.GenesisBlock)
		h := NewHarnessForNodeInd(ctx, 2, nil, t, []interfaces.Block{block})
		pmsgs := preparedAtView0(h, block)
		vb := builders.NewVotesBuilder(h.instanceId)
		for _, i := range []int{0, 2, 3} {
			n := h.net.Nodes[i]
			if i == 0 {
				vb.WithVote(n.KeyManager, n.MemberId, 1, 1, pmsgs)
			} else {
				vb.WithVote(n.KeyManager, n.MemberId, 1, 1, nil)
			}
		}
		l1 := h.net.Nodes[1]
		nvm := builders.NewNewViewBuilder().LeadBy(l1.KeyManager, l1.MemberId).WithViewChangeVotes(vb.Build()).
			WithCustomPreprepare(h.instanceId, l1.KeyManager, l1.MemberId, 1, 1, other). // header hash = hash(other)
			OnBlock(block).OnBlockHeight(1).OnView(1).Build()
		h.handleNewViewMessage(ctx, nvm)
		pp, ok := h.storage.GetPreprepareMessage(1, 1)
		fmt.Printf("D9: adopted view=%d storedPP=%v\n", h.termInCommittee.State.View(), ok)
		if ok {
			fmt.Printf("D9: stored header hash == hash(block)? %v ; == hash(other)? %v ; carried block is 'block'? %v\n",
				pp.Content().SignedHeader().BlockHash().Equal(mocks.CalculateBlockHash(block)),
				pp.Content().SignedHeader().BlockHash().Equal(mocks.CalculateBlockHash(other)), pp.Block() == block)
			fmt.Printf("D9: prepares I sent for hash(other) = %d\n", h.countPrepare(1, 1, other))
		}
	})
}

// D5: a vote with a valid proof but no block is stored by an honest leader, whose NEW_VIEW then proposes a fresh
// block that honest peers reject
func TestWitnessD5_ProofWithoutBlock(t *testing.T) {
	test.WithContext(func(ctx context.Context) {
		block := mocks.ABlock(interfaces.GenesisBlock)
		fresh := mocks.ABlock(interfaces.GenesisBlock)
		hl := NewHarnessForNodeInd(ctx, 1, nil, t, []interfaces.Block{fresh}) // node1 = leader of view 1
		pmsgs := preparedAtView0(hl, block)
		n0 := hl.net.Nodes[0]
		full := builders.AViewChangeMessage(hl.instanceId, n0.KeyManager, n0.MemberId, 1, 1, pmsgs)
		stripped := interfaces.NewViewChangeMessage(full.Content(), nil) // Byzantine: same signed content, block withheld
		hl.handleViewChangeMessage(ctx, stripped)
		fmt.Printf("D5: stripped vote stored by leader: %d\n", hl.countViewChange(1, 1))
		hl.receiveAndHandleViewChange(ctx, 2, 1, 1)
		hl.receiveAndHandleViewChange(ctx, 3, 1, 1)
		sent := hl.myNode.Communication.GetSentMessages(protocol.LEAN_HELIX_NEW_VIEW)
		fmt.Printf("D5: NEW_VIEW messages sent by honest leader: %d\n", len(sent))
		if len(sent) == 0 {
			return
		}
		nvm := interfaces.ToConsensusMessage(sent[len(sent)-1]).(*interfaces.NewViewMessage)
		fmt.Printf("D5: honest leader proposed the locked block? %v\n", nvm.Block() == block)
		hp := NewHarnessForNodeInd(ctx, 2, nil, t, []interfaces.Block{block})
		hp.handleNewViewMessage(ctx, interfaces.NewNewViewMessage(nvm.Content(), nvm.Block()))
		fmt.Printf("D5: honest peer adopted the honest leader's NEW_VIEW? view=%d\n", hp.termInCommittee.State.View())
	})
}
