package test

import (
	"fmt"
	"testing"

	"github.com/orbs-network/lean-helix-go/services/interfaces"
	"github.com/orbs-network/lean-helix-go/services/rawmessagesfilter"
	"github.com/orbs-network/lean-helix-go/spec/types/go/primitives"
	"github.com/orbs-network/lean-helix-go/test/mocks"
)

type recHandler struct {
	onMsg   func(m interfaces.ConsensusMessage)
	heights []primitives.BlockHeight
}

func (r *recHandler) HandleConsensusMessage(m interfaces.ConsensusMessage) error {
	r.heights = append(r.heights, m.BlockHeight())
	if r.onMsg != nil {
		r.onMsg(m)
	}
	return nil
}

// D10: the drain of height H is re-entered by a new round, exactly as the real commit path does
// (checkCommitted -> commit callback -> onNewConsensusRound -> ConsumeCacheMessages, see the VTA path in DESIGN.md);
// the tail of H's cache then goes to the handler of H+1.
func TestWitnessD10_Reentrancy(t *testing.T) {
	st := mocks.NewMockState().WithHeightView(1, 0).State
	instanceId := primitives.InstanceId(7)
	f := rawmessagesfilter.NewConsensusMessageFilter(instanceId, primitives.MemberId("me"), testLogger(st), st)
	for _, s := range []string{"a", "b", "c"} { // three messages for future height 2 arrive while at height 1
		f.HandleConsensusRawMessage(GeneratePrepareMessage(instanceId, 2, 0, s))
	}
	h3 := &recHandler{}
	h2 := &recHandler{}
	h2.onMsg = func(m interfaces.ConsensusMessage) {
		if len(h2.heights) == 1 { // first cached message completes a commit -> worker starts round 3
			st.SetHeightAndResetView(3)
			f.ConsumeCacheMessages(h3)
		}
	}
	st.SetHeightAndResetView(2)
	f.ConsumeCacheMessages(h2)
	fmt.Printf("D10: term(H=2) received heights %v ; term(H=3) received heights %v\n", h2.heights, h3.heights)
}
