package leanhelix

// Witness: a malformed consensus message for a FUTURE height is only partially decoded on arrival, cached by the
// RawMessageFilter, and replayed later from onNewConsensusRound() -> ConsumeCacheMessages().
// When the new round is started by the NodeSync arm of WorkerLoop.Run (handleUpdateState), there is no recover
// boundary on the stack, so the panic raised by the lazily decoded field leaves WorkerLoop.Run and reaches the
// govnr supervisor. The very same bytes, when they arrive for the CURRENT height, are dropped by handleRawMessage.

import (
	"bytes"
	"context"
	"encoding/binary"
	"github.com/orbs-network/lean-helix-go/services/interfaces"
	L "github.com/orbs-network/lean-helix-go/services/logger"
	"github.com/orbs-network/lean-helix-go/spec/types/go/primitives"
	"github.com/orbs-network/lean-helix-go/spec/types/go/protocol"
	"github.com/orbs-network/lean-helix-go/state"
	"github.com/orbs-network/lean-helix-go/test/builders"
	"github.com/orbs-network/lean-helix-go/test/mocks"
	"github.com/stretchr/testify/require"
	"os"
	"runtime/debug"
	"strings"
	"sync"
	"testing"
	"time"
)

const witnessInstanceId = primitives.InstanceId(0)

type witnessNode struct {
	config          *interfaces.Config
	electionTrigger *mocks.ElectionTriggerMock
	communication   *mocks.CommunicationMock
	members         []primitives.MemberId
}

// a 4 member committee {0},{1},{2},{3}; the node under test is {0}; its key manager really verifies signatures
func newWitnessNode() *witnessNode {
	discovery := mocks.NewDiscovery()
	members := make([]primitives.MemberId, 4)
	comms := make([]*mocks.CommunicationMock, 4)
	for i := byte(0); i < 4; i++ {
		members[i] = primitives.MemberId{i}
		comms[i] = mocks.NewCommunication(members[i], discovery, nil)
		discovery.RegisterCommunication(members[i], comms[i])
	}
	me := members[0]
	electionTrigger := mocks.NewMockElectionTrigger()
	config := mocks.NewMockConfig(
		nil,
		witnessInstanceId,
		mocks.NewFakeMembership(me, nil, discovery, false),
		mocks.NewMockBlockUtils(me, mocks.NewBlocksPool(nil), nil),
		mocks.NewMockKeyManager(me),
		electionTrigger,
		comms[0],
	)
	return &witnessNode{config: config, electionTrigger: electionTrigger, communication: comms[0], members: members}
}

// A well formed, correctly signed PREPARE from `sender` whose signed header's BlockHash length prefix is overwritten
// with 0xFFFFFFF0. membuffers offsets are uint32, so "offset + length" wraps around to a small in-range value and the
// offset table of the header is still computed: message type, instance id, height, view and the sender id all decode.
// Only reading the BlockHash field itself (or anything that slices it) panics with "slice bounds out of range".
func craftedPrepareWithBadBlockHashLength(t *testing.T, sender primitives.MemberId, height primitives.BlockHeight, block interfaces.Block) *interfaces.ConsensusRawMessage {
	valid := builders.APrepareMessage(witnessInstanceId, mocks.NewMockKeyManager(sender), sender, height, 0, block).ToConsensusRawMessage()
	content := append([]byte{}, valid.Content...)

	hash := []byte(mocks.CalculateBlockHash(block))
	require.Equal(t, 1, bytes.Count(content, hash), "the block hash must appear exactly once in the message")
	at := bytes.Index(content, hash)
	require.True(t, at >= 4)
	require.Equal(t, uint32(len(hash)), binary.LittleEndian.Uint32(content[at-4:at]), "the 4 bytes before the hash are its length prefix")
	binary.LittleEndian.PutUint32(content[at-4:at], 0xFFFFFFF0)

	crafted := &interfaces.ConsensusRawMessage{Content: content, Block: nil}

	// everything the worker loop and the raw message filter read on arrival still decodes
	parsed := interfaces.ToConsensusMessage(crafted)
	require.NotNil(t, parsed)
	require.Equal(t, protocol.LEAN_HELIX_PREPARE, parsed.MessageType())
	require.True(t, sender.Equal(parsed.SenderMemberId()))
	require.Equal(t, height, parsed.BlockHeight())
	require.Equal(t, witnessInstanceId, parsed.InstanceId())
	require.Equal(t, primitives.View(0), parsed.View())

	// ... but the lazily decoded block hash does not
	r := recoverFrom(func() { parsed.(*interfaces.PrepareMessage).Content().SignedHeader().BlockHash() })
	require.NotNil(t, r, "precondition: reading the crafted BlockHash panics inside the generated reader")
	t.Logf("crafted PREPARE for H=%d from %s: BlockHash() panics with: %v", height, sender, r)
	return crafted
}

func recoverFrom(f func()) (r interface{}) {
	r, _ = recoverFromWithStack(f)
	return r
}

func recoverFromWithStack(f func()) (r interface{}, stack string) {
	defer func() {
		if r = recover(); r != nil {
			stack = string(debug.Stack())
		}
	}()
	f()
	return nil, ""
}

func newWitnessWorker(n *witnessNode) (*WorkerLoop, *state.State) {
	s := state.NewState()
	w := NewWorkerLoop(s, n.config, L.NewLhLogger(n.config, s), n.electionTrigger, nil, nil)
	return w, s
}

// CONTROL: the crafted message arrives for the CURRENT height through the Messages arm of the loop -> dropped.
func TestWitness_MalformedMessageForCurrentHeight_IsDroppedByHandleRawMessage(t *testing.T) {
	n := newWitnessNode()
	w, s := newWitnessWorker(n)

	w.handleUpdateState(&blockWithProof{block: interfaces.GenesisBlock})
	require.Equal(t, primitives.BlockHeight(1), s.Height())

	block1 := mocks.ABlock(interfaces.GenesisBlock)
	crafted := craftedPrepareWithBadBlockHashLength(t, n.members[1], 1, block1)

	escaped := recoverFrom(func() { w.handleRawMessage(crafted) })
	require.Nil(t, escaped, "a malformed message for the current height must be dropped")
}

// DEFECT: the crafted message arrives for a FUTURE height (cached), then the node advances by NodeSync.
func TestWitness_MalformedFutureMessage_PanicsOutOfHandleUpdateState(t *testing.T) {
	n := newWitnessNode()
	w, s := newWitnessWorker(n)

	w.handleUpdateState(&blockWithProof{block: interfaces.GenesisBlock})
	require.Equal(t, primitives.BlockHeight(1), s.Height())

	block1 := mocks.ABlock(interfaces.GenesisBlock)
	block2 := mocks.ABlock(block1)
	crafted := craftedPrepareWithBadBlockHashLength(t, n.members[1], 2, block2)

	// arrival: exactly what the Messages arm of WorkerLoop.Run does - survives, the message is cached for H=2
	require.Nil(t, recoverFrom(func() { w.handleRawMessage(crafted) }), "arrival of the future message must not panic")
	require.Equal(t, primitives.BlockHeight(1), s.Height())

	// NodeSync: exactly what the UpdateState arm of WorkerLoop.Run does
	escaped, stack := recoverFromWithStack(func() { w.handleUpdateState(&blockWithProof{block: block1, prevBlockProofBytes: nil}) })
	require.Equal(t, primitives.BlockHeight(2), s.Height(), "the node did move to H=2 by sync")
	if escaped != nil {
		t.Logf("stack of the escaped panic:\n%s", libraryFrames(stack))
	}
	require.Nil(t, escaped, "replaying a cached malformed message panicked out of handleUpdateState (and so out of WorkerLoop.Run)")
}

// DEFECT, end to end through the public API: NewLeanHelix + HandleConsensusMessage + UpdateState.
// The two loops are started exactly like MainLoop.Run starts them, except that WorkerLoop.Run is not wrapped
// by govnr.Forever but by a recover of our own, so that a panic leaving WorkerLoop.Run can be observed.
// It also shows the collateral damage: a VALID preprepare cached behind the malformed message is never processed.
func TestWitness_MalformedFutureMessage_PanicsOutOfWorkerLoopRun(t *testing.T) {
	ctx, cancel := context.WithCancel(context.Background())
	defer cancel()

	n := newWitnessNode()
	m := NewLeanHelix(n.config, nil, nil)
	m.worker = NewWorkerLoop(m.state, m.config, m.logger, m.electionScheduler, m.onCommitCallback, m.onNewConsensusRoundCallback)
	go m.run(ctx)

	workerExit := make(chan interface{}, 1)
	go func() {
		workerExit <- recoverFrom(func() { m.worker.Run(ctx) })
	}()

	require.NoError(t, m.UpdateState(ctx, interfaces.GenesisBlock, nil))
	require.True(t, eventually(time.Second, func() bool { return n.electionTrigger.GetRegisteredHeight() == 1 }))

	block1 := mocks.ABlock(interfaces.GenesisBlock)
	block2 := mocks.ABlock(block1)
	crafted := craftedPrepareWithBadBlockHashLength(t, n.members[1], 2, block2)
	// committee order is {0},{1},{2},{3}: the node under test {0} leads V=0, {1} leads V=1.
	// a valid PREPREPARE for H=2 V=0 would be from {0} itself (ignored), so queue a valid PREPARE from {2} instead
	validBehind := builders.APrepareMessage(witnessInstanceId, mocks.NewMockKeyManager(n.members[2]), n.members[2], 2, 0, block2).ToConsensusRawMessage()

	m.HandleConsensusMessage(ctx, crafted)
	m.HandleConsensusMessage(ctx, validBehind)
	time.Sleep(50 * time.Millisecond) // let the worker cache both (they are for H=2, the node is at H=1)
	select {
	case r := <-workerExit:
		t.Fatalf("worker loop ended already on arrival: %v", r)
	default:
	}

	require.NoError(t, m.UpdateState(ctx, block1, nil))

	select {
	case r := <-workerExit:
		t.Fatalf("WorkerLoop.Run was left by a panic while handling UpdateState (H=%d now): %v", m.state.Height(), r)
	case <-time.After(500 * time.Millisecond):
		// worker loop still alive: the malformed cached message was tolerated
	}
}

func eventually(timeout time.Duration, f func() bool) bool {
	deadline := time.Now().Add(timeout)
	for time.Now().Before(deadline) {
		if f() {
			return true
		}
		time.Sleep(5 * time.Millisecond)
	}
	return false
}

// keeps only the frames of this module, to make the call path readable
func libraryFrames(stack string) string {
	lines := strings.Split(stack, "\n")
	var out []string
	for i := 0; i+1 < len(lines); i++ {
		if strings.Contains(lines[i], "lean-helix-go") && !strings.HasPrefix(lines[i], "\t") {
			out = append(out, lines[i], lines[i+1])
		}
	}
	return strings.Join(out, "\n")
}

// DEFECT, fully black box: the real MainLoop.Run with its govnr supervisor. The supervisor reports a panic it
// recovered from the "lh-workerloop" goroutine through a scribe logger that writes to the os.Stdout it finds
// when Run() is called, so os.Stdout is swapped for a pipe during that call only.
func TestWitness_MalformedFutureMessage_ReachesGovnrSupervisor(t *testing.T) {
	ctx, cancel := context.WithCancel(context.Background())
	defer cancel()

	n := newWitnessNode()
	m := NewLeanHelix(n.config, nil, nil)

	pr, pw, err := os.Pipe()
	require.NoError(t, err)
	realStdout := os.Stdout
	os.Stdout = pw
	m.Run(ctx)
	os.Stdout = realStdout

	var mu sync.Mutex
	var captured strings.Builder
	go func() {
		buf := make([]byte, 64*1024)
		for {
			k, err := pr.Read(buf)
			mu.Lock()
			captured.Write(buf[:k])
			mu.Unlock()
			if err != nil {
				return
			}
		}
	}()
	supervisorSawPanic := func() bool {
		mu.Lock()
		defer mu.Unlock()
		return strings.Contains(captured.String(), "recovered panic")
	}

	require.NoError(t, m.UpdateState(ctx, interfaces.GenesisBlock, nil))
	require.True(t, eventually(time.Second, func() bool { return n.electionTrigger.GetRegisteredHeight() == 1 }))

	block1 := mocks.ABlock(interfaces.GenesisBlock)
	block2 := mocks.ABlock(block1)
	m.HandleConsensusMessage(ctx, craftedPrepareWithBadBlockHashLength(t, n.members[1], 2, block2))
	time.Sleep(50 * time.Millisecond)
	require.False(t, supervisorSawPanic(), "arrival of the future message is fine")

	require.NoError(t, m.UpdateState(ctx, block1, nil))
	escaped := eventually(500*time.Millisecond, supervisorSawPanic)

	cancel()
	shutdownCtx, cancelShutdown := context.WithTimeout(context.Background(), time.Second)
	defer cancelShutdown()
	m.WaitUntilShutdown(shutdownCtx)
	_ = pw.Close()

	if escaped {
		mu.Lock()
		log := captured.String()
		mu.Unlock()
		if len(log) > 600 {
			log = log[:600] + " ..."
		}
		t.Fatalf("the govnr supervisor of lh-workerloop recovered a panic after UpdateState:\n%s", log)
	}
}
