package leanhelix

import (
	"context"
	"fmt"
	"sync"
	"testing"
	"time"

	"github.com/orbs-network/lean-helix-go"
	"github.com/orbs-network/lean-helix-go/services/blockproof"
	"github.com/orbs-network/lean-helix-go/services/interfaces"
	"github.com/orbs-network/lean-helix-go/services/logger"
	"github.com/orbs-network/lean-helix-go/services/randomseed"
	"github.com/orbs-network/lean-helix-go/spec/types/go/primitives"
	"github.com/orbs-network/lean-helix-go/spec/types/go/protocol"
	"github.com/orbs-network/lean-helix-go/test"
	"github.com/orbs-network/lean-helix-go/test/builders"
	"github.com/orbs-network/lean-helix-go/test/mocks"
	"github.com/stretchr/testify/require"
)

// Witness: the new-consensus-round callback must be told about every round exactly once, with strictly
// increasing heights. When the future-message cache already holds a full set of messages for height H+1,
// that height is committed inside ConsumeCacheMessages() (called from onNewConsensusRound before the callback),
// the nested onNewConsensusRound reports H+2, and the outer one then reports lh.state.Height() == H+2 again
// (with the stale prevBlock of height H). H+1 is never reported.

type roundCbRecord struct {
	height          primitives.BlockHeight
	prevBlockHeight primitives.BlockHeight
}

type roundCbWitnessNode struct {
	instanceId primitives.InstanceId
	members    []primitives.MemberId
	mainLoop   *leanhelix.MainLoop
	comm       *mocks.CommunicationMock

	lock      sync.Mutex
	rounds    []roundCbRecord
	committed []primitives.BlockHeight
}

// a real MainLoop+WorkerLoop of member 3 in a committee of 4 (members {0},{1},{2},{3}; {0} leads view 0 of every height).
// Signature verification stays ENABLED: every message fed in is signed by the mock key manager of its sender.
func newRoundCbWitnessNode() *roundCbWitnessNode {
	n := &roundCbWitnessNode{instanceId: primitives.InstanceId(0)}
	l := logger.NewSilentLogger()
	discovery := mocks.NewDiscovery()
	comms := make([]*mocks.CommunicationMock, 4)
	for i := byte(0); i < 4; i++ {
		id := primitives.MemberId{i}
		n.members = append(n.members, id)
		comms[i] = mocks.NewCommunication(id, discovery, l)
		discovery.RegisterCommunication(id, comms[i])
	}
	me := n.members[3]
	config := mocks.NewMockConfig(
		l,
		n.instanceId,
		mocks.NewFakeMembership(me, nil, discovery, false),
		mocks.NewMockBlockUtils(me, mocks.NewBlocksPool(nil), l),
		mocks.NewMockKeyManager(me),
		mocks.NewMockElectionTrigger(),
		comms[3],
	)
	onCommit := func(ctx context.Context, block interfaces.Block, blockProof []byte) error {
		n.lock.Lock()
		defer n.lock.Unlock()
		n.committed = append(n.committed, block.Height())
		return nil
	}
	onNewRound := func(ctx context.Context, newHeight primitives.BlockHeight, prevBlock interfaces.Block, canBeFirstLeader bool) {
		n.lock.Lock()
		defer n.lock.Unlock()
		rec := roundCbRecord{height: newHeight}
		if prevBlock != nil && prevBlock != interfaces.GenesisBlock {
			rec.prevBlockHeight = prevBlock.Height()
		}
		n.rounds = append(n.rounds, rec)
	}
	n.comm = comms[3]
	n.mainLoop = leanhelix.NewLeanHelix(config, onCommit, onNewRound)
	return n
}

func (n *roundCbWitnessNode) roundHeights() []primitives.BlockHeight {
	n.lock.Lock()
	defer n.lock.Unlock()
	res := make([]primitives.BlockHeight, 0, len(n.rounds))
	for _, r := range n.rounds {
		res = append(res, r.height)
	}
	return res
}

func (n *roundCbWitnessNode) roundsStr() string {
	n.lock.Lock()
	defer n.lock.Unlock()
	s := ""
	for _, r := range n.rounds {
		s += fmt.Sprintf("(newHeight=%d prevBlock.H=%d) ", r.height, r.prevBlockHeight)
	}
	return s
}

func (n *roundCbWitnessNode) committedHeights() []primitives.BlockHeight {
	n.lock.Lock()
	defer n.lock.Unlock()
	return append([]primitives.BlockHeight{}, n.committed...)
}

// the messages that members {0},{1},{2} send in an ordinary round of the given height on the given block:
// PREPREPARE from leader {0}, PREPARE from {1},{2}, COMMIT from {0},{1},{2}
func (n *roundCbWitnessNode) fullRoundMessages(height primitives.BlockHeight, block interfaces.Block, randomSeed uint64) (raw []*interfaces.ConsensusRawMessage, commits []*interfaces.CommitMessage) {
	km := func(i int) *mocks.MockKeyManager { return mocks.NewMockKeyManager(n.members[i]) }
	raw = append(raw, builders.APreprepareMessage(n.instanceId, km(0), n.members[0], height, 0, block).ToConsensusRawMessage())
	for _, i := range []int{1, 2} {
		raw = append(raw, builders.APrepareMessage(n.instanceId, km(i), n.members[i], height, 0, block).ToConsensusRawMessage())
	}
	for _, i := range []int{0, 1, 2} {
		cm := builders.ACommitMessage(n.instanceId, km(i), n.members[i], height, 0, block, randomSeed)
		commits = append(commits, cm)
		raw = append(raw, cm.ToConsensusRawMessage())
	}
	return raw, commits
}

func (n *roundCbWitnessNode) feed(ctx context.Context, msgs []*interfaces.ConsensusRawMessage) {
	for _, m := range msgs {
		n.mainLoop.HandleConsensusMessage(ctx, m)
	}
}

func requireStrictlyIncreasing(t *testing.T, n *roundCbWitnessNode) {
	heights := n.roundHeights()
	for i := 1; i < len(heights); i++ {
		if heights[i] <= heights[i-1] {
			t.Fatalf("onNewConsensusRound callback heights are not strictly increasing: got %v, committed blocks %v; calls: %s",
				heights, n.committedHeights(), n.roundsStr())
		}
	}
}

func seedFromPrevProof(prevBlockProofBytes []byte) uint64 {
	return randomseed.CalculateRandomSeed(protocol.BlockProofReader(prevBlockProofBytes).RandomSeedSignature())
}

// Height 1 is completed by ordinary consensus messages; the messages of height 2 were received earlier (future cache).
func TestWitness_NewConsensusRoundCallback_HeightsStrictlyIncreasing_CachedRoundAfterCommit(t *testing.T) {
	test.WithContext(func(ctx context.Context) {
		n := newRoundCbWitnessNode()
		n.mainLoop.Run(ctx)
		require.NoError(t, n.mainLoop.UpdateState(ctx, interfaces.GenesisBlock, nil))
		require.True(t, test.Eventually(time.Second, func() bool { return len(n.roundHeights()) == 1 }), "node did not start height 1")
		require.Equal(t, []primitives.BlockHeight{1}, n.roundHeights())

		block1 := mocks.ABlock(interfaces.GenesisBlock)
		block2 := mocks.ABlock(block1)

		seed1 := calcGenesisBlockRandomSeed()
		msgs1, commits1 := n.fullRoundMessages(1, block1, seed1)
		// the proof the node builds for block 1 aggregates the random seed shares with the (mock) key manager: its
		// RandomSeedSignature does not depend on which commits are in it, so the seed of height 2 is known up front
		proof1 := blockproof.GenerateLeanHelixBlockProof(mocks.NewMockKeyManager(n.members[3]), commits1)
		seed2 := seedFromPrevProof(proof1.Raw())
		msgs2, _ := n.fullRoundMessages(2, block2, seed2)

		n.feed(ctx, msgs2) // node is at height 1: these are stored in the future-message cache
		require.Equal(t, primitives.BlockHeight(1), n.mainLoop.State().Height())
		n.feed(ctx, msgs1) // completes height 1 -> onCommit -> onNewConsensusRound(block1) -> drain completes height 2

		require.True(t, test.Eventually(time.Second, func() bool { return n.mainLoop.State().Height() == 3 }), "node did not reach height 3, committed=%v rounds=%v", n.committedHeights(), n.roundHeights())
		require.True(t, test.Eventually(time.Second, func() bool { return len(n.roundHeights()) >= 3 }), "expected 3 callback calls, got %v", n.roundHeights())
		require.Equal(t, []primitives.BlockHeight{1, 2}, n.committedHeights(), "both blocks committed exactly once, in order")

		requireStrictlyIncreasing(t, n)
		require.Equal(t, []primitives.BlockHeight{1, 2, 3}, n.roundHeights(), "calls: %s", n.roundsStr())
	})
}

// Same, but the node advances from height 1 to height 2 by node sync (UpdateState with block 1 and its proof).
func TestWitness_NewConsensusRoundCallback_HeightsStrictlyIncreasing_CachedRoundAfterUpdateState(t *testing.T) {
	test.WithContext(func(ctx context.Context) {
		n := newRoundCbWitnessNode()
		n.mainLoop.Run(ctx)
		require.NoError(t, n.mainLoop.UpdateState(ctx, interfaces.GenesisBlock, nil))
		require.True(t, test.Eventually(time.Second, func() bool { return len(n.roundHeights()) == 1 }), "node did not start height 1")

		block1 := mocks.ABlock(interfaces.GenesisBlock)
		block2 := mocks.ABlock(block1)

		msgs1, commits1 := n.fullRoundMessages(1, block1, calcGenesisBlockRandomSeed())
		proof1 := blockproof.GenerateLeanHelixBlockProof(mocks.NewMockKeyManager(n.members[0]), commits1)
		msgs2, _ := n.fullRoundMessages(2, block2, seedFromPrevProof(proof1.Raw()))

		n.feed(ctx, msgs2) // cached as future messages
		// the worker selects between its message channel and its update-state channel at random: make sure it has
		// consumed all of msgs2 before the sync. Messages are handled in FIFO order, so once the node answers the
		// PREPREPARE of height 1 with its PREPARE, everything sent before it has been handled (= cached).
		n.feed(ctx, msgs1[:1])
		require.True(t, test.Eventually(time.Second, func() bool { return n.comm.CountSentMessages(protocol.LEAN_HELIX_PREPARE) >= 1 }), "node did not answer the PREPREPARE of height 1")
		require.Equal(t, primitives.BlockHeight(1), n.mainLoop.State().Height())
		require.NoError(t, n.mainLoop.UpdateState(ctx, block1, proof1.Raw()))

		require.True(t, test.Eventually(time.Second, func() bool { return n.mainLoop.State().Height() == 3 }), "node did not reach height 3, committed=%v rounds=%v", n.committedHeights(), n.roundHeights())
		require.True(t, test.Eventually(time.Second, func() bool { return len(n.roundHeights()) >= 3 }), "expected 3 callback calls, got %v", n.roundHeights())
		require.Equal(t, []primitives.BlockHeight{2}, n.committedHeights())

		requireStrictlyIncreasing(t, n)
		require.Equal(t, []primitives.BlockHeight{1, 2, 3}, n.roundHeights(), "calls: %s", n.roundsStr())
	})
}
