package wit

import (
	"fmt"
	"testing"
	"time"

	"github.com/orbs-network/lean-helix-go/services/electiontrigger"
	"github.com/orbs-network/lean-helix-go/services/interfaces"
	"github.com/orbs-network/lean-helix-go/services/quorum"
	"github.com/orbs-network/lean-helix-go/spec/types/go/primitives"
)

// D7a: unknown / empty union -> nil ConsensusMessage (callers invoke methods on it)
func TestWitnessD7a_NilParse(t *testing.T) {
	for _, c := range [][]byte{nil, {}, {9, 0, 0, 0}, {0xff, 0xff, 0, 0, 0, 0, 0, 0}} {
		m := interfaces.ToConsensusMessage(&interfaces.ConsensusRawMessage{Content: c})
		fmt.Printf("D7a: content=%v -> nil? %v\n", c, m == nil)
	}
}

// D7b: 8 crafted bytes make the decoder itself panic (uint32 size wrap in membuffers)
func TestWitnessD7b_CraftedPanic(t *testing.T) {
	defer func() { fmt.Println("D7b: recovered:", recover()) }()
	c := []byte{1, 0, 0, 0, 0xFC, 0xFF, 0xFF, 0xFF}
	m := interfaces.ToConsensusMessage(&interfaces.ConsensusRawMessage{Content: c})
	fmt.Println("D7b: parsed", m != nil)
	fmt.Println(m.MessageType())
}

// D2: f computed through float64
func TestWitnessD2_CalcF(t *testing.T) {
	n := 0
	ws := []uint64{1 << 53, 1<<53 + 2, 1<<53 + 4, 1<<54 + 6, 1<<60 + 1, 1<<63 + 1, ^uint64(0), ^uint64(0) - 1, ^uint64(0) - 2, 9007199254740997, 9007199254741000}
	for _, w := range ws {
		f := quorum.CalcByzMaxWeight([]primitives.MemberWeight{primitives.MemberWeight(w)})
		exp := uint((w - 1) / 3)
		if f != exp {
			n++
			fmt.Printf("D2: W=%d f=%d expected=%d 3f>=W? %v\n", w, f, exp, 3*uint64(f) >= w)
		}
	}
	fmt.Printf("D2: mismatches %d of %d\n", n, len(ws))
}

// D3: timeout wraps
func TestWitnessD3_Timeout(t *testing.T) {
	et := Electiontrigger.NewTimerBasedElectionTrigger(4*time.Second, nil)
	for _, v := range []primitives.View{0, 1, 30, 31, 32, 33, 40, 62, 63, 64, 100, 1 << 40, ^primitives.View(0)} {
		fmt.Printf("D3: view=%d timeout=%d\n", uint64(v), int64(et.CalcTimeout(v)))
	}
}
